"""CLI: python3-vt -m nmv <ID> <quick|thorough> [--replay FILE]"""
import importlib
import os
import sys

from . import core


def factory(pid):
    mod = importlib.import_module("nmv.props." + pid.lower())
    return getattr(mod, pid.upper())


def main(argv):
    if len(argv) < 2:
        print("usage: check <ID> <quick|thorough> [--replay FILE]")
        return 2
    pid = argv[0].upper()
    tier = argv[1]
    replay = None
    if "--replay" in argv:
        replay = argv[argv.index("--replay") + 1]
    seed = int(os.environ.get("VERIF_SEED", "0") or 0)
    tier = os.environ.get("VERIF_TIER", tier) if tier not in ("quick", "thorough") else tier
    return core.run_property(factory(pid), tier, seed, replay)


if __name__ == "__main__":
    sys.exit(main(sys.argv[1:]))
