"""Common runner: replay tier, exhaustive tier, Hypothesis tier, confirmation,
known-finding matching, evidence writing."""
import hashlib
import itertools
import json
import multiprocessing as mp
import os
import re
import sys
import time
import traceback

from . import build
from .server import Server

VERIF = build.VERIF
KNOWN = os.environ.get("NMV_KNOWN") or os.path.join(VERIF, "known_findings.json")
OUT = os.environ.get("NMV_OUT", VERIF)


def canon(case):
    return json.dumps(case, sort_keys=True, separators=(",", ":"))


def chash(case):
    return hashlib.sha1(canon(case).encode()).hexdigest()[:16]


class Prop:
    """Base class of a property check."""
    id = "C00"
    servers = []          # server names (build.SERVERS keys)
    rule = ""
    assumptions = []
    engines = ["hypothesis+sanitized-cpp-server"]
    workers = 14
    time_guard_s = {"quick": 1500, "thorough": 7200}

    # ---- to override -------------------------------------------------
    def exhaustive(self, tier):
        return iter(())

    def exhaustive_space(self, tier):
        return None

    def strategy(self, tier):
        return None

    def n_random(self, tier):
        return 0

    def server_of(self, case):
        return self.servers[0]

    def request(self, case):
        """what is sent to the server for a case (default: the case itself)"""
        return case

    def check(self, case, obs):
        """return None if the property holds on this case, else a short failure string"""
        raise NotImplementedError

    def nontrivial(self, case):
        return True

    def classes(self, case):
        return []

    def features(self, case, failure):
        """canonical fields used to match known findings"""
        return {}

    def excluded(self, case):
        """id of a known finding whose input class contains this case (generator-level exclusion)"""
        return None

    def extra_phases(self, ctx):
        """hook for additional engines (libFuzzer, progen); returns list of failures"""
        return []


# ---------------------------------------------------------------------
# worker side
# ---------------------------------------------------------------------
_W = {}


def _limit_memory():
    """soft address-space limit for the Python worker itself (a runaway generator must fail with MemoryError,
    not wake the OOM killer); the sanitized servers reset it (ASan needs a huge virtual address space)"""
    import resource
    try:
        soft, hard = resource.getrlimit(resource.RLIMIT_AS)
        resource.setrlimit(resource.RLIMIT_AS, (6 * 1024 ** 3, hard))
    except Exception:
        pass


def _winit(prop_factory, server_paths, envs, limit=False):
    if limit:
        _limit_memory()
    _W["prop"] = prop_factory()
    _W["paths"] = server_paths
    _W["envs"] = envs
    _W["srv"] = {}


def _srv(name):
    s = _W["srv"].get(name)
    if s is None:
        s = Server(_W["paths"][name], env=_W["envs"].get(name))
        _W["srv"][name] = s
    return s


class Stats:
    def __init__(self):
        self.evaluations = 0
        self.nontrivial = set()
        self.classes = {}
        self.rejected = {}
        self.samples = []
        self.crashes = 0
        self.nothing = 0

    def merge(self, o):
        self.evaluations += o.evaluations
        self.nontrivial |= o.nontrivial
        for k, v in o.classes.items():
            self.classes[k] = self.classes.get(k, 0) + v
        for k, v in o.rejected.items():
            self.rejected[k] = self.rejected.get(k, 0) + v
        self.samples.extend(o.samples)
        self.crashes += o.crashes
        self.nothing += o.nothing


def _eval_cases(prop, cases, stats, sample_every=0):
    """run cases through their server(s) and the oracle; returns list of (case, failure, obs)"""
    fails = []
    by_srv = {}
    kept = []
    no_excl = bool(os.environ.get("NMV_NO_EXCLUDE"))
    for c in cases:
        ex = None if no_excl else prop.excluded(c)
        if ex and isinstance(ex, str) and re.match(r"^C\d\d-", ex) and ex not in listed_ids(ex[:3]) and not os.environ.get("NMV_EXCLUDE_UNLISTED"):
            ex = None      # the class of a finding that is no longer listed (repaired) is searched again; the id names its property
        if ex:
            stats.rejected["excluded_by_known_finding:" + ex] = stats.rejected.get("excluded_by_known_finding:" + ex, 0) + 1
            continue
        kept.append(c)
        by_srv.setdefault(prop.server_of(c), []).append(c)
    for name, cs in by_srv.items():
        obs = _srv(name).run_batch([prop.request(c) for c in cs])
        for c, o in zip(cs, obs):
            stats.evaluations += 1
            if "crash" in o:
                stats.crashes += 1
            try:
                f = prop.check(c, o)
            except Exception as e:  # oracle bug: report as harness error, never as pass
                f = "HARNESS-ERROR oracle exception: %r %s" % (e, traceback.format_exc()[-600:])
            if prop.nontrivial(c):
                stats.nontrivial.add(chash(c))
            for k in prop.classes(c):
                stats.classes[k] = stats.classes.get(k, 0) + 1
            if o.get("hv") is False:
                stats.nothing += 1
            if sample_every and (stats.evaluations % sample_every == 1) and len(stats.samples) < 6:
                stats.samples.append({"case": c, "obs": _trim(o)})
            if f:
                fails.append((c, f, _trim(o)))
    return fails


def _trim(o, n=400):
    s = json.dumps(o)
    if len(s) <= n:
        return o
    return {"_truncated": s[:n]}


def _work_exhaustive(chunk):
    prop = _W["prop"]
    st = Stats()
    fails = _eval_cases(prop, chunk, st, sample_every=max(1, len(chunk) // 2))
    return st, fails[:20]


def _work_random(args):
    seed, n, tier = args
    prop = _W["prop"]
    st = Stats()
    import hypothesis
    from hypothesis import given, settings, HealthCheck, Phase
    strat = prop.strategy(tier)
    found = []
    cnt = [0]
    t_first = [0.0]

    @hypothesis.seed(seed)
    @settings(max_examples=n, database=None, deadline=None, derandomize=False,
              report_multiple_bugs=False, suppress_health_check=list(HealthCheck),
              phases=[Phase.generate, Phase.shrink], print_blob=False)
    @given(strat)
    def run(case):
        cnt[0] += 1
        if found and time.time() - t_first[0] > 20:
            return  # bound the shrink phase: nothing smaller will be accepted any more
        try:
            fs = _eval_cases(prop, [case], st, sample_every=max(1, n // 3))
        except MemoryError:
            # the reference (NumPy) side ran into the worker's address-space limit on this case: not judged, counted
            st.rejected["reference_memory_limit"] = st.rejected.get("reference_memory_limit", 0) + 1
            import gc
            gc.collect()
            return
        if fs:
            if not found:
                t_first[0] = time.time()
            found.append(fs[0])
            raise AssertionError(fs[0][1])

    try:
        run()
    except AssertionError:
        pass
    except BaseException as e:  # hypothesis internal errors
        if not found:
            tb = traceback.format_exc().strip().splitlines()
            return st, [({"_harness": True}, "HARNESS-ERROR hypothesis: %r | %s" % (e, " / ".join(l.strip() for l in tb[-8:])[:700]), {})]
    # last recorded failure is the shrunk one
    return st, ([found[-1]] if found else [])


# ---------------------------------------------------------------------
# driver side
# ---------------------------------------------------------------------
def load_known(pid):
    if not os.path.exists(KNOWN):
        return []
    data = json.load(open(KNOWN))
    return [e for e in data.get("findings", []) if e.get("property") == pid]


_LISTED = {}


def listed_ids(pid):
    """ids of the findings of this property that are still listed as known (a repaired class - status fixed - is searched again)"""
    if pid not in _LISTED:
        _LISTED[pid] = {e["id"] for e in load_known(pid) if e.get("status") == "known"}
    return _LISTED[pid]


def pick_class(pid, ids):
    """a case may lie in several finding classes: one that is still listed decides, else the first"""
    ids = [i for i in ids if i]
    for i in ids:
        if i in listed_ids(pid):
            return i
    return ids[0] if ids else None


def match_known(entry, feats):
    m = entry.get("match", {})
    for k, v in m.items():
        fv = feats.get(k)
        if isinstance(v, list):
            if fv not in v:
                return False
        elif fv != v:
            return False
    return True


def chunks(it, n):
    it = iter(it)
    while True:
        c = list(itertools.islice(it, n))
        if not c:
            return
        yield c


def run_property(prop_factory, tier, seed, replay=None):
    t0 = time.time()
    prop = prop_factory()
    pid = prop.id
    try:
        paths, bdt = build.build_servers(prop.servers)
    except build.BuildError as e:
        print("HARNESS-ERROR build failed for %s:\n%s" % (pid, e))
        return 2
    envs = getattr(prop, "server_env", {})
    _winit(prop_factory, paths, envs)  # also usable in-process
    stats = Stats()
    failures = []   # (case, failure, obs)
    info = {"build_s": round(bdt, 1)}

    if replay:
        case = json.load(open(replay))
        case = case.get("case", case)
        if case.get("_external") and hasattr(prop, "replay_external"):
            fs = prop.replay_external(case)
        else:
            fs = _eval_cases(prop, [case], stats)
        for c, f, o in fs:
            print("REPLAY-FAIL %s: %s" % (pid, f))
            print("VIOLATION property=%s replay=%s" % (pid, replay))
        if not fs:
            print("REPLAY-PASS %s" % pid)
        return 1 if fs else 0

    # 1. replay tier: committed regression corpus
    rdir = os.path.join(VERIF, "replay", pid)
    replayed = 0
    if os.path.isdir(rdir):
        cs = []
        for f in sorted(os.listdir(rdir)):
            if f.endswith(".json"):
                c = json.load(open(os.path.join(rdir, f)))
                cs.append(c.get("case", c))
        replayed = len(cs)
        if not all(prop.server_of(c) in paths for c in cs if not c.get("_external")):
            info["replay_skipped_unbuilt_server"] = sum(1 for c in cs if not c.get("_external") and prop.server_of(c) not in paths)   # restricted run
            cs = [c for c in cs if c.get("_external") or prop.server_of(c) in paths]
        ext = [c for c in cs if c.get("_external") and hasattr(prop, "replay_external")]
        for c in ext:
            stats.evaluations += 1
            failures += prop.replay_external(c)
        failures += _eval_cases(prop, [c for c in cs if c not in ext], stats, sample_every=0)
    info["replayed"] = replayed

    nworkers = prop.workers
    guard = prop.time_guard_s[tier]
    inconclusive = False
    ctx = mp.get_context("fork")
    with ctx.Pool(nworkers, initializer=_winit, initargs=(prop_factory, paths, envs, True)) as pool:
        # 2. exhaustive tier
        ex_n = 0
        ex_done = True
        for st, fs in pool.imap_unordered(_work_exhaustive, chunks(prop.exhaustive(tier), getattr(prop, "chunk", 200))):
            stats.merge(st)
            ex_n += st.evaluations
            failures += fs
            if len(failures) > 200:
                ex_done = False
                break
            if time.time() - t0 > guard:
                inconclusive = True
                ex_done = False
                break
        info["exhaustive_cases"] = ex_n
        info["exhaustive_s"] = round(time.time() - t0, 1)
        # 3. random tier
        nr = prop.n_random(tier)
        if nr and not inconclusive and prop.strategy(tier) is not None:
            per = max(1, nr // nworkers)
            jobs = [(seed * 1000 + k, per, tier) for k in range(nworkers)]
            for st, fs in pool.imap_unordered(_work_random, jobs):
                stats.merge(st)
                failures += fs
            info["random_cases"] = per * nworkers
            info["random_s"] = round(time.time() - t0 - info["exhaustive_s"], 1)
    # extra engines
    try:
        failures += prop.extra_phases({"tier": tier, "seed": seed, "stats": stats, "info": info, "paths": paths})
    except build.BuildError as e:
        print("HARNESS-ERROR build failed for %s:\n%s" % (pid, e))
        return 2

    # 4. confirmation + known-finding matching
    known = load_known(pid)
    harness_errors = [f for f in failures if str(f[1]).startswith("HARNESS-ERROR")]
    real = [f for f in failures if not str(f[1]).startswith("HARNESS-ERROR")]
    confirmed = []
    flaky = []
    seen = set()
    for c, f, o in real:
        h = chash(c)
        if h in seen:
            continue
        seen.add(h)
        if len(confirmed) >= 25:
            break
        ok = 0
        for _ in range(0 if c.get("_external") else 3):
            s = Server(paths[prop.server_of(c)], env=envs.get(prop.server_of(c)))
            ob = s.run_one(prop.request(c))
            s.close()
            try:
                ff = prop.check(c, ob)
            except Exception as e:
                ff = None
            if ff:
                ok += 1
        if c.get("_external"):
            ok = 3
        if ok == 3:
            confirmed.append((c, f, o))
        else:
            flaky.append((c, f, ok))
    violations = []
    known_hits = {}
    for c, f, o in confirmed:
        feats = prop.features(c, f)
        hit = None
        for e in known:
            if e.get("status") == "known" and match_known(e, feats):
                hit = e
                break
        if hit:
            known_hits.setdefault(hit["id"], []).append((c, f))
        else:
            violations.append((c, f, o))

    # witnesses of known findings (replayed every run against the real code)
    for e in known:
        if e.get("status") != "known" or e.get("witness") is None:
            continue
        wcase = dict(e["witness"], _witness=True)
        if wcase.get("_external") and hasattr(prop, "replay_external"):
            try:
                wf = prop.replay_external(wcase)
                ff = wf[0][1] if wf else None
            except Exception as ex:
                ff = "HARNESS-ERROR witness replay failed: %r" % (ex,)
        else:
            if prop.server_of(wcase) not in _W["paths"]:
                info.setdefault("witness_not_replayed", []).append(e["id"])     # restricted run (server of this witness not built)
                continue
            ob = _srv(prop.server_of(wcase)).run_one(prop.request(wcase))
            try:
                ff = prop.check(wcase, ob)
            except Exception as ex:
                ff = "HARNESS-ERROR oracle exception on witness: %r" % (ex,)
        if ff and not str(ff).startswith("HARNESS-ERROR") and match_known(e, prop.features(wcase, ff)):
            known_hits.setdefault(e["id"], []).append((wcase, ff))
        elif ff:
            print("HARNESS-ERROR witness of %s fails differently: %s" % (e["id"], ff))
            harness_errors.append((wcase, "HARNESS-ERROR witness mismatch " + e["id"], {}))
        else:
            info.setdefault("stale_known", []).append(e["id"])
            print("NOTE: the witness of known finding %s no longer fails on this tree (entry is stale; nothing is suppressed for it)" % e["id"])
    for e in known:
        if e.get("status") == "known" and e["id"] in known_hits:
            print("KNOWN-FINDING: property=%s %s [%s] (%d matching case(s) this run)" % (pid, e["what"], e["id"], len(known_hits[e["id"]])))

    vdir = os.path.join(OUT, "violations", pid)
    vpaths = []
    for c, f, o in violations[:10]:
        os.makedirs(vdir, exist_ok=True)
        p = os.path.join(vdir, chash(c) + ".json")
        json.dump({"property": pid, "case": c, "failure": f, "obs": o, "seed": seed, "tier": tier}, open(p, "w"), indent=1)
        vpaths.append(p)
        print("FAIL %s: %s" % (pid, f))
        print("  case: %s" % canon(c)[:600])
        print("VIOLATION property=%s replay=%s" % (pid, p))

    for c, f, ok in flaky[:5]:
        print("HARNESS-ERROR flaky failure (reproduced %d/3): %s case=%s" % (ok, f, canon(c)[:300]))
    for c, f, o in harness_errors[:5]:
        print("%s case=%s" % (f, canon(c)[:300]))

    for s in _W["srv"].values():
        s.close()

    # evidence
    samples = stats.samples[:12]
    cov = {
        "evaluations": stats.evaluations,
        "distinct_nontrivial": len(stats.nontrivial),
        "rule": prop.rule,
        "samples": samples if samples else [{"note": "no cases"}],
        "classes": dict(sorted(stats.classes.items())),
        "rejected": dict(sorted(stats.rejected.items())),
        "nmtools_returned_nothing": stats.nothing,
        "server_crashes_observed": stats.crashes,
        "exhaustive": bool(ex_done and info.get("exhaustive_cases", 0) > 0 and prop.exhaustive_space(tier) is not None),
        "builds": {"compiler": "g++ 12 / clang++ 14", "tree_hash": build.tree_hash()[:16], "repo": build.REPO},
        "engines": prop.engines,
        "info": info,
        "known_findings_reproduced": {k: len(v) for k, v in known_hits.items()},
    }
    sp = prop.exhaustive_space(tier)
    if sp is not None:
        cov["space"] = sp
    ev = {
        "property_id": pid, "tier": tier, "seed": seed, "level": "exploration",
        "coverage": cov, "assumptions": prop.assumptions, "wall_s": round(time.time() - t0, 1),
        "violations": len(violations),
    }
    os.makedirs(os.path.join(OUT, "evidence"), exist_ok=True)
    json.dump(ev, open(os.path.join(OUT, "evidence", pid + ".json"), "w"), indent=1, default=str)

    print("%s %s seed=%d: evaluations=%d nontrivial=%d violations=%d known=%d wall=%.0fs" % (
        pid, tier, seed, stats.evaluations, len(stats.nontrivial), len(violations), len(known_hits), time.time() - t0))
    if violations:
        return 1
    if harness_errors or flaky:
        return 2
    if inconclusive:
        print("INCONCLUSIVE %s: time guard hit" % pid)
        return 2
    if stats.evaluations == 0:
        print("HARNESS-ERROR %s: nothing evaluated" % pid)
        return 2
    return 0
