"""E2 driver: program suites shared by C09 / C10 / C11 (and the base class for generated-program properties)."""
import copy
import itertools
import json
import time

import numpy as np

from . import progen, refs, refs_reduce, build  # noqa: F401
from .core import Prop, chash
from .props import c03, c04, c08
from .props.common import prod, arange_array


def seeded_batch(strategy, seed, n):
    """draw n examples from a Hypothesis strategy, reproducibly (generate phase only)"""
    import hypothesis
    from hypothesis import given, settings, HealthCheck, Phase
    out = []

    @hypothesis.seed(seed)
    @settings(max_examples=n, database=None, deadline=None, suppress_health_check=list(HealthCheck), phases=[Phase.generate])
    @given(strategy)
    def run(x):
        out.append(x)
    run()
    return out


# ---------------------------------------------------------------------------------------------
# logical view cases renderable by progen.RENDER
# ---------------------------------------------------------------------------------------------
def fixed_view_cases():
    A = lambda shape, start=1: arange_array(shape, start=start)
    st = lambda f, ins, a: {"f": f, "in": ins, "a": a}
    cs = []
    cs.append(([A([2, 3])], [st("transpose", [0], {"axes": [1, 0]})]))
    cs.append(([A([2, 3, 2])], [st("transpose", [0], {"axes": [2, 0, 1]})]))
    cs.append(([A([2, 3])], [st("transpose", [0], {"axes": None})]))
    cs.append(([A([2, 3])], [st("reshape", [0], {"shape": [3, 2]})]))
    cs.append(([A([2, 3, 2])], [st("reshape", [0], {"shape": [4, -1]})]))
    cs.append(([A([2, 3])], [st("flatten", [0], {})]))
    cs.append(([A([2, 1, 3])], [st("squeeze", [0], {})]))
    cs.append(([A([2, 3])], [st("expand_dims", [0], {"axis": [0, 2]})]))
    cs.append(([A([2, 3])], [st("expand_dims", [0], {"axis": -1})]))
    cs.append(([A([2, 3])], [st("flip", [0], {"axis": 1})]))
    cs.append(([A([2, 3])], [st("flip", [0], {"axis": None})]))
    cs.append(([A([2, 3])], [st("tile", [0], {"reps": [2, 1]})]))
    cs.append(([A([3])], [st("tile", [0], {"reps": [2, 2]})]))
    cs.append(([A([1, 3])], [st("broadcast_to", [0], {"shape": [2, 2, 3]})]))
    cs.append(([A([2, 3, 2])], [st("moveaxis", [0], {"source": 0, "destination": -1})]))
    cs.append(([A([2, 3]), A([2, 3], 10)], [st("add", [0, 1], {})]))
    cs.append(([A([2, 1]), A([1, 3], 10)], [st("multiply", [0, 1], {})]))
    cs.append(([A([2, 3]), A([3], 10)], [st("subtract", [0, 1], {})]))
    cs.append(([A([2, 3]), A([1, 3], 10)], [st("concatenate", [0, 1], {"axis": 0})]))
    cs.append(([A([2, 3])], [st("sum", [0], {"axis": 0})]))
    cs.append(([A([2, 3, 2])], [st("sum", [0], {"axis": [0, 2], "keepdims": "ct_true"})]))
    cs.append(([A([2, 3])], [st("sum", [0], {"axis": -1, "keepdims": True})]))
    cs.append(([A([2, 2])], [st("prod", [0], {"axis": 1})]))
    cs.append(([A([2, 3])], [st("transpose", [0], {"axes": [1, 0]}), st("reshape", [1], {"shape": [6]})]))
    cs.append(([A([2, 3])], [st("transpose", [0], {"axes": [1, 0]}), st("sum", [1], {"axis": 0, "keepdims": "ct_true"})]))
    cs.append(([A([2, 3]), A([3], 10)], [st("add", [0, 1], {}), st("flip", [2], {"axis": 0}), st("sum", [3], {"axis": 1})]))
    cs.append(([A([3, 2])], [st("tile", [0], {"reps": [1, 2]}), st("transpose", [1], {"axes": [1, 0]})]))
    cs.append(([A([2, 3]), A([2, 3], 10)], [st("multiply", [0, 1], {}), st("reshape", [2], {"shape": [3, 2]}), st("flatten", [3], {})]))
    cs.append(([A([1, 3])], [st("broadcast_to", [0], {"shape": [2, 3]}), st("sum", [1], {"axis": 0})]))
    return [{"op": "pipe", "arrays": a, "stages": s} for a, s in cs]


def focus_view_cases():
    """compositions whose result type depends on the operand kind in more than one place (index-array attributes walked per kind,
    axes that collapse, capacity bounds of the eager result): rendered once per leaf kind (kind sweep) instead of a random sample"""
    A = lambda shape, start=1: arange_array(shape, start=start)
    st = lambda f, ins, a: {"f": f, "in": ins, "a": a}
    cs = []
    cs.append(([A([2, 1, 3, 4])], [st("squeeze", [0], {})]))
    cs.append(([A([1, 2, 1, 3, 2])], [st("squeeze", [0], {})]))
    cs.append(([A([2, 3])], [st("repeat", [0], {"repeats": [2, 1, 3], "axis": 1})]))
    cs.append(([A([4, 2])], [st("repeat", [0], {"repeats": [1, 2, 1, 2], "axis": 0})]))
    cs.append(([A([2, 3])], [st("repeat", [0], {"repeats": 2, "axis": 1})]))
    cs.append(([A([2, 3])], [st("repeat", [0], {"repeats": 2, "axis": None})]))
    cs.append(([A([1, 1, 4])], [st("diagonal", [0], {"offset": 0, "axis1": 0, "axis2": 1})]))
    cs.append(([A([2, 1, 3, 1])], [st("diagonal", [0], {"offset": 0, "axis1": 1, "axis2": 3})]))
    cs.append(([A([2, 3, 2])], [st("diagonal", [0], {"offset": 1, "axis1": 1, "axis2": 0})]))
    cs.append(([A([2, 3])], [st("diagonal", [0], {"offset": 1, "axis1": 0, "axis2": 1})]))   # negative offsets: known finding of C04/C16, not composed here
    cs.append(([A([2, 3, 2])], [st("swapaxes", [0], {"axis1": 0, "axis2": -1})]))
    cs.append(([A([2, 3]), A([4], 10)], [st("concatenate", [0, 1], {"axis": None})]))
    cs.append(([A([2, 3]), A([4], 10)], [st("reshape", [0], {"shape": [3, 2]}), st("reshape", [1], {"shape": [2, 2]}), st("concatenate", [2, 3], {"axis": None})]))
    cs.append(([A([4]), A([2, 3], 10)], [st("reshape", [0], {"shape": [2, 2]}), st("reshape", [1], {"shape": [3, 2]}), st("concatenate", [2, 3], {"axis": None})]))
    cs.append(([A([2, 3])], [st("expand_dims", [0], {"axis": 1})]))
    cs.append(([A([2, 2, 2])], [st("expand_dims", [0], {"axis": 0})]))
    return [{"op": "pipe", "arrays": a, "stages": s} for a, s in cs]


def kind_sweep(case, rot, cfg="gcc"):
    """one rendering per leaf kind (all leaves of the case share the kind, the second leaf is shifted by one); attribute kinds rotate
    deterministically so that every (index-array kind, scalar kind) pair meets every leaf family across the sweep and the seeds"""
    leaves = [lk for lk in progen.LEAF_KINDS if not (cfg == "nostl" and lk in progen.STL_ONLY_LEAVES)]
    out = []
    for i, lk in enumerate(leaves):
        lks = [leaves[(i + j) % len(leaves)] for j in range(len(case["arrays"]))]
        for sk in ("int", "ct"):
            ik = progen.IDX_KINDS[(i + rot + (3 if sk == "ct" else 0)) % len(progen.IDX_KINDS)]
            aks = [_attr_kinds(s, ik, sk) for s in case["stages"]]
            if sk == "ct" and not any(aks):
                continue                      # no attributes: the second rendering would be identical
            out.append((lks, aks))
    return out


def random_view_case(draw_int, rnd):
    """a random renderable case built with a plain seeded RNG (rnd: random.Random)"""
    ops = ["transpose", "reshape", "flatten", "expand_dims", "flip", "tile", "broadcast_to", "moveaxis", "add", "multiply", "sum", "concatenate", "squeeze",
           "repeat", "diagonal", "swapaxes", "concatenate_flat"]
    d = rnd.randint(1, 3)
    shape = [rnd.randint(1, 3) for _ in range(d)]
    arrays = [arange_array(shape, start=1)]
    vals = [refs.make_array(arrays[0])]
    stages = []
    for _ in range(rnd.randint(1, 3)):
        x = vals[-1]
        if x.ndim == 0 or x.size > 60:
            break
        src = len(vals) - 1
        op = rnd.choice(ops)
        a = None
        ins = [src]
        dd = x.ndim
        if op == "transpose":
            p = list(range(dd)); rnd.shuffle(p); a = {"axes": p}
        elif op == "reshape":
            fs = c03.factorizations(x.size, 3); a = {"shape": rnd.choice(fs)}
        elif op in ("flatten", "squeeze"):
            a = {}
        elif op == "expand_dims":
            a = {"axis": rnd.randint(-(dd + 1), dd)}
        elif op == "flip":
            a = {"axis": rnd.choice([None] + list(range(-dd, dd)))}
        elif op == "tile":
            a = {"reps": [rnd.randint(1, 2) for _ in range(rnd.randint(1, dd))]}
        elif op == "broadcast_to":
            a = {"shape": [rnd.randint(1, 2)] + list(x.shape)}
        elif op == "moveaxis":
            a = {"source": rnd.randint(-dd, dd - 1), "destination": rnd.randint(-dd, dd - 1)}
        elif op in ("add", "multiply"):
            ins = [src, src]; a = {}
        elif op == "sum":
            a = {"axis": rnd.choice(list(range(-dd, dd))), "keepdims": rnd.choice([None, "ct_true", "ct_false", True, False])}
        elif op == "concatenate":
            ins = [src, src]; a = {"axis": rnd.randint(0, dd - 1)}
        elif op == "concatenate_flat":
            op = "concatenate"; ins = [src, rnd.randint(0, src)]; a = {"axis": None}
        elif op == "repeat":
            ax = rnd.choice([None] + list(range(dd)))
            a = {"repeats": rnd.randint(1, 3) if (ax is None or rnd.random() < 0.4) else [rnd.randint(1, 3) for _ in range(x.shape[ax])], "axis": ax}
            if isinstance(a["repeats"], list) and len(a["repeats"]) == 1:
                a["repeats"] = a["repeats"][0]
        elif op == "diagonal":
            if dd < 2:
                continue
            a1, a2 = rnd.sample(range(dd), 2)
            a = {"offset": rnd.randint(0, 1), "axis1": a1, "axis2": a2}
        elif op == "swapaxes":
            a = {"axis1": rnd.randint(-dd, dd - 1), "axis2": rnd.randint(-dd, dd - 1)}
        s = {"f": op, "in": ins, "a": a}
        try:
            r = np.asarray(refs.REFS[op]([vals[i] for i in ins], a))
        except (refs.Invalid, refs.OutOfDomain):
            continue
        if r.size == 0 or r.ndim == 0 or r.size > 120:
            continue
        stages.append(s); vals.append(r)
    if not stages:
        stages = [{"f": "flatten", "in": [0], "a": {}}]
    # renumber: value ids are arrays first then stages (only one leaf here)
    return {"op": "pipe", "arrays": arrays, "stages": stages}


def kind_assignments(case, rnd, k, cfg="gcc"):
    """anchor (all dynamic) + k random kind assignments"""
    leaves = [lk for lk in progen.LEAF_KINDS if not (cfg == "nostl" and lk in progen.STL_ONLY_LEAVES)]
    out = [(["ds_db"] * len(case["arrays"]), [_attr_kinds(s, "vec", "int") for s in case["stages"]])]
    for _ in range(k):
        lks = [rnd.choice(leaves) for _ in case["arrays"]]
        aks = []
        for s in case["stages"]:
            aks.append(_attr_kinds(s, rnd.choice(progen.IDX_KINDS), rnd.choice(["int", "ct", "int"])))
        out.append((lks, aks))
    return out


def _attr_kinds(stage, idx_kind, scalar_kind):
    a = stage.get("a") or {}
    out = {}
    for key, v in a.items():
        if isinstance(v, list):
            out[key] = idx_kind
        elif isinstance(v, int) and not isinstance(v, bool) and key in ("axis", "source", "destination", "axis1", "axis2", "offset", "repeats"):
            out[key] = scalar_kind
    return out


# ---------------------------------------------------------------------------------------------
# running a suite of units
# ---------------------------------------------------------------------------------------------
def run_units(units, what=("obs", "static", "eval", "size")):
    """units: list of dict(case, renderings=[(leaf_kinds, attr_kinds)], cfg). Returns list of records:
    dict(unit index, rendering index, status = ok|rejected_compile|not_renderable|crash, rec, err)"""
    jobs = []
    for ui, u in enumerate(units):
        blocks = []
        rids = []
        for ri, (lks, aks) in enumerate(u["renderings"]):
            b = progen.render_view_block("r%d" % ri, u["case"], lks, aks, what)
            if b is None:
                continue
            blocks.append(b); rids.append(ri)
        u["_blocks"], u["_rids"] = blocks, rids
        if blocks:
            jobs.append((ui, progen.make_tu(blocks), u.get("cfg", "gcc")))
    res = progen.compile_many([(t, c) for _, t, c in jobs])
    out = []
    retry = []
    for (ui, text, cfg), (path, err) in zip(jobs, res):
        u = units[ui]
        if path is None:
            # bisect: compile each rendering alone
            for b, ri in zip(u["_blocks"], u["_rids"]):
                retry.append((ui, ri, progen.make_tu([b]), cfg))
        else:
            r, stderr = progen.run_bin(path)
            _collect(out, ui, u["_rids"], r)
    res2 = progen.compile_many([(t, c) for _, _, t, c in retry])
    for (ui, ri, text, cfg), (path, err) in zip(retry, res2):
        if path is None:
            out.append({"u": ui, "r": ri, "status": "rejected_compile", "err": err[:300]})
        else:
            r, stderr = progen.run_bin(path)
            _collect(out, ui, [ri], r)
    for ui, u in enumerate(units):
        for ri in range(len(u["renderings"])):
            if ri not in u["_rids"]:
                out.append({"u": ui, "r": ri, "status": "not_renderable"})
    return out


def _collect(out, ui, rids, r):
    if r.get("_timeout"):
        for ri in rids:
            out.append({"u": ui, "r": ri, "status": "timeout"})
        return
    recs = r["recs"]
    for ri in rids:
        rec = recs.get("r%d" % ri)
        if rec:
            out.append({"u": ui, "r": ri, "status": "ok", "rec": rec[0]})
        else:
            out.append({"u": ui, "r": ri, "status": "crash", "crash": r.get("crash")})


NOSTL_EITHER = "nostl-either-typed-view-lifetime"


def nostl_either_class(unit):
    """-DNMTOOLS_DISABLE_STL programs in which a view is either-typed (a reduction with a RUN-TIME bool keepdims): utl::either copies /
    assigns its non-trivial alternative into unconstructed storage (root cause: C19-nontrivial-either-lifetime) -> free of a garbage pointer"""
    if unit.get("cfg") != "nostl":
        return False
    return any(isinstance((s.get("a") or {}).get("keepdims"), bool) for s in unit["case"]["stages"])


def drop_known_units(pid, units, stats):
    """units inside the class of a finding that is listed as known for this property are not run (counted)"""
    from .core import listed_ids
    fid = "%s-%s" % (pid, NOSTL_EITHER)
    if fid not in listed_ids(pid):
        return units
    keep = []
    for u in units:
        if nostl_either_class(u) and not u.get("_witness"):
            k = "excluded_by_known_finding:" + fid
            stats.rejected[k] = stats.rejected.get(k, 0) + len(u["renderings"])
        else:
            keep.append(u)
    return keep


def view_suite(tier, seed):
    """the shared suite of view-level units (C09, C10 E2 part, C11)"""
    import random
    rnd = random.Random(1000003 * (seed + 1))
    th = tier == "thorough"
    cases = fixed_view_cases()
    nrand = 200 if th else 24
    for _ in range(nrand):
        cases.append(random_view_case(None, rnd))
    units = []
    for i, c in enumerate(cases):
        units.append({"case": c, "renderings": kind_assignments(c, rnd, 11 if th else 5), "cfg": "gcc"})
        if i % (4 if th else 6) == 0:
            units.append({"case": c, "renderings": kind_assignments(c, rnd, 4, "clang"), "cfg": "clang"})
        if i % (4 if th else 6) == 1:
            units.append({"case": c, "renderings": kind_assignments(c, rnd, 4, "nostl"), "cfg": "nostl"})
    for i, c in enumerate(focus_view_cases()):
        units.append({"case": c, "renderings": kind_sweep(c, seed + i), "cfg": "gcc", "focus": True})
        if th or i % 4 == seed % 4:
            units.append({"case": c, "renderings": kind_sweep(c, seed + i, "nostl")[:: (1 if th else 3)], "cfg": "nostl", "focus": True})
    return units


class ProgenProp(Prop):
    """base for generated-program properties: no servers; everything happens in extra_phases"""
    servers = []
    engines = ["hypothesis/seeded program generation + compile + run (E2 progen)"]

    def units(self, tier, seed):
        raise NotImplementedError

    def judge(self, unit, results):
        """results: list of run_units records for this unit; returns list of (rendering index, failure string)"""
        raise NotImplementedError

    def unit_nontrivial(self, unit, results):
        return True

    def extra_phases(self, ctx):
        tier, seed, stats, info = ctx["tier"], ctx["seed"], ctx["stats"], ctx["info"]
        t0 = time.time()
        units = drop_known_units(self.id, self.units(tier, seed), stats)
        results = run_units(units, self.what)
        info["progen_units"] = len(units)
        info["progen_s"] = round(time.time() - t0, 1)
        by_u = {}
        for r in results:
            by_u.setdefault(r["u"], []).append(r)
        fails = []
        nrej = 0
        nren = 0
        for ui, u in enumerate(units):
            rs = by_u.get(ui, [])
            for r in rs:
                key = "rendering:" + r["status"]
                stats.classes[key] = stats.classes.get(key, 0) + 1
                if r["status"] == "rejected_compile":
                    nrej += 1
                    stats.rejected["rejected_compile"] = stats.rejected.get("rejected_compile", 0) + 1
                if r["status"] == "ok":
                    nren += 1
                    stats.evaluations += 1
                    cfgk = "cfg:" + u.get("cfg", "gcc")
                    stats.classes[cfgk] = stats.classes.get(cfgk, 0) + 1
                    if self.rendering_nontrivial(u, r):
                        stats.nontrivial.add(chash({"c": u["case"], "k": u["renderings"][r["r"]], "cfg": u.get("cfg")}))
                    for cl in self.rendering_classes(u, r):
                        stats.classes[cl] = stats.classes.get(cl, 0) + 1
                    if len(stats.samples) < 8 and (ui * 7 + r["r"]) % 11 == 0:
                        stats.samples.append({"case": u["case"], "kinds": u["renderings"][r["r"]], "cfg": u.get("cfg", "gcc"), "record": _trim(r["rec"])})
            for ri, f in self.judge(u, rs):
                case = {"_external": True, "case": u["case"], "kinds": u["renderings"][ri] if ri is not None and ri >= 0 else None, "cfg": u.get("cfg", "gcc")}
                fails.append((case, f, {}))
        total = nren + nrej
        if total and nrej > total * 0.5:
            fails.append(({"_harness": True}, "HARNESS-ERROR more than half of the renderings were rejected by the compiler (%d of %d)" % (nrej, total), {}))
        return fails

    what = ("obs", "static", "eval", "size")

    def rendering_nontrivial(self, unit, r):
        lks, aks = unit["renderings"][r["r"]]
        return any(k != "ds_db" for k in lks) or any(v not in ("vec", "int") for d in aks for v in d.values())

    def rendering_classes(self, unit, r):
        lks, aks = unit["renderings"][r["r"]]
        return ["leaf:" + k for k in lks] + ["attr:" + v for d in aks for v in d.values()] + ["depth:%d" % len(unit["case"]["stages"])]

    # E2 cases are replayed by re-rendering exactly the failing (case, kinds, cfg)
    def replay_external(self, case):
        if "case" not in case or case.get("kinds") is None:
            return []
        unit = {"case": case["case"], "renderings": [tuple(case["kinds"])], "cfg": case.get("cfg", "gcc"), "_witness": bool(case.get("_witness"))}
        res = run_units([unit], self.what)
        return [(case, f, {}) for ri, f in self.judge(unit, res)]

    def check(self, case, obs):
        return None


def _trim(o, n=700):
    s = json.dumps(o)
    return o if len(s) <= n else {"_truncated": s[:n]}


def expected_of(case):
    return refs.run_pipe(case)


def obs_matches(obs, val, tol=None):
    """compare a printed observation with a numpy reference array; returns failure string or None"""
    if obs.get("huge"):
        return "garbage (huge) shape %s" % obs.get("shape")
    if obs.get("hv") is False:
        return "no value, reference has shape %s" % list(val.shape)
    if obs.get("shape") != list(val.shape):
        return "shape %s != reference %s" % (obs.get("shape"), list(val.shape))
    return refs.compare_values(obs.get("elems", []), val, None, tol)
