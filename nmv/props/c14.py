"""C14 — functors, currying, composition and extraction are equivalent to direct views (generated programs).

Four kinds of generated blocks (each block = one `{...}` of a translation unit, printing JSON records):
  curry    fn::f[a1]..(x1)..   every interleaving of attributes over chained operator[] and of operands over chained operator()
           == view::f(x..., a...) == NumPy
  compose  (f1 * f2 * ... * fk)(x...) in every parenthesisation and several operand splits == nested direct views == NumPy
           (functors of arity 1..3 in any position, combinators swap / dup / dig / bury)
  extract  v = nest of direct views (depth 1..4): apply(get_function_composition(v), get_function_operands(v)) == v == NumPy,
           extracted operands are the leaves by address in left-to-right order, get_compute_graph(v) == the generator's AST
"""
import itertools
import json
import math
import os
import random
import time

import numpy as np

from .. import e2, progen, refs, refs_reduce, refs_nn, refs_linalg, build  # noqa: F401
from ..core import chash, load_known
from .common import prod

PRELUDE = open(os.path.join(build.HARNESS, "pgk", "c14.hpp")).read()
JOBS = 8

# the dangling-reference finding is a stack-use-after-scope: once it is a *known* finding the affected programs are built without that
# one ASan check so that the values / operands / graphs they print are still judged
progen.CFG.setdefault("gcc_nouas", dict(cxx="g++", flags=list(progen.CFG["gcc"]["flags"]) + ["-fno-sanitize-address-use-after-scope"]))

F_DANGLING = "C14-composition-dangling-suboperand"
F_SPINE = "C14-extraction-non-left-spine"
F_SIBLING = "C14-graph-same-type-subviews-share-id"
F_HASH = "C14-graph-id-hash-collision"
F_LEAFID = "C14-graph-operand-ids-local-to-subview"
F_BCAST = "C14-unary-ufunc-drops-explicit-broadcast"
F_SWAPMAYBE = "C14-swap-maybe-operand-not-applied"
F_MATMUL = "C14-matmul-maybe-operand-dangling"
ALL_FINDINGS = [F_DANGLING, F_SPINE, F_SIBLING, F_HASH, F_LEAFID, F_BCAST, F_SWAPMAYBE, F_MATMUL]


class Skip(Exception):
    """the sampler cannot build a valid case from the given operands"""


# ---------------------------------------------------------------------------------------------
# C++ literals for attributes
# ---------------------------------------------------------------------------------------------
def ct(v):
    return '"%d"_ct' % v if v < 0 else "%d_ct" % v


def ia(vals, elem="int"):
    return "nmtools_array<%s,%d>{%s}" % (elem, len(vals), ",".join(str(int(v)) for v in vals))


def ctup(vals):
    return "nmtools_tuple{" + ",".join(ct(v) for v in vals) + "}"


def idx_attr(rnd, vals, allow_ct=True, unsigned=False):
    """an index-array attribute in one of the container kinds that need no declaration"""
    k = rnd.choice(["arr", "arr", "ct"] if allow_ct else ["arr"])
    if k == "ct":
        return ctup(vals)
    return ia(vals, "size_t" if unsigned else "int")


def sc_attr(rnd, v, allow_ct=True):
    if allow_ct and rnd.random() < 0.3:
        return ct(v)
    return str(int(v))


def fl(v):
    return repr(float(v))


# ---------------------------------------------------------------------------------------------
# functor table
# ---------------------------------------------------------------------------------------------
class Fx:
    def __init__(self, name, arity, sample, ref=None, hdr=None, fn=None, view=None, dt="i32", others=None, extract=False,
                 direct=None, tol=None, group="indexing"):
        self.name, self.arity, self.sample = name, arity, sample
        self.ref = ref or name
        self.hdr = hdr or "nmtools/array/functional/%s.hpp" % name
        self.fn = fn or "fn::" + name
        self.view = view or "view::" + name
        self.dt = dt
        self.others = others or (lambda rnd, s0: [])
        self.extract = extract          # one AST node == one compute-graph node and get_function is defined for the view
        self.direct = direct            # custom direct-view rendering (xs, attrs) -> expr
        self.tol = tol
        self.group = group

    def direct_expr(self, xs, attrs):
        if self.direct:
            return self.direct(xs, attrs)
        return "%s(%s)" % (self.view, ",".join(list(xs) + list(attrs)))


FX = {}
LOCAL_REFS = {}


def reg(fx):
    FX[fx.name] = fx
    return fx


def ref_of(name):
    return LOCAL_REFS.get(name) or refs.REFS[name]


def _noattr(rnd, shapes):
    return [], {}


def _bshape_other(rnd, s0):
    """a shape broadcast-compatible with s0 (possibly lower rank, possibly with ones)"""
    d = len(s0)
    k = rnd.randint(0, d - 1) if d > 1 and rnd.random() < 0.5 else 0
    return [[e if rnd.random() < 0.7 else 1 for e in s0[k:]]]


# ---- indexing ----------------------------------------------------------------------------------
def s_transpose(rnd, shapes):
    d = len(shapes[0])
    if rnd.random() < 0.2:
        return [], {"axes": None}
    p = list(range(d)); rnd.shuffle(p)
    return [idx_attr(rnd, p)], {"axes": p}


def s_reshape(rnd, shapes):
    from . import c03
    n = prod(shapes[0])
    fs = c03.factorizations(n, 3)
    s = list(rnd.choice(fs))
    if len(s) > 1 and rnd.random() < 0.25:
        s[rnd.randrange(len(s))] = -1
    return [idx_attr(rnd, s)], {"shape": s}


def s_expand_dims(rnd, shapes):
    d = len(shapes[0])
    if rnd.random() < 0.5:
        ax = rnd.randint(-(d + 1), d)
        return [sc_attr(rnd, ax)], {"axis": ax}
    ax = sorted(rnd.sample(range(d + 2), 2))
    return [idx_attr(rnd, ax)], {"axis": ax}


def s_squeeze(rnd, shapes):
    s = shapes[0]
    if 1 not in s or all(e == 1 for e in s):
        raise Skip()
    return [], {}


def s_flip(rnd, shapes):
    d = len(shapes[0])
    r = rnd.random()
    if r < 0.2:
        return ["nm::None"], {"axis": None}
    if r < 0.7 or d < 2:
        ax = rnd.randint(-d, d - 1)
        return [sc_attr(rnd, ax)], {"axis": ax}
    ax = sorted(rnd.sample(range(d), 2))
    return [idx_attr(rnd, ax)], {"axis": ax}


def s_min2d(rnd, shapes):
    if len(shapes[0]) < 2:
        raise Skip()
    return [], {}


def s_tile(rnd, shapes):
    d = len(shapes[0])
    reps = [rnd.randint(1, 2) for _ in range(rnd.randint(1, d + 1))]
    return [idx_attr(rnd, reps)], {"reps": reps}


def s_repeat(rnd, shapes):
    d = len(shapes[0])
    rep = rnd.randint(1, 3)
    if rnd.random() < 0.25:
        return [str(rep), "nm::None"], {"repeats": rep, "axis": None}
    ax = rnd.randint(0, d - 1)
    if rnd.random() < 0.3:
        reps = [rnd.randint(1, 2) for _ in range(shapes[0][ax])]
        return [ia(reps), str(ax)], {"repeats": reps, "axis": ax}
    return [str(rep), sc_attr(rnd, ax)], {"repeats": rep, "axis": ax}


def s_roll(rnd, shapes):
    # |shift| <= rolled extent (size for axis=None): larger shifts are a known view-level defect class (C04-roll-shift-exceeds-extent)
    s0 = shapes[0]
    d = len(s0)
    r = rnd.random()
    if r < 0.3:
        n = prod(s0)
        sh = rnd.randint(-min(3, n), min(3, n))
        return [str(sh)], {"shift": sh, "axis": None}
    if r < 0.8 or d < 2:
        ax = rnd.randint(-d, d - 1)
        sh = rnd.randint(-s0[ax], s0[ax])
        return [str(sh), str(ax)], {"shift": sh, "axis": ax}
    ax = rnd.sample(range(d), 2)
    shs = [rnd.randint(-s0[a], s0[a]) for a in ax]
    return [ia(shs), ia(ax)], {"shift": shs, "axis": ax}


def s_pad(rnd, shapes):
    d = len(shapes[0])
    pw = [rnd.randint(0, 1) for _ in range(2 * d)]
    if rnd.random() < 0.5:
        return [ia(pw)], {"pad_width": pw, "value": 0}
    v = rnd.randint(-3, 3)
    return [ia(pw), str(v)], {"pad_width": pw, "value": v}


def s_take(rnd, shapes):
    d = len(shapes[0])
    ax = rnd.randint(0, d - 1)
    ind = [rnd.randint(0, shapes[0][ax] - 1) for _ in range(rnd.randint(1, 3))]
    return [ia(ind), str(ax)], {"indices": ind, "axis": ax}


def s_broadcast_to(rnd, shapes):
    s = [e for e in shapes[0]]
    t = [rnd.randint(1, 2) for _ in range(rnd.randint(0, 1))] + [(rnd.randint(2, 3) if e == 1 and rnd.random() < 0.5 else e) for e in s]
    return [idx_attr(rnd, t, unsigned=True)], {"shape": t}


def s_moveaxis(rnd, shapes):
    d = len(shapes[0])
    a, b = rnd.randint(-d, d - 1), rnd.randint(-d, d - 1)
    return [sc_attr(rnd, a), sc_attr(rnd, b)], {"source": a, "destination": b}


def s_slice(rnd, shapes):
    s = shapes[0]
    cxx, sl = [], []
    for e in s:
        r = rnd.random()
        if r < 0.25:
            i = rnd.randint(-e, e - 1)
            cxx.append(str(i)); sl.append(i)
        elif r < 0.6:
            a = rnd.randint(0, e - 1); b = rnd.randint(a + 1, e)
            cxx.append("nmtools_tuple{%d,%d}" % (a, b)); sl.append([a, b])
        elif r < 0.8:
            cxx.append("nmtools_tuple{nm::None,nm::None}"); sl.append([None, None])
        else:
            st = rnd.choice([-1, 2])
            cxx.append("nmtools_tuple{nm::None,nm::None,%d}" % st); sl.append([None, None, st])
    if all(isinstance(x, int) for x in sl):
        cxx[-1] = "nmtools_tuple{nm::None,nm::None}"; sl[-1] = [None, None]
    return cxx, {"slices": sl}


def s_atleast_nd(rnd, shapes):
    nd = rnd.randint(1, 4)
    return [ct(nd)], {"nd": nd}


def s_resize(rnd, shapes):
    t = [rnd.randint(1, 4) for _ in shapes[0]]
    return [ia(t)], {"shape": t}


def s_sliding_window(rnd, shapes):
    s = shapes[0]
    d = len(s)
    ax = rnd.randint(0, d - 1)
    w = rnd.randint(1, s[ax])
    return [str(w), str(ax)], {"window_shape": w, "axis": ax}


def s_compress(rnd, shapes):
    s = shapes[0]
    ax = rnd.randint(0, len(s) - 1)
    cond = [rnd.randint(0, 1) for _ in range(s[ax])]
    if not any(cond):
        cond[0] = 1
    return [ia(cond), str(ax)], {"condition": cond, "axis": ax}


IDX1 = dict(extract=True, group="indexing")
reg(Fx("transpose", 1, s_transpose, **IDX1))
reg(Fx("reshape", 1, s_reshape, **IDX1))
reg(Fx("flatten", 1, _noattr, **IDX1))
reg(Fx("expand_dims", 1, s_expand_dims, **IDX1))
reg(Fx("squeeze", 1, s_squeeze, **IDX1))
reg(Fx("flip", 1, s_flip, **IDX1))
reg(Fx("fliplr", 1, s_min2d, hdr="nmtools/array/functional/flip.hpp", **IDX1))
reg(Fx("flipud", 1, _noattr, hdr="nmtools/array/functional/flip.hpp", **IDX1))
reg(Fx("tile", 1, s_tile, **IDX1))
reg(Fx("repeat", 1, s_repeat, **IDX1))
reg(Fx("roll", 1, s_roll, **IDX1))
reg(Fx("pad", 1, s_pad, **IDX1))
reg(Fx("take", 1, s_take, **IDX1))
reg(Fx("broadcast_to", 1, s_broadcast_to, **IDX1))
reg(Fx("moveaxis", 1, s_moveaxis, **IDX1))
reg(Fx("slice", 1, s_slice, ref="slice1", **IDX1))
reg(Fx("atleast_1d", 1, _noattr, **IDX1))
reg(Fx("atleast_2d", 1, _noattr, **IDX1))
reg(Fx("atleast_nd", 1, s_atleast_nd, **IDX1))
reg(Fx("resize", 1, s_resize, **IDX1))
reg(Fx("sliding_window", 1, s_sliding_window, **IDX1))
reg(Fx("compress", 1, s_compress, direct=lambda xs, at: "view::compress(%s,%s,%s)" % (at[0], xs[0], at[1]), **IDX1))
LOCAL_REFS["fliplr"] = lambda x, a: np.fliplr(x[0])
LOCAL_REFS["flipud"] = lambda x, a: np.flipud(x[0])


def o_concat(rnd, s0):
    ax = rnd.randint(0, len(s0) - 1)
    t = list(s0); t[ax] = rnd.randint(1, 2)
    return [t]


def s_concat(rnd, shapes):
    a, b = shapes
    if len(a) != len(b):
        raise Skip()
    diff = [i for i in range(len(a)) if a[i] != b[i]]
    if len(diff) > 1:
        raise Skip()
    ax = diff[0] if diff else rnd.randint(0, len(a) - 1)
    if not diff and rnd.random() < 0.15:
        return ["nm::None"], {"axis": None}
    return [sc_attr(rnd, ax)], {"axis": ax}


def s_stack(rnd, shapes):
    if shapes[0] != shapes[1]:
        raise Skip()
    ax = rnd.randint(0, len(shapes[0]))
    return [sc_attr(rnd, ax)], {"axis": ax}


def s_same(rnd, shapes):
    if any(s != shapes[0] for s in shapes):
        raise Skip()
    return [], {}


reg(Fx("concatenate", 2, s_concat, others=o_concat, extract=True, group="join"))
reg(Fx("stack", 2, s_stack, others=lambda rnd, s0: [list(s0)], extract=True, group="join"))
reg(Fx("hstack", 2, s_same, others=lambda rnd, s0: [list(s0)], group="join"))
reg(Fx("vstack", 2, s_same, others=lambda rnd, s0: [list(s0)], group="join"))
reg(Fx("where", 3, s_same, others=lambda rnd, s0: [list(s0), list(s0)], extract=False, group="join"))


# ---- ufuncs -------------------------------------------------------------------------------------
UNARY_INT = {"negative": lambda x: -x, "square": lambda x: x * x, "positive": lambda x: +x, "fabs": np.fabs}
UNARY_F = {"tanh": np.tanh, "exp": np.exp, "sqrt": np.sqrt, "sin": np.sin, "cos": np.cos, "log": np.log, "floor": np.floor, "ceil": np.ceil,
           "reciprocal": lambda x: 1.0 / x, "arctan": np.arctan, "sinh": np.sinh, "cosh": np.cosh, "log2": np.log2, "log10": np.log10,
           "log1p": np.log1p, "expm1": np.expm1, "exp2": np.exp2, "cbrt": np.cbrt, "rint": np.rint, "tan": np.tan, "arcsinh": np.arcsinh}
ACT_F = {"relu": lambda x: np.maximum(x, 0), "sigmoid": lambda x: 1 / (1 + np.exp(-x)), "relu6": lambda x: np.minimum(np.maximum(x, 0), 6),
         "softsign": lambda x: x / (1 + np.abs(x)), "silu": lambda x: x / (1 + np.exp(-x)), "tanhshrink": lambda x: x - np.tanh(x)}
BINARY_INT = {"add": np.add, "subtract": np.subtract, "multiply": np.multiply, "maximum": np.maximum, "minimum": np.minimum}
BINARY_F = {"divide": np.divide, "arctan2": np.arctan2}

for _n, _f in UNARY_INT.items():
    LOCAL_REFS[_n] = (lambda f: lambda x, a: f(x[0]))(_f)
    reg(Fx(_n, 1, _noattr, hdr="nmtools/array/functional/ufuncs/%s.hpp" % _n, extract=True, group="ufunc"))
for _n, _f in UNARY_F.items():
    LOCAL_REFS[_n] = (lambda f: lambda x, a: f(x[0]))(_f)
    reg(Fx(_n, 1, _noattr, hdr="nmtools/array/functional/ufuncs/%s.hpp" % _n, dt="f64", extract=True, tol=1e-9, group="ufunc"))
for _n, _f in ACT_F.items():
    LOCAL_REFS[_n] = (lambda f: lambda x, a: f(x[0]))(_f)
    reg(Fx(_n, 1, _noattr, hdr="nmtools/array/functional/activations/%s.hpp" % _n, dt="f64", extract=True, tol=1e-9, group="activation"))
for _n, _f in BINARY_INT.items():
    LOCAL_REFS[_n] = (lambda f: lambda x, a: f(x[0], x[1]))(_f)
    reg(Fx(_n, 2, _noattr, hdr="nmtools/array/functional/ufuncs/%s.hpp" % _n, others=_bshape_other, extract=True, group="ufunc"))
for _n, _f in BINARY_F.items():
    LOCAL_REFS[_n] = (lambda f: lambda x, a: f(x[0], x[1]))(_f)
    reg(Fx(_n, 2, _noattr, hdr="nmtools/array/functional/ufuncs/%s.hpp" % _n, others=_bshape_other, dt="f64", extract=True, tol=1e-9, group="ufunc"))


def s_alpha(key, lo, hi):
    def s(rnd, shapes):
        v = rnd.randint(lo, hi) / 4.0
        return [fl(v)], {key: v}
    return s


LOCAL_REFS["elu"] = lambda x, a: np.where(x[0] > 0, x[0], a["alpha"] * (np.exp(x[0]) - 1))
LOCAL_REFS["leaky_relu"] = lambda x, a: np.where(x[0] >= 0, x[0], a["negative_slope"] * x[0])
LOCAL_REFS["celu"] = lambda x, a: np.maximum(0, x[0]) + np.minimum(0, a["alpha"] * (np.exp(x[0] / a["alpha"]) - 1))
LOCAL_REFS["hardshrink"] = lambda x, a: np.where(np.abs(x[0]) > a["lambda"], x[0], 0.0)
reg(Fx("elu", 1, s_alpha("alpha", 1, 8), hdr="nmtools/array/functional/activations/elu.hpp", dt="f64", extract=True, tol=1e-9, group="activation"))
reg(Fx("leaky_relu", 1, s_alpha("negative_slope", 1, 4), hdr="nmtools/array/functional/activations/leaky_relu.hpp", dt="f64", extract=True, tol=1e-9, group="activation"))
reg(Fx("celu", 1, s_alpha("alpha", 1, 8), hdr="nmtools/array/functional/activations/celu.hpp", dt="f64", extract=True, tol=1e-9, group="activation"))
reg(Fx("hardshrink", 1, s_alpha("lambda", 1, 8), hdr="nmtools/array/functional/activations/hardshrink.hpp", dt="f64", extract=True, tol=1e-9, group="activation"))


def s_clip(rnd, shapes):
    return [], {}


LOCAL_REFS["clip"] = lambda x, a: np.clip(x[0], x[1], x[2])
reg(Fx("clip", 3, s_clip, hdr="nmtools/array/functional/ufuncs/clip.hpp", others=lambda rnd, s0: [[1], [1]], extract=False, group="ufunc"))


# ---- reduce / accumulate / outer ---------------------------------------------------------------------
def s_reduce(rnd, shapes):
    d = len(shapes[0])
    r = rnd.random()
    if r < 0.15:
        ax, axc = None, "nm::None"
    elif r < 0.75 or d < 2:
        ax = rnd.randint(-d, d - 1); axc = sc_attr(rnd, ax)
    else:
        ax = sorted(rnd.sample(range(d), 2)); axc = idx_attr(rnd, ax)
    n = rnd.choice([1, 1, 3, 4])
    attrs, args = [axc], {"axis": ax}
    if n >= 3:
        ini = rnd.choice([None, 1, 2])
        attrs += ["nm::None", "nm::None" if ini is None else str(ini)]
        if ini is not None:
            args["initial"] = ini
    if n >= 4:
        kd = rnd.choice(["ct_true", "ct_false", True, False])
        attrs.append({"ct_true": "nm::True", "ct_false": "nm::False", True: "true", False: "false"}[kd])
        args["keepdims"] = kd
    return attrs, args


def s_axis(rnd, shapes):
    d = len(shapes[0])
    ax = rnd.randint(-d, d - 1)
    return [sc_attr(rnd, ax)], {"axis": ax}


def s_axis_pos(rnd, shapes):
    d = len(shapes[0])
    ax = rnd.randint(0, d - 1)
    return [sc_attr(rnd, ax)], {"axis": ax}


for _op in ("add", "multiply", "maximum", "minimum"):
    _h = "nmtools/array/functional/ufuncs/%s.hpp" % _op
    reg(Fx("reduce_" + _op, 1, s_reduce, hdr=_h, extract=True, group="reduce"))
    reg(Fx("accumulate_" + _op, 1, s_axis_pos, hdr=_h, extract=True, group="accumulate"))
    reg(Fx("outer_" + _op, 2, _noattr, hdr=_h, others=lambda rnd, s0: [[rnd.randint(1, 3) for _ in range(rnd.randint(1, 2))]], extract=True, group="outer"))
    LOCAL_REFS["outer_" + _op] = (lambda f: lambda x, a: f.outer(x[0], x[1]))(getattr(np, _op))
reg(Fx("sum", 1, s_reduce, extract=True, group="reduce"))
reg(Fx("prod", 1, s_reduce, extract=True, group="reduce"))
reg(Fx("cumsum", 1, s_axis_pos, extract=True, group="accumulate"))
reg(Fx("cumprod", 1, s_axis_pos, extract=True, group="accumulate"))


def s_mean(rnd, shapes):
    d = len(shapes[0])
    ax = rnd.randint(-d, d - 1)
    if rnd.random() < 0.5:
        return [sc_attr(rnd, ax)], {"axis": ax}
    kd = rnd.choice([True, False])
    return [str(ax), "nm::None", "nm::True" if kd else "nm::False"], {"axis": ax, "keepdims": kd}


def s_var(rnd, shapes):
    d = len(shapes[0])
    ax = rnd.randint(-d, d - 1)
    if rnd.random() < 0.5:
        return [str(ax)], {"axis": ax, "ddof": 0}
    kd = rnd.choice([True, False])
    return [str(ax), "nm::None", "0", "nm::True" if kd else "nm::False"], {"axis": ax, "ddof": 0, "keepdims": kd}


reg(Fx("mean", 1, s_mean, dt="f64", tol=1e-9, group="stat"))
reg(Fx("var", 1, s_var, dt="f64", tol=1e-9, group="stat"))
reg(Fx("stddev", 1, s_var, dt="f64", tol=1e-9, group="stat"))


# ---- linalg / nn ---------------------------------------------------------------------------------------
def o_matmul(rnd, s0):
    if len(s0) < 2:
        raise Skip()
    return [[s0[-1], rnd.randint(1, 3)]]


def s_matmul(rnd, shapes):
    a, b = shapes
    if len(a) < 2 or len(b) < 2 or a[-1] != b[-2]:
        raise Skip()
    if refs.broadcast_shapes([a[:-2], b[:-2]]) is None:
        raise Skip()
    return [], {}


reg(Fx("matmul", 2, s_matmul, others=o_matmul, extract=True, group="linalg"))


def s_softmax(rnd, shapes):
    d = len(shapes[0])
    ax = rnd.randint(-d, d - 1)
    return [sc_attr(rnd, ax)], {"axis": ax}


reg(Fx("softmax", 1, s_softmax, dt="f64", tol=1e-9, group="nn"))
reg(Fx("softmin", 1, s_softmax, dt="f64", tol=1e-9, group="nn"))


def s_pool(rnd, shapes):
    s = shapes[0]
    if len(s) < 2:
        raise Skip()
    k = [rnd.randint(1, min(2, s[-2])), rnd.randint(1, min(2, s[-1]))]
    st = [rnd.randint(1, 2), rnd.randint(1, 2)]
    cm = rnd.choice([True, False])
    return [ia(k), ia(st), "nm::True" if cm else "nm::False"], {"kernel_size": k, "stride": st, "ceil_mode": cm}


reg(Fx("max_pool2d", 1, s_pool, hdr="nmtools/array/functional/pooling.hpp", extract=False, group="nn"))
reg(Fx("avg_pool2d", 1, s_pool, hdr="nmtools/array/functional/pooling.hpp", dt="f64", tol=1e-9, extract=False, group="nn"))


def o_conv2d(rnd, s0):
    if len(s0) != 4:
        raise Skip()
    return [[rnd.randint(1, 2), s0[1], rnd.randint(1, min(2, s0[2])), rnd.randint(1, min(2, s0[3]))]]


def s_conv2d(rnd, shapes):
    if len(shapes[0]) != 4 or len(shapes[1]) != 4 or shapes[0][1] != shapes[1][1]:
        raise Skip()
    r = rnd.random()
    if r < 0.4:
        return [], {}
    st = rnd.randint(1, 2)
    if r < 0.7:
        return [ia([st, st])], {"stride": st}
    p = rnd.randint(0, 1)
    return [ia([st, st]), ia([p, p])], {"stride": st, "padding": p}


LOCAL_REFS["conv2d"] = lambda x, a: refs_nn.conv_nd(x[0], x[1], None, a.get("stride"), a.get("padding"), a.get("dilation"), a.get("groups"), 2)
reg(Fx("conv2d", 2, s_conv2d, others=o_conv2d, dt="f64", tol=1e-9, group="nn",
       direct=lambda xs, at: "view::conv2d(%s)" % ",".join([xs[0], xs[1], "nm::None"] + list(at))))

COMBINATORS = {
    "swap": ("cb::swap", 2), "dup": ("cb::dup", 1), "dig1": ("cb::dig1", 2), "dig2": ("cb::dig2", 3), "bury1": ("cb::bury1", 2), "bury2": ("cb::bury2", 3),
    "dup3": ("cb::dup_n<3>", 1), "dig3": ("cb::dig_n<3>", 4), "bury3": ("cb::bury_n<3>", 4),
}


def comb_apply(name, L):
    """the documented effect of a combinator on the operand list"""
    if name in ("swap", "dig1", "bury1"):
        return [L[1], L[0]] + L[2:]
    if name == "dup":
        return [L[0], L[0]] + L[1:]
    if name == "dup3":
        return [L[0], L[0], L[0]] + L[1:]
    if name.startswith("dig"):
        n = int(name[3:])
        return [L[n]] + L[:n] + L[n + 1:]
    if name.startswith("bury"):
        n = int(name[4:])
        return L[1:n + 1] + [L[0]] + L[n + 1:]
    raise KeyError(name)


# ---------------------------------------------------------------------------------------------
# data
# ---------------------------------------------------------------------------------------------
def rand_shape(rnd, dmin=1, dmax=3, emax=3):
    return [rnd.randint(1, emax) for _ in range(rnd.randint(dmin, dmax))]


def make_leaf(rnd, shape, dt, small=False):
    n = prod(shape)
    hi = 3 if small else 9
    if dt == "f64":
        data = [rnd.randint(1, 4 * hi) / 4.0 for _ in range(n)]
        return {"shape": list(shape), "data": data, "dt": "f64"}
    return {"shape": list(shape), "data": [rnd.randint(1, hi) for _ in range(n)]}


# (the legacy hybrid_ndarray class is not offered: its own shape() trips ASan for some capacities before any functor is involved)
LEAF_KINDS = ["raw", "fixed_ndarray", "cs_fb", "fs_fb", "fs_hb", "hs_hb", "ds_db", "dynamic_ndarray", "std_array"]
NOHEAP_KINDS = ["fixed_ndarray", "cs_fb", "fs_fb", "fs_hb", "hs_hb"]
LEAF_KINDS_GRAPH = ["fixed_ndarray", "cs_fb", "fs_fb", "fs_hb", "ds_db", "dynamic_ndarray", "hs_hb"]


def np_of(arr):
    return refs.make_array(arr)


def too_big(v):
    v = np.asarray(v)
    if v.size == 0 or v.ndim == 0 or v.size > 200:
        return True
    if not np.all(np.isfinite(v.astype(np.float64))):
        return True
    return bool(np.max(np.abs(v.astype(np.float64))) > 1e6)


def eval_ref(name, xs, args):
    try:
        with np.errstate(all="ignore"):
            r = np.asarray(ref_of(FX[name].ref if name in FX else name)(xs, args))
    except (refs.Invalid, refs.OutOfDomain, ValueError, TypeError, IndexError, ZeroDivisionError, FloatingPointError, OverflowError):
        raise Skip()
    if too_big(r):
        raise Skip()
    return r


# ---------------------------------------------------------------------------------------------
# (a) curry cases
# ---------------------------------------------------------------------------------------------
def curry_case(rnd, name):
    fx = FX[name]
    for _ in range(60):
        try:
            if name == "conv2d":
                s0 = [rnd.randint(1, 2), rnd.randint(1, 2), rnd.randint(2, 3), rnd.randint(2, 3)]
            elif name in ("max_pool2d", "avg_pool2d", "matmul", "fliplr"):
                s0 = rand_shape(rnd, 2, 3)
            else:
                s0 = rand_shape(rnd)
            shapes = [s0] + fx.others(rnd, s0)
            attrs, args = fx.sample(rnd, shapes)
            small = name in ("prod", "cumprod", "reduce_multiply", "accumulate_multiply", "outer_multiply")
            arrays = [make_leaf(rnd, s, fx.dt, small) for s in shapes]
            if name == "where":
                arrays[0]["data"] = [rnd.randint(0, 1) for _ in arrays[0]["data"]]
            if name == "clip":
                arrays[1]["data"] = [2]; arrays[2]["data"] = [6]
            eval_ref(name, [np_of(a) for a in arrays], args)
        except Skip:
            continue
        kinds = [rnd.choice(LEAF_KINDS) for _ in arrays]
        return {"kind": "curry", "f": name, "arrays": arrays, "attrs": attrs, "args": args, "leaf_kinds": kinds}
    return None


def call_sequences(n_attrs, m_ops):
    """every interleaving: operand groups (compositions of m) with the ordered attributes distributed over the slots before each group"""
    out = []
    for cuts in itertools.product([0, 1], repeat=m_ops - 1):
        groups, cur = [], [0]
        for i, c in enumerate(cuts):
            if c:
                groups.append(cur); cur = [i + 1]
            else:
                cur.append(i + 1)
        groups.append(cur)
        k = len(groups)
        # distribute n ordered attributes over k slots: non-decreasing slot assignment
        for slots in itertools.combinations_with_replacement(range(k), n_attrs):
            seq = []
            ai = 0
            for gi, g in enumerate(groups):
                while ai < n_attrs and slots[ai] == gi:
                    seq.append(("A", ai)); ai += 1
                seq.append(("X", g))
            out.append(seq)
    return out


def seq_text(fn, seq, attrs, xs):
    s = fn
    for kind, v in seq:
        if kind == "A":
            s += "[%s]" % attrs[v]
        elif kind == "E":
            s += "()"
        else:
            s += "(%s)" % ",".join(xs[i] for i in v)
    return s


def seq_label(seq):
    return "".join("a" if k == "A" else ("e" if k == "E" else "x%d" % len(v)) for k, v in seq)


def render_curry(rid, case, max_variants=12, rnd=None):
    fx = FX[case["f"]]
    pre = []
    xs = [progen.render_leaf(i, arr, case["leaf_kinds"][i], pre) for i, arr in enumerate(case["arrays"])]
    attrs = case["attrs"]
    seqs = call_sequences(len(attrs), fx.arity)
    canon = seqs[0]
    rest = seqs[1:]
    # the no-op empty call f()
    first_x = next(i for i, e in enumerate(canon) if e[0] == "X")
    extra = [canon[:first_x] + [("E", None)] + canon[first_x:]]
    if rnd is not None and len(rest) > max_variants:
        rest = rnd.sample(rest, max_variants)
    else:
        rest = rest[:max_variants]
    variants = [canon] + rest + extra
    recs = []
    lines = list(pre)
    lines.append("{ auto d_ = %s; pg::emit(\"%s.direct\", \"\\\"obs\\\":\" + pg::obs(d_)); }" % (fx.direct_expr(xs, attrs), rid))
    recs.append({"id": rid + ".direct", "role": "direct"})
    for vi, seq in enumerate(variants):
        lines.append("{ auto r_ = %s; pg::emit(\"%s.v%d\", \"\\\"obs\\\":\" + pg::obs(r_) + \",\\\"rk\\\":\\\"\" + c14::result_kind(r_) + \"\\\"\"); }" % (seq_text(fx.fn, seq, attrs, xs), rid, vi))
        recs.append({"id": "%s.v%d" % (rid, vi), "role": "variant", "split": seq_label(seq), "canonical": vi == 0})
    text = "    {\n        %s\n    }\n" % "\n        ".join(lines)
    return text, {fx.hdr}, recs


# ---------------------------------------------------------------------------------------------
# (b) composition cases
# ---------------------------------------------------------------------------------------------
CHAIN_FUNCTORS = ["add", "subtract", "multiply", "maximum", "negative", "square", "transpose", "reshape", "flatten", "flip", "expand_dims", "tile",
                  "sum", "reduce_add", "reduce_maximum", "cumsum", "concatenate", "matmul", "moveaxis", "roll", "pad", "broadcast_to",
                  "tanh", "exp", "divide", "fabs", "softmax", "mean", "outer_add", "repeat", "take", "squeeze", "relu", "minimum"]


def compose_case(rnd, length=None, use_comb=None, dt=None, pool=None):
    """chain[0] is the LEFT-most (applied last). Built right-to-left by simulating the operand list."""
    pool = pool or CHAIN_FUNCTORS
    for _ in range(200):
        k = length or rnd.randint(2, 4)
        want_comb = rnd.random() < 0.7 if use_comb is None else use_comb
        cdt = dt or ("f64" if rnd.random() < 0.3 else "i32")
        names = [n for n in pool if cdt == "f64" or FX[n].dt == "i32"]
        arrays = []
        L = []          # entries: (value ndarray, leaf index or None)
        chain = []      # right-to-left while building

        def fresh(shape):
            arr = make_leaf(rnd, shape, cdt)
            arrays.append(arr)
            return (np_of(arr), len(arrays) - 1)

        ok = True
        try:
            L.append(fresh(rand_shape(rnd)))
            for pos in range(k):
                left_most = pos == k - 1
                remaining = k - pos - 1
                # after this element the list must still be reducible to one value by the remaining elements (each reduces by <= 2)
                if want_comb and not left_most and pos <= 2 and rnd.random() < (0.45 if pos == 0 else 0.6) and not any("c" in e for e in chain):
                    cname = rnd.choice(["swap", "dup", "dig1", "dig2", "bury1", "bury2", "swap", "dup", "dup3", "dig3", "bury3"])
                    ar = COMBINATORS[cname][1]
                    while len(L) < ar:
                        L.append(fresh(_bshape_other(rnd, list(L[0][0].shape))[0] if rnd.random() < 0.7 else list(L[0][0].shape)))
                    L = comb_apply(cname, L)
                    chain.append({"c": cname})
                    continue
                # choose a functor: prefer reducing the list when it is long
                need_reduce = len(L) - 1 - 2 * remaining
                cands = names
                if len(L) > 1 + remaining:
                    cands = [n for n in names if FX[n].arity >= 2]
                if need_reduce > 0:
                    cands = [n for n in names if FX[n].arity >= 2 + (1 if need_reduce > 1 else 0)] or [n for n in names if FX[n].arity >= 2]
                done = False
                for _t in range(12):
                    name = rnd.choice(cands)
                    fx = FX[name]
                    try:
                        s0 = list(L[0][0].shape)
                        have = L[:fx.arity]
                        shapes = [list(h[0].shape) for h in have]
                        newleaves = []
                        if len(have) < fx.arity:
                            oth = fx.others(rnd, s0)
                            for s in oth[len(have) - 1:]:
                                shapes.append(list(s)); newleaves.append(list(s))
                        attrs, args = fx.sample(rnd, shapes)
                        save = len(arrays)
                        ins = list(have) + [fresh(s) for s in newleaves]
                        if name == "where" and ins[0][1] is not None:
                            arrays[ins[0][1]]["data"] = [rnd.randint(0, 1) for _ in arrays[ins[0][1]]["data"]]
                            ins[0] = (np_of(arrays[ins[0][1]]), ins[0][1])
                        try:
                            r = eval_ref(name, [h[0] for h in ins], args)
                        except Skip:
                            del arrays[save:]
                            raise
                        L = [(r, None)] + L[fx.arity:]
                        chain.append({"f": name, "attrs": attrs, "args": args})
                        done = True
                        break
                    except Skip:
                        continue
                if not done:
                    ok = False
                    break
        except Skip:
            ok = False
        if not ok or len(L) != 1 or "c" in chain[-1]:
            continue
        if want_comb and use_comb and not any("c" in e for e in chain):
            continue
        chain.reverse()
        kinds = [rnd.choice(LEAF_KINDS) for _ in arrays]
        return {"kind": "compose", "arrays": arrays, "chain": chain, "leaf_kinds": kinds}
    return None


def simulate_chain(case):
    """returns (expected ndarray, direct C++ expression over leaf names a0..an, number of operands) or raises Skip"""
    n = len(case["arrays"])
    L = [(np_of(a), "a%d" % i) for i, a in enumerate(case["arrays"])]
    for el in reversed(case["chain"]):
        if "c" in el:
            if len(L) < COMBINATORS[el["c"]][1]:
                raise Skip()
            L = comb_apply(el["c"], L)
        else:
            fx = FX[el["f"]]
            if len(L) < fx.arity:
                raise Skip()
            ins = L[:fx.arity]
            r = np.asarray(ref_of(fx.ref)([h[0] for h in ins], el["args"]))
            L = [(r, fx.direct_expr([h[1] for h in ins], el["attrs"]))] + L[fx.arity:]
    if len(L) != 1:
        raise Skip()
    return L[0][0], L[0][1], n


def bracketings(items):
    """all full parenthesisations of items joined by '*' (Catalan many)"""
    if len(items) == 1:
        return [items[0]]
    out = []
    for i in range(1, len(items)):
        for l in bracketings(items[:i]):
            for r in bracketings(items[i:]):
                out.append("(%s * %s)" % (l, r))
    return out


def el_text(el):
    if "c" in el:
        return COMBINATORS[el["c"]][0]
    return FX[el["f"]].fn + "".join("[%s]" % a for a in el["attrs"])


def operand_groupings(n):
    out = []
    for cuts in itertools.product([0, 1], repeat=n - 1):
        groups, cur = [], [0]
        for i, c in enumerate(cuts):
            if c:
                groups.append(cur); cur = [i + 1]
            else:
                cur.append(i + 1)
        groups.append(cur)
        out.append(groups)
    return out


def render_compose(rid, case, rnd=None):
    pre = []
    xs = [progen.render_leaf(i, arr, case["leaf_kinds"][i], pre) for i, arr in enumerate(case["arrays"])]
    _, direct, n = simulate_chain(case)
    items = [el_text(e) for e in case["chain"]]
    brs = bracketings(items)
    groupings = operand_groupings(n)
    all_at_once = groupings[0]
    fully = groupings[-1]
    lines = list(pre)
    recs = []
    incs = {FX[e["f"]].hdr for e in case["chain"] if "f" in e}
    lines.append("{ auto d_ = %s; pg::emit(\"%s.direct\", \"\\\"obs\\\":\" + pg::obs(d_)); }" % (direct, rid))
    recs.append({"id": rid + ".direct", "role": "direct"})
    vi = 0
    r2 = rnd or random.Random(chash(case))
    for bi, b in enumerate(brs):
        gs = [all_at_once]
        if bi == 0 and n > 1:
            gs.append(fully)
        if n > 2:
            mid = [g for g in groupings[1:-1]]
            gs.append(mid[(bi + r2.randrange(len(mid))) % len(mid)])
        elif n > 1 and bi > 0:
            gs.append(fully)
        for g in gs:
            call = "".join("(%s)" % ",".join(xs[i] for i in grp) for grp in g)
            lines.append("{ auto f_ = %s; auto r_ = f_%s; pg::emit(\"%s.v%d\", \"\\\"obs\\\":\" + pg::obs(r_) + \",\\\"rk\\\":\\\"\" + c14::result_kind(r_) + \"\\\",\\\"arity\\\":\" + std::to_string(c14::arity_of(f_))); }" % (b, call, rid, vi))
            recs.append({"id": "%s.v%d" % (rid, vi), "role": "variant", "bracket": bi, "split": "x" + "x".join(str(len(grp)) for grp in g),
                         "canonical": bi == 0 and g is all_at_once})
            vi += 1
    text = "    {\n        %s\n    }\n" % "\n        ".join(lines)
    return text, incs, recs


# ---------------------------------------------------------------------------------------------
# (c)+(d) extraction cases
# ---------------------------------------------------------------------------------------------
# not extractable as ONE node: roll / pad / stack are composites of several views, take / compress define no get_function / get_operands
for _n in ("roll", "pad", "stack", "take", "compress"):
    FX[_n].extract = False
EXTRACT_FUNCTORS = [n for n, f in FX.items() if f.extract]
EXTRACT_WEIGHTED = EXTRACT_FUNCTORS + [n for n in EXTRACT_FUNCTORS if FX[n].arity >= 2 and FX[n].group == "ufunc"] * 5 + \
    [n for n in EXTRACT_FUNCTORS if FX[n].group in ("reduce", "linalg", "join")] * 2
# get_function_t specialisations live in headers the functor's own header does not always include
EXTRACT_HDR = {"reduce": ["nmtools/array/functional/ufunc/reduce.hpp"], "accumulate": ["nmtools/array/functional/ufunc/accumulate.hpp"],
               "indexing": ["nmtools/array/functional/indexing.hpp"]}


def extract_case(rnd, depth=None, spine_only=False, avoid_same_sig=False, dt=None, alias=None, pool=None, repeated=None, avoid_leafid=False, avoid_bcast=False):
    """stages in pipe format: value ids = leaves first, then stage results; the last stage is the view v"""
    pool = pool or EXTRACT_WEIGHTED
    for _ in range(300):
        k = depth or rnd.choice([1, 2, 2, 3, 3, 3, 4, 4])
        cdt = dt or ("f64" if rnd.random() < 0.25 else "i32")
        names = [n for n in pool if cdt == "f64" or FX[n].dt == "i32"]
        arrays, stages, vals = [], [], []

        def fresh(shape):
            arr = make_leaf(rnd, shape, cdt)
            arrays.append(arr)
            return len(arrays) - 1

        # build as a tree bottom-up: every stage takes the previous stage (spine) in a random position plus leaves or earlier sub-views
        try:
            base = fresh(rand_shape(rnd))
            leaf_vals = {base: np_of(arrays[base])}
            st_vals = []      # values of stages
            items = []        # ("leaf", i) / ("stage", j)
            cur = ("leaf", base)
            side_views = []   # completed side sub-views not yet consumed (non-spine)
            for si in range(k):
                done = False
                for _t in range(15):
                    name = rnd.choice(names)
                    fx = FX[name]
                    cur_val = leaf_vals[cur[1]] if cur[0] == "leaf" else st_vals[cur[1]]
                    s0 = list(cur_val.shape)
                    save = len(arrays)
                    nst = len(stages)
                    try:
                        oth = fx.others(rnd, s0)
                        ins = [cur]
                        in_vals = [cur_val]
                        for s in oth:
                            r = rnd.random()
                            rep_ok = repeated is not False
                            same = [i for i, a in enumerate(arrays[:save]) if a["shape"] == list(s)]
                            if rep_ok and same and (r < 0.3 or repeated):
                                li = rnd.choice(same)
                            else:
                                li = fresh(s)
                                leaf_vals[li] = np_of(arrays[li])
                            ins.append(("leaf", li)); in_vals.append(leaf_vals[li])
                        # a side sub-view instead of a leaf (non-spine nesting)
                        if not spine_only and fx.arity >= 2 and si + 1 < k and rnd.random() < 0.5:
                            j = rnd.randrange(1, fx.arity)
                            if ins[j][0] == "leaf":
                                uname = rnd.choice([n for n in ("negative", "square", "flip", "fabs") if n in names] or ["negative"])
                                ua, uargs = FX[uname].sample(rnd, [list(in_vals[j].shape)])
                                uv = eval_ref(uname, [in_vals[j]], uargs)
                                if list(uv.shape) == list(in_vals[j].shape):
                                    stages.append({"f": uname, "in": [ins[j]], "attrs": ua, "args": uargs})
                                    st_vals.append(uv)
                                    ins[j] = ("stage", len(stages) - 1); in_vals[j] = uv
                        # the spine value may sit in any operand position
                        if fx.arity >= 2 and not spine_only and rnd.random() < 0.4 and name not in ("matmul", "where", "concatenate", "conv2d"):
                            j = rnd.randrange(1, fx.arity)
                            if list(in_vals[j].shape) == list(in_vals[0].shape) or name in BINARY_INT or name in BINARY_F:
                                ins[0], ins[j] = ins[j], ins[0]
                                in_vals[0], in_vals[j] = in_vals[j], in_vals[0]
                        shapes = [list(v.shape) for v in in_vals]
                        attrs, args = fx.sample(rnd, shapes)
                        if name == "where" or (fx.group == "reduce" and args.get("axis") is None):
                            raise Skip()   # axis=None reductions are either-typed views: extraction is not defined for them
                        r = eval_ref(name, in_vals, args)
                        stages.append({"f": name, "in": ins, "attrs": attrs, "args": args})
                        st_vals.append(r)
                        cur = ("stage", len(stages) - 1)
                        done = True
                        break
                    except Skip:
                        del arrays[save:]
                        del stages[nst:]
                        del st_vals[nst:]
                        continue
                if not done:
                    raise Skip()
        except Skip:
            continue
        nl = len(arrays)
        used = {i[1] for s in stages for i in s["in"] if i[0] == "leaf"}
        if used != set(range(nl)):
            continue
        pst = [{"f": s["f"], "in": [(i[1] if i[0] == "leaf" else nl + i[1]) for i in s["in"]], "attrs": s["attrs"], "args": s["args"]} for s in stages]
        kinds = [rnd.choice(LEAF_KINDS_GRAPH) for _ in arrays]
        if any(len(s["in"]) == 1 and s["in"][0] < nl and kinds[s["in"][0]] == "raw" and FX[s["f"]].group in ("ufunc", "activation") for s in pst):
            # a raw array as the only operand of a unary ufunc is refused by get_compute_graph (static_assert: pointer, number or view)
            kinds = [("fixed_ndarray" if kd == "raw" else kd) for kd in kinds]
        case = {"kind": "extract", "arrays": arrays, "stages": pst, "leaf_kinds": kinds, "alias": bool(rnd.random() < 0.25) if alias is None else alias}
        if spine_only and not is_left_spine(case):
            continue
        if avoid_same_sig and same_sig_pairs(case):
            continue
        if case["alias"] and alias is None and any(len(s["in"]) == 1 and s["in"][0] < nl and FX[s["f"]].group in ("ufunc", "activation") for s in pst):
            case["alias"] = False     # get_function_composition refuses (at compile time) an explicit alias directly under a unary ufunc
        if avoid_leafid and leafid_class(case):
            continue
        if avoid_bcast and bcast_class(case):
            continue
        return case
    return None


def is_left_spine(case):
    """only the FIRST operand of every stage may be a view (the class in which get_function_composition routes operands correctly)"""
    nl = len(case["arrays"])
    for s in case["stages"]:
        if any(i >= nl for i in s["in"][1:]):
            return False
    return True


def ast_keys(case):
    """structural key of every value id (CSE semantics): equal keys denote the same node"""
    nl = len(case["arrays"])
    keys = {}
    for si, s in enumerate(case["stages"]):
        keys[nl + si] = (s["f"], tuple(s["attrs"]), tuple((("leaf", i) if i < nl else keys[i]) for i in s["in"]))
    return keys


def leaf_sig(case, i):
    k = case["leaf_kinds"][i]
    a = case["arrays"][i]
    static = progen.LEAF_STATIC.get(k, ("dyn", "dyn"))[0]
    return (k, a.get("dt", "i32"), tuple(a["shape"]) if static in ("const", "clipped") or k in ("raw", "std_array", "fixed_ndarray") else len(a["shape"]))


def attr_type_sig(a):
    """compile-time part of an attribute rendering (run-time values do not enter the type)"""
    if "_ct" in a or a.startswith("nm::"):
        return a
    if a.startswith("nmtools_array<"):
        return a[:a.index("{")]
    if a.startswith("nmtools_tuple{"):
        return "tuple%d" % (a.count(",") + 1) + ("N" if "None" in a else "")
    return "num" + ("f" if "." in a else "i")


def ast_sigs(case, alias=False):
    nl = len(case["arrays"])
    sigs = {}
    for si, s in enumerate(case["stages"]):
        sigs[nl + si] = (s["f"], tuple(attr_type_sig(a) for a in s["attrs"]),
                         tuple(((leaf_sig(case, i) + ((i,) if alias else ())) if i < nl else sigs[i]) for i in s["in"]))
    return sigs


def same_sig_pairs(case):
    """pairs of DISTINCT nodes (different keys) whose C++ view types coincide"""
    keys, sigs = ast_keys(case), ast_sigs(case, case.get("alias"))
    ids = sorted(keys)
    out = []
    for a, b in itertools.combinations(ids, 2):
        if keys[a] != keys[b] and sigs[a] == sigs[b]:
            out.append((a, b))
    return out


def expected_graph(case):
    """(op node keys, leaf nodes, edges) under: one node per distinct operation (CSE), one node per operand occurrence
    (alias mode: one node per leaf), edges = every operation's inputs -> operation"""
    nl = len(case["arrays"])
    keys = ast_keys(case)
    reach = set()

    def walk(v):
        if v < nl or v in reach:
            return
        reach.add(v)
        for i in case["stages"][v - nl]["in"]:
            walk(i)
    walk(nl + len(case["stages"]) - 1)
    ops = {keys[v] for v in reach}
    leaf_nodes = set()
    edges = set()
    for v in reach:
        s = case["stages"][v - nl]
        for pos, i in enumerate(s["in"]):
            if i < nl:
                ln = ("leaf", i) if case.get("alias") else ("leaf", i, keys[v], pos)
                leaf_nodes.add(ln)
                edges.add((ln, keys[v]))
            else:
                edges.add((keys[i], keys[v]))
    return ops, leaf_nodes, edges, reach


def expected_operand_order(case):
    nl = len(case["arrays"])
    out = []

    def walk(v):
        if v < nl:
            out.append(v)
            return
        for i in case["stages"][v - nl]["in"]:
            walk(i)
    walk(nl + len(case["stages"]) - 1)
    return out


def render_extract(rid, case, parts=("apply", "graph")):
    pre = []
    nl = len(case["arrays"])
    xs = [progen.render_leaf(i, arr, case["leaf_kinds"][i], pre) for i, arr in enumerate(case["arrays"])]
    lines = list(pre)
    leaves = "{" + ",".join("(const void*)&%s" % x for x in xs) + "}"
    names = list(xs)
    if case.get("alias"):
        names = []
        for i, x in enumerate(xs):
            lines.append("auto l%d = view::alias(%s, %s);" % (i, x, ct(i)))
            names.append("l%d" % i)
    exprs = list(names)
    incs = set()
    for si, s in enumerate(case["stages"]):
        fx = FX[s["f"]]
        incs.add(fx.hdr)
        incs.update(EXTRACT_HDR.get(s["f"], EXTRACT_HDR.get(fx.group, [])))
        lines.append("auto v%d = nm::unwrap(%s);" % (si, fx.direct_expr([exprs[j] for j in s["in"]], s["attrs"])))
        exprs.append("v%d" % si)
    final = exprs[-1]
    recs = []
    ids = " + \",\" + ".join("std::to_string(c14::view_id(v%d))" % si for si in range(len(case["stages"])))
    lines.append("pg::emit(\"%s.view\", \"\\\"obs\\\":\" + pg::obs(%s) + \",\\\"ids\\\":[\" + %s + \"]\");" % (rid, final, ids))
    recs.append({"id": rid + ".view", "role": "view"})
    if "graph" in parts:
        lines.append("{ auto g_ = fn::get_compute_graph(%s); pg::emit(\"%s.graph\", \"\\\"g\\\":\" + c14::graph_json(g_, %s)); }" % (final, rid, leaves))
        recs.append({"id": rid + ".graph", "role": "graph"})
    if "apply" in parts:
        lines.append("{ auto f_ = fn::get_function_composition(%s); auto ops_ = fn::get_function_operands(%s);" % (final, final))
        lines.append("  pg::emit(\"%s.ops\", \"\\\"ops\\\":\" + c14::operands_json(ops_, %s) + \",\\\"arity\\\":\" + std::to_string(c14::arity_of(f_)));" % (rid, leaves))
        lines.append("  auto r_ = fn::apply(f_, ops_); pg::emit(\"%s.apply\", \"\\\"obs\\\":\" + pg::obs(r_)); }" % rid)
        recs.append({"id": rid + ".ops", "role": "ops"})
        recs.append({"id": rid + ".apply", "role": "apply"})
    text = "    {\n        %s\n    }\n" % "\n        ".join(lines)
    return text, incs, recs


def extract_expected(case):
    c = {"arrays": case["arrays"], "stages": [{"f": FX[s["f"]].ref, "in": s["in"], "a": s["args"]} for s in case["stages"]]}
    vals = [np_of(a) for a in case["arrays"]]
    for s in case["stages"]:
        vals.append(np.asarray(ref_of(FX[s["f"]].ref)([vals[i] for i in s["in"]], s["args"])))
    return vals[-1]


# ---------------------------------------------------------------------------------------------
# rendering / running
# ---------------------------------------------------------------------------------------------
def dangling_class(case):
    """extraction walks a broadcasting (arity >= 2) ufunc whose operand is itself a view: function_composition.hpp binds a reference to a temporary"""
    if case.get("kind") != "extract":
        return False
    nl = len(case["arrays"])
    for s in case["stages"]:
        fx = FX[s["f"]]
        if fx.group in ("ufunc",) and fx.arity >= 2 and any(i >= nl for i in s["in"]):
            return True
    return False


def leafid_class(case):
    """operand (leaf) ids are positions local to each sub-view and only a broadcasting ufunc renumbers its DIRECT leaves: leaves can share an id when
    a non-ufunc view with >= 2 operands has a view among them (outer, matmul, concatenate ...) or when any view has two view operands"""
    if case.get("kind") != "extract" or case.get("alias"):
        return False
    nl = len(case["arrays"])

    def leaves_under(i):
        """distinct leaves below value i in left-to-right occurrence order"""
        if i < nl:
            return [i]
        out = []
        for j in case["stages"][i - nl]["in"]:
            for l in leaves_under(j):
                if l not in out:
                    out.append(l)
        return out
    for s in case["stages"]:
        fx = FX[s["f"]]
        views = [i for i in s["in"] if i >= nl]
        if fx.arity >= 2 and fx.group != "ufunc" and len(views) >= 1:
            return True
        if len(views) >= 2:
            # positions are local to each sub-view: two view operands collide when some position holds different leaves
            # (views derived from the same leaves in the same order - add(tanh(x), exp(x)) - number them consistently)
            lists = [leaves_under(i) for i in views]
            for a in lists:
                for b in lists:
                    if any(x != y for x, y in zip(a, b)) or len(a) != len(b):
                        return True
            if any(i < nl for i in s["in"]):
                return True
            # the same leaf as a direct operand of two different operations below this node: two occurrences, numbered alike -> one node
            seen_stage = {}
            stack = list(views)
            done = set()
            while stack:
                v = stack.pop()
                if v in done:
                    continue
                done.add(v)
                for j in case["stages"][v - nl]["in"]:
                    if j < nl:
                        seen_stage.setdefault(j, set()).add(v)
                    else:
                        stack.append(j)
            if any(len(vs) >= 2 for vs in seen_stage.values()):
                return True
    return False


def bcast_class(case):
    """a unary ufunc directly over the user's own broadcast_to view (extraction / graph treat it like the implicit broadcast of binary ufuncs)"""
    if case.get("kind") != "extract":
        return False
    nl = len(case["arrays"])
    for s in case["stages"]:
        fx = FX[s["f"]]
        if fx.arity == 1 and fx.group in ("ufunc", "activation") and s["in"][0] >= nl and case["stages"][s["in"][0] - nl]["f"] == "broadcast_to":
            return True
    return False


def render_block(rid, case, parts=None, rnd=None):
    k = case["kind"]
    if k == "curry":
        return render_curry(rid, case, rnd=random.Random(chash(case)))
    if k == "compose":
        return render_compose(rid, case, rnd=random.Random(chash(case)))
    if k == "extract":
        return render_extract(rid, case, parts if parts is not None else tuple(case.get("parts") or ("graph", "apply")))
    raise KeyError(k)


def make_tu(blocks):
    return progen.make_tu([(t, i) for t, i, _ in blocks], prelude=PRELUDE)


def _run(path):
    r, stderr = progen.run_bin(path, timeout=120)
    return r


def run_blocks(items, group=3):
    """items: list of dict(rid, case, cfg). Returns dict rid -> result dict(status, recs{id: rec}, meta[list], crash, err, rejected_parts)"""
    out = {}
    rendered = {}
    for it in items:
        try:
            rendered[it["rid"]] = render_block(it["rid"], it["case"])
        except Skip:
            out[it["rid"]] = {"status": "not_renderable"}
    # group by (cfg, kind); extraction blocks always alone (their failure modes are per part)
    tus = []
    bycfg = {}
    for it in items:
        if it["rid"] not in rendered:
            continue
        g = group
        if it["case"]["kind"] == "extract":
            c_ = it["case"]
            risky = (dangling_class(c_) and it.get("cfg", "gcc") == "gcc") or not is_left_spine(c_) or same_sig_pairs(c_) or leafid_class(c_) or "raw" in c_["leaf_kinds"]
            g = 1 if risky else min(group, 3)
        key = (it.get("cfg", "gcc"), it["case"]["kind"], g)
        bycfg.setdefault(key, []).append(it)
    for (cfg, kind, g), its in bycfg.items():
        for i in range(0, len(its), g):
            tus.append((cfg, its[i:i + g]))
    res = progen.compile_many([(make_tu([rendered[it["rid"]] for it in its]), cfg) for cfg, its in tus], jobs=JOBS)
    singles = []
    for (cfg, its), (path, err) in zip(tus, res):
        if path is None:
            if len(its) == 1:
                singles.append((cfg, its[0], err, True))
            else:
                for it in its:
                    singles.append((cfg, it, None, False))
            continue
        r = _run(path)
        lost = _collect(out, its, rendered, r)
        for it in lost:
            if len(its) > 1:
                singles.append((cfg, it, None, False))
    # singles: compile alone
    todo = [(cfg, it) for cfg, it, err, failed in singles if not failed]
    res2 = progen.compile_many([(make_tu([rendered[it["rid"]]]), cfg) for cfg, it in todo], jobs=JOBS)
    failed = [(cfg, it, err) for cfg, it, err, f in singles if f]
    for (cfg, it), (path, err) in zip(todo, res2):
        if path is None:
            failed.append((cfg, it, err))
        else:
            _collect(out, [it], rendered, _run(path), final=True)
    # failed singles: extraction blocks are retried part by part
    retry = []
    for cfg, it, err in failed:
        if it["case"]["kind"] == "extract":
            for parts in (("apply",), ("graph",), ()):
                if parts and it["case"].get("parts") and parts[0] not in it["case"]["parts"]:
                    continue
                retry.append((cfg, it, parts, err))
        else:
            out[it["rid"]] = {"status": "rejected_compile", "err": (err or "")[:400]}
    rr = {}
    for cfg, it, parts, err in retry:
        rr[(it["rid"], parts)] = render_block(it["rid"], it["case"], parts=parts)
    res3 = progen.compile_many([(make_tu([rr[(it["rid"], parts)]]), cfg) for cfg, it, parts, err in retry], jobs=JOBS)
    merged = {}
    for (cfg, it, parts, err), (path, err2) in zip(retry, res3):
        m = merged.setdefault(it["rid"], {"status": "rejected_compile", "recs": {}, "meta": [], "rejected_parts": [], "err": (err or "")[:400], "crash": None})
        if path is None:
            if parts:
                m["rejected_parts"].append(parts[0])
                m["err_" + parts[0]] = (err2 or "")[:400]
                if parts[0] == "graph" and ("CT_MAP_OUT_OF_RANGE" in (err2 or "") or "ct_digraph" in (err2 or "")):
                    m["graph_id_error"] = True
            continue
        tmp = {}
        _collect(tmp, [it], {it["rid"]: rr[(it["rid"], parts)]}, _run(path), final=True)
        t = tmp.get(it["rid"])
        if t:
            m["status"] = "ok"
            for k, v in t.get("recs", {}).items():
                m["recs"].setdefault(k, v)
            for mm in t.get("meta", []):
                if mm["id"] not in [x["id"] for x in m["meta"]]:
                    m["meta"].append(mm)
            if t.get("crash") and not m["crash"]:
                m["crash"] = t["crash"]
                m["crash_parts"] = list(parts)
    out.update(merged)
    return out


def _collect(out, its, rendered, r, final=False):
    """distribute the records of one executed TU; returns the items whose records were lost behind a crash of another block"""
    lost = []
    if r.get("_timeout"):
        for it in its:
            out[it["rid"]] = {"status": "timeout"}
        return lost
    recs = r["recs"]
    crash = r.get("crash")
    crashed_assigned = False
    for it in its:
        meta = rendered[it["rid"]][2]
        got = {m["id"]: recs[m["id"]][0] for m in meta if m["id"] in recs}
        if len(got) == len(meta):
            out[it["rid"]] = {"status": "ok", "recs": got, "meta": meta, "crash": None}
        elif crash and not crashed_assigned and (got or len(its) == 1 or final):
            # the first incomplete block is the one that crashed
            out[it["rid"]] = {"status": "ok", "recs": got, "meta": meta, "crash": crash}
            crashed_assigned = True
        elif crash and not crashed_assigned:
            out[it["rid"]] = {"status": "ok", "recs": got, "meta": meta, "crash": crash}
            crashed_assigned = True
        else:
            lost.append(it)
    return lost


# ---------------------------------------------------------------------------------------------
# judging
# ---------------------------------------------------------------------------------------------
DIRECT_CRASH = "DIRECT-VIEW-CRASH "
DIRECT_DIFF = "DIRECT-VIEW-DIFFERS-FROM-NUMPY "


def same_obs(a, b):
    if a.get("hv") is False or b.get("hv") is False:
        return "no value (%s vs %s)" % (a.get("hv"), b.get("hv")) if a.get("hv") != b.get("hv") else None
    if a.get("shape") != b.get("shape"):
        return "shape %s != %s" % (a.get("shape"), b.get("shape"))
    ea, eb = a.get("elems", []), b.get("elems", [])
    if len(ea) != len(eb):
        return "element count %d != %d" % (len(ea), len(eb))
    for k, (x, y) in enumerate(zip(ea, eb)):
        if x != y and not (isinstance(x, float) and isinstance(y, float) and math.isnan(x) and math.isnan(y)):
            return "element %d: %r != %r" % (k, x, y)
    return None


def expected_of(case):
    k = case["kind"]
    if k == "curry":
        return np.asarray(ref_of(FX[case["f"]].ref)([np_of(a) for a in case["arrays"]], case["args"]))
    if k == "compose":
        return simulate_chain(case)[0]
    return extract_expected(case)


def tol_of(case):
    names = [case["f"]] if case["kind"] == "curry" else [e["f"] for e in case.get("chain", []) if "f" in e] + [s["f"] for s in case.get("stages", [])]
    dt = any(a.get("dt") == "f64" for a in case["arrays"])
    return 1e-9 if dt or any(FX[n].tol for n in names) else None


def judge(case, res):
    """returns list of (failure text) for one block; every record judged is counted by the caller"""
    fails = []
    if res["status"] != "ok":
        return fails
    recs = res["recs"]
    meta = {m["id"]: m for m in res["meta"]}
    crash = res.get("crash")
    if crash and not recs:
        # the direct view expression (always the first record) crashed: a defect of the views involved, outside this property
        return [DIRECT_CRASH + json.dumps(crash)[:400]]
    if crash:
        missing = [m["role"] for i, m in meta.items() if i not in recs]
        fails.append("program crashed after %d of %d records [%s]: %s" % (len(recs), len(meta), ",".join(missing), json.dumps(crash)[:500]))
    exp = expected_of(case)
    tol = tol_of(case)
    kind = case["kind"]
    base_id = next((i for i, m in meta.items() if m["role"] in ("direct", "view")), None)
    base = recs.get(base_id)
    if base is not None:
        f = e2.obs_matches(base["obs"], exp, tol)
        if f:
            # the view itself disagrees with NumPy: a matter of the view properties (C03..C08, C16, C17); functor forms cannot be judged against it
            return [DIRECT_DIFF + f]
    if kind in ("curry", "compose"):
        for i, m in meta.items():
            if m["role"] != "variant" or i not in recs:
                continue
            if base is None:
                f = e2.obs_matches(recs[i]["obs"], exp, tol)
                if f:
                    fails.append("functor form %s differs from the NumPy reference: %s" % (describe_variant(case, m), f))
                continue
            if recs[i].get("rk", "value") != "value":
                fails.append("functor form %s returned a %s instead of the evaluated array" % (describe_variant(case, m), recs[i]["rk"]))
                continue
            f = same_obs(recs[i]["obs"], base["obs"])
            if f:
                fails.append("functor form %s differs from the direct view: %s" % (describe_variant(case, m), f))
            if kind == "compose" and "arity" in recs[i] and not any("c" in e for e in case["chain"]):
                n = len(case["arrays"])
                if recs[i]["arity"] != n:
                    fails.append("composition %s reports arity %s, it consumes %d operands" % (describe_variant(case, m), recs[i]["arity"], n))
        return fails
    # extraction
    nl = len(case["arrays"])
    rid = base_id[:-len(".view")] if base_id else None
    keys = ast_keys(case)
    if base is not None:
        ids = base.get("ids", [])
        bykey = {}
        for si, idv in enumerate(ids):
            bykey.setdefault(idv, set()).add(keys[nl + si])
        coll = {idv: ks for idv, ks in bykey.items() if len(ks) > 1}
        if coll:
            fails.append("view ids are not unique: id %s is shared by %d distinct operations (%s)" % (
                list(coll)[0], len(list(coll.values())[0]), ", ".join(sorted(k[0] for k in list(coll.values())[0]))))
    ops = recs.get(rid + ".ops") if rid else None
    if ops is not None:
        want = expected_operand_order(case)
        if ops["ops"] != want:
            fails.append("extracted operands (leaf indices by address) %s, expected the leaves in left-to-right occurrence order %s" % (ops["ops"], want))
    ap = recs.get(rid + ".apply") if rid else None
    if ap is not None and base is not None:
        f = same_obs(ap["obs"], base["obs"])
        if f:
            fails.append("extracted composition applied to the extracted operands differs from the view: %s" % f)
    g = recs.get(rid + ".graph") if rid else None
    if g is not None and base is not None:
        f = judge_graph(case, g["g"], base.get("ids", []))
        if f:
            fails.append(f)
    if "graph" in res.get("rejected_parts", []) and res.get("graph_id_error") and base is not None:
        fails.append("get_compute_graph does not compile: a node id is duplicated or missing while the graph is assembled (view ids %s, operand ids are small integers)" % base.get("ids", []))
    return fails


def judge_graph(case, g, ids):
    if g is None:
        return "get_compute_graph returned Nothing"
    nl = len(case["arrays"])
    keys = ast_keys(case)
    ops, leaf_nodes, edges, reach = expected_graph(case)
    nodes = g["nodes"]
    nid = [n[0] for n in nodes]
    if len(set(nid)) != len(nid):
        return "graph: node ids are not pairwise distinct: %s" % nid
    id_of_key = {}
    for v in reach:
        id_of_key.setdefault(keys[v], ids[v - nl])
    if len(set(id_of_key.values())) != len(id_of_key):
        return "graph: %d distinct operations share node ids %s (graph has %d operation nodes)" % (len(id_of_key), sorted(id_of_key.values()), sum(1 for n in nodes if not n[1]))
    # view ids are hashes modulo 1033 in the same id space as the operand ids 0, 1, 2, ...: a view whose hash lands on an operand id is
    # merged with that operand node (the class of C14-graph-id-hash-collision, recognisable only from the printed ids)
    n_operands = max(len(leaf_nodes), nl)
    coll = sorted(i for i in set(id_of_key.values()) if 0 <= i < n_operands)
    if coll:
        return "graph: view id(s) %s share node ids with the operands (operand ids are 0..%d)" % (coll, n_operands - 1)
    op_nodes = {n[0] for n in nodes if not n[1]}
    buf_nodes = {n[0]: n[2] for n in nodes if n[1]}
    if op_nodes != set(id_of_key.values()):
        return "graph: operation nodes %s, expected one per operation %s" % (sorted(op_nodes), sorted(id_of_key.values()))
    if len(buf_nodes) != len(leaf_nodes):
        return "graph: %d operand nodes, expected %d (%s)" % (len(buf_nodes), len(leaf_nodes), "one per aliased leaf" if case.get("alias") else "one per operand occurrence")
    if any(l < 0 for l in buf_nodes.values()):
        return "graph: an operand node does not hold the address of any leaf"
    if case.get("alias"):
        for n, l in buf_nodes.items():
            if n != l:
                return "graph: aliased leaf %d got node id %d" % (l, n)
    got_multi = []
    for a, b in g["edges"]:
        if a not in nid or b not in nid:
            return "graph: edge (%s,%s) refers to a missing node" % (a, b)
        src = ("leaf", buf_nodes[a]) if a in buf_nodes else ("op", a)
        got_multi.append((src, b))
    want_multi = []
    for s, d in edges:
        src = ("leaf", s[1]) if s[0] == "leaf" else ("op", id_of_key[s])
        want_multi.append((src, id_of_key[d]))
    if sorted(got_multi) != sorted(want_multi):
        return "graph: edges %s, expected exactly the inputs of every operation %s (leaf = operand node of that leaf)" % (sorted(got_multi), sorted(want_multi))
    if not case.get("alias"):
        outdeg = {}
        for a, b in g["edges"]:
            if a in buf_nodes:
                outdeg[a] = outdeg.get(a, 0) + 1
        if any(outdeg.get(n, 0) != 1 for n in buf_nodes):
            return "graph: an operand-occurrence node does not have exactly one consumer: %s" % outdeg
    return None


def describe_variant(case, m):
    if case["kind"] == "curry":
        return "fn::%s split %s" % (case["f"], m.get("split"))
    brs = bracketings([el_text(e) for e in case["chain"]])
    return "%s split %s" % (brs[m.get("bracket", 0)], m.get("split"))


CONST_KINDS = ("raw", "std_array", "fixed_ndarray", "cs_fb")


def swap_positions(case):
    return [i for i, e in enumerate(case["chain"][:-1]) if e.get("c") in ("swap", "dig1", "bury1")]


def swapmaybe_class(case):
    """swap / dig1 / bury1 (all swap_t) somewhere but at the right end of a chain, fed by a functor result that may be maybe-typed: any leaf without a
    compile-time shape, or a functor with attributes / outside the plain ufuncs to its right"""
    if case.get("kind") != "compose":
        return False
    ps = swap_positions(case)
    if not ps:
        return False
    right = case["chain"][max(ps) + 1:]
    plain = all("f" in e and not e["attrs"] and FX[e["f"]].group == "ufunc" for e in right)
    return not (plain and all(k in CONST_KINDS for k in case["leaf_kinds"]))


def _plain(e):
    return "f" in e and not e["attrs"] and FX[e["f"]].group == "ufunc"


def matmul_class(case):
    """view::matmul receives a view that may be maybe-typed (functor application / nested views pass the maybe on): its maybe branch builds the view from
    temporaries. Not in the class: every leaf has a compile-time shape and all other functors are attribute-free ufuncs (nothing is maybe-typed then)"""
    k = case.get("kind")
    if k == "compose":
        ch = case["chain"]
        pos = [i for i, e in enumerate(ch[:-1]) if e.get("f") == "matmul"]
        if not pos:
            return False
        others = [e for i, e in enumerate(ch) if e.get("f") != "matmul" and "c" not in e]
    elif k == "extract":
        nl = len(case["arrays"])
        pos = [s for s in case["stages"] if s["f"] == "matmul" and any(i >= nl for i in s["in"])]
        if not pos:
            return False
        others = [s for s in case["stages"] if s["f"] != "matmul"]
    else:
        return False
    return not (all(_plain(e) for e in others) and all(kd in CONST_KINDS for kd in case["leaf_kinds"]))


def classify(case, failure):
    """finding id of a failure (None = unclassified)"""
    f = str(failure)
    k = case.get("kind")
    if k == "compose" and "instead of the evaluated array" in f and swap_positions(case):
        return F_SWAPMAYBE
    if matmul_class(case) and (f.startswith("program crashed") or "differs from the" in f or "instead of the evaluated" in f):
        return F_MATMUL
    if k != "extract":
        return None
    if ("stack-use-after-scope" in f or "heap-use-after-free" in f) and dangling_class(case):
        return F_DANGLING
    if bcast_class(case) and ("extracted composition applied" in f or f.startswith("graph: operation nodes")):
        return F_BCAST
    if "extracted composition applied" in f and not is_left_spine(case):
        return F_SPINE
    if f.startswith("program crashed") and "[apply]" in f and not is_left_spine(case):
        return F_SPINE      # the wrongly routed composition may also be ill-formed (shape mismatch -> assertion / out-of-range read)
    if "extracted operands" in f and not is_left_spine(case):
        return None
    if ("view ids are not unique" in f or f.startswith("graph:")) and same_sig_pairs(case):
        return F_SIBLING
    if f.startswith("graph:") and "share node ids" not in f and leafid_class(case):
        return F_LEAFID
    if "get_compute_graph does not compile" in f:
        return F_LEAFID if leafid_class(case) else F_HASH
    if "view ids are not unique" in f or "share node ids" in f:
        return F_HASH
    return None


# ---------------------------------------------------------------------------------------------
# deterministic suite
# ---------------------------------------------------------------------------------------------
def _arr(shape, start=1, dt="i32", step=1):
    n = prod(shape)
    if dt == "f64":
        return {"shape": list(shape), "data": [(start + step * i) / 4.0 for i in range(n)], "dt": "f64"}
    return {"shape": list(shape), "data": [start + step * i for i in range(n)]}


def F(name, attrs=(), **args):
    return {"f": name, "attrs": list(attrs), "args": args}


def C(name):
    return {"c": name}


def fixed_compose_cases():
    A = _arr
    cs = []
    add = lambda ch, arrays, kinds=None: cs.append({"kind": "compose", "arrays": arrays, "chain": ch, "leaf_kinds": kinds or ["fixed_ndarray"] * len(arrays)})
    add([F("add"), F("add")], [A([3, 3], 0), A([3], 1), A([1, 1, 1], 4)], ["raw", "raw", "raw"])
    add([F("tanh"), F("add")], [A([2, 3], 1, "f64"), A([3], 2, "f64")])
    add([F("multiply"), F("add")], [A([2, 3]), A([3], 10), A([2, 1], 2)], ["ds_db", "fs_fb", "raw"])
    add([F("sum", ["0"], axis=0), F("add")], [A([2, 3]), A([2, 3], 7)])
    add([F("add"), F("sum", ["0"], axis=0)], [A([2, 3]), A([3], 7)], ["cs_fb", "dynamic_ndarray"])
    add([F("add"), C("dup")], [A([2, 3])])
    add([F("subtract"), C("swap")], [A([2, 3]), A([3], 20)])
    # a combinator applied while further operands are still pending behind its own
    add([F("add"), F("subtract"), C("swap")], [A([2, 3]), A([3], 20), A([2, 1], 100)])
    add([F("subtract"), F("multiply"), C("dup")], [A([2, 3], 2), A([3], 7)])
    add([F("multiply"), F("add"), F("subtract"), C("dig2")], [A([2], 1), A([2], 10), A([2], 100), A([2], 1000)], ["raw", "fixed_ndarray", "std_array", "cs_fb"])
    add([F("maximum"), F("add"), C("bury1")], [A([2, 2], 1), A([2], 30), A([2, 2], 5)], ["raw", "raw", "raw"])
    add([F("subtract"), F("divide"), F("reduce_add", ["0"], axis=0), C("bury2")], [A([3, 2], 1, "f64"), A([2, 3, 2], 1, "f64"), A([1], 12, "f64")], ["fs_fb", "fs_fb", "fs_fb"])
    add([F("fabs"), F("square"), F("negative")], [A([2, 2], -3)])
    add([F("transpose", [ia([1, 0])], axes=[1, 0]), F("reshape", [ia([2, 3])], shape=[2, 3]), F("flatten")], [A([3, 2])], ["hs_hb"])
    add([F("where"), C("dig2")], [A([2, 2], 5), A([2, 2], 50), {"shape": [2, 2], "data": [1, 0, 0, 1]}])
    add([F("matmul"), F("transpose", [ctup([1, 0])], axes=[1, 0])], [A([3, 2]), A([3, 2], 4)])
    add([F("add"), F("multiply"), F("subtract"), F("maximum")], [A([2, 2], 1), A([2], 3), A([2, 1], 2), A([1], 4), A([2, 2], 9)])
    add([F("multiply"), C("dup"), F("add")], [A([2, 3]), A([3], 2)])
    add([F("add"), F("add"), C("dup3")], [A([2, 2], 3)])
    add([F("concatenate", ["0"], axis=0), F("flip", ["0"], axis=0)], [A([2, 3]), A([1, 3], 30)])
    add([F("subtract"), C("bury1"), F("square")], [A([2, 3]), A([2, 3], 50)])
    add([F("subtract"), F("multiply"), F("add"), C("dig3")], [A([2], 1), A([2], 10), A([2], 100), A([2], 1000)], ["raw", "fixed_ndarray", "ds_db", "std_array"])
    add([F("maximum"), F("subtract"), F("add"), C("bury3")], [A([2], 1), A([2], 10), A([2], 100), A([2], 1000)])
    # swap family fed by the (maybe-typed) result of a functor over run-time shaped leaves
    add([F("square"), F("add"), C("bury1"), F("subtract")], [A([3], 1), A([1], 10), A([1], 100)], ["fs_hb", "dynamic_ndarray", "fs_fb"])
    add([F("divide"), C("swap"), F("maximum")], [A([2], 1, "f64"), A([1], 3, "f64"), A([2], 9, "f64")], ["ds_db", "raw", "fixed_ndarray"])
    add([F("softmax", ["-1"], axis=-1), F("subtract"), F("reduce_maximum", ["-1", "nm::None", "nm::None", "nm::True"], axis=-1, keepdims=True), C("dup")],
        [A([2, 3], 1, "f64")])
    return cs


def fixed_extract_cases(th):
    A = _arr
    cs = []

    def add(arrays, stages, kinds=None, alias=False):
        cs.append({"kind": "extract", "arrays": arrays, "stages": [{"f": f, "in": list(i), "attrs": list(at), "args": ar} for f, i, at, ar in stages],
                   "leaf_kinds": kinds or ["fixed_ndarray"] * len(arrays), "alias": alias})
    # the library's own graph test shape: tanh(add(multiply(a,b),b))
    for al in (False, True):
        add([A([3, 4], 0), A([4], 0)], [("multiply", [0, 1], [], {}), ("add", [2, 1], [], {}), ("tanh", [3], [], {})], ["fs_fb", "fs_fb"], al)
    add([A([2, 3])], [("add", [0, 0], [], {})])
    add([A([2, 3])], [("add", [0, 0], [], {})], alias=True)
    add([A([2, 3]), A([2, 3], 10)], [("subtract", [0, 1], [], {}), ("square", [2], [], {}), ("sum", [3], ["0"], {"axis": 0})], ["ds_db", "ds_db"])
    add([A([2, 3]), A([3], 10), A([2, 1], 2)], [("add", [0, 1], [], {}), ("multiply", [3, 2], [], {}), ("flatten", [4], [], {}), ("negative", [5], [], {})], ["cs_fb", "raw", "fixed_ndarray"])
    # re-convergent graphs: one shared node feeds two different derived views joined by one binary ufunc (graph part only is judged:
    # these are outside the left spine)
    add([A([2, 3], 1, "f64"), A([3], 2, "f64")], [("multiply", [0, 1], [], {}), ("tanh", [2], [], {}), ("exp", [2], [], {}), ("add", [3, 4], [], {})])
    add([A([2, 3], 1, "f64")], [("exp", [0], [], {}), ("tanh", [0], [], {}), ("subtract", [1, 2], [], {})], ["ds_db"])
    add([A([2, 3], 1, "f64"), A([3], 2, "f64")], [("multiply", [0, 1], [], {}), ("tanh", [2], [], {}), ("exp", [2], [], {}), ("add", [3, 4], [], {}), ("tanh", [5], [], {})],
        ["fs_fb", "fixed_ndarray"])
    add([A([2, 2], 1, "f64")], [("sin", [0], [], {}), ("square", [1], [], {}), ("negative", [1], [], {}), ("multiply", [2, 3], [], {})])
    # non-left-spine nestings
    add([A([2, 3]), A([2, 3], 10)], [("square", [1], [], {}), ("subtract", [0, 2], [], {})])
    add([A([2, 3]), A([2, 3], 10)], [("square", [0], [], {}), ("negative", [1], [], {}), ("subtract", [2, 3], [], {})])
    # same-typed sibling sub-views
    add([A([2, 3]), A([2, 3], 10)], [("negative", [0], [], {}), ("negative", [1], [], {}), ("multiply", [2, 3], [], {})], ["fs_fb", "fs_fb"])
    # a view type whose id hashes to 0 (the id of the first operand)
    add([A([2, 3]), A([3], 10)], [("add", [0, 1], [], {}), ("multiply", [2, 1], [], {}), ("tanh", [3], [], {})], ["raw", "raw"])
    # the user's own broadcast_to directly under a unary ufunc
    add([A([1, 3])], [("broadcast_to", [0], [ia([2, 3], "size_t")], {"shape": [2, 3]}), ("negative", [1], [], {})])
    # a non-ufunc binary view over a view with two leaves (operand ids are positions local to each sub-view)
    add([A([2, 2]), A([2], 5), A([2, 2], 9)], [("add", [0, 1], [], {}), ("matmul", [3, 2], [], {})])
    # matmul chain over run-time shaped leaves: the functor path hands maybe-typed views to view::matmul
    add([A([3, 1], 2), A([1], 3), A([1, 2], 1), A([2, 1], 5)], [("minimum", [0, 1], [], {}), ("matmul", [4, 2], [], {}), ("matmul", [5, 3], [], {})],
        ["dynamic_ndarray", "hs_hb", "cs_fb", "fs_fb"], alias=True)
    add([A([2, 3])], [("transpose", [0], [ia([1, 0])], {"axes": [1, 0]}), ("reshape", [1], [ia([6])], {"shape": [6]}), ("flip", [2], ["0"], {"axis": 0})], ["dynamic_ndarray"])
    add([A([2, 3]), A([3, 2], 3)], [("matmul", [0, 1], [], {}), ("reduce_add", [2], ["1"], {"axis": 1})])
    add([A([2, 3]), A([1, 3], 3)], [("concatenate", [0, 1], ["0"], {"axis": 0}), ("square", [2], [], {})])
    add([A([2, 2], 1, "f64"), A([2], 2, "f64")], [("divide", [0, 1], [], {}), ("exp", [2], [], {}), ("reduce_maximum", [3], ["0"], {"axis": 0}), ("sqrt", [4], [], {})], ["fs_hb", "fs_hb"])
    one = ["transpose", "reshape", "add", "sum", "matmul", "tanh", "accumulate_add", "outer_add", "slice", "concatenate"] if not th else EXTRACT_FUNCTORS
    for n in one:
        c = extract_case(random.Random("C14:extract1:" + n), depth=1, pool=[n], alias=False, repeated=False, dt=FX[n].dt)
        if c:
            cs.append(c)
    return cs


# ---------------------------------------------------------------------------------------------
# the property
# ---------------------------------------------------------------------------------------------
class C14(e2.ProgenProp):
    id = "C14"
    rule = ("case = one generated block: (curry) a functor of array/functional with sampled attributes and operands, printed for the direct view call and for EVERY "
            "interleaving of the attribute list over chained operator[] and of the operand list over chained operator() (plus the empty call); (compose) a chain of 2..4 "
            "functors (arity 1..3, any position) and combinators swap/dup/dig/bury, printed for every parenthesisation of f1*..*fk, applied all-at-once / fully curried / "
            "a mixed operand split, against the nested direct views obtained from the documented right-to-left semantics; (extract) a nest of direct views of depth 1..4 "
            "(broadcasting binary stages, repeated leaves, optional explicit aliases): apply(get_function_composition(v), get_function_operands(v)), the extracted operands by "
            "address, the id of every sub-view and the node / edge sets of get_compute_graph(v). Oracle: direct view == NumPy; every functor form == direct view bit for bit; "
            "extracted operands == leaves by address in left-to-right occurrence order; graph == AST: one node per distinct operation, one node per operand occurrence (one per "
            "leaf when aliased), ids pairwise distinct, edges exactly {input -> operation}; composition arity == number of operands consumed (chains without combinators); "
            "a functor call must return the evaluated array, not a pack or a still partially applied functor. A block whose DIRECT view crashes or disagrees with NumPy is a "
            "view-level matter (other properties): counted and listed in info, not judged. Compile-rejected blocks / parts are counted (harness error above 50 %). Known-finding "
            "classes are excluded by construction (F_HASH by the printed ids), NMV_C14_EXCLUDE=id,... simulates a listing. "
            "Every printed record judged = one evaluation; non-trivial = non-canonical split, chain length >= 2, depth >= 2 or repeated leaf; distinct = (case, record).")
    assumptions = ["NumPy anchors the values (a defect common to functor and view is covered by the view properties)",
                   "a functor form the compiler rejects is outside the supported configuration space (counted; harness error above 50 %)",
                   "get_compute_graph documents one node per operand occurrence unless leaves are aliased explicitly (tests/functional/src/graph)"]

    def exhaustive_space(self, tier):
        return None

    _known_ids = None

    def _is_known(self, fid):
        if C14._known_ids is None:
            C14._known_ids = {e["id"] for e in load_known("C14") if e.get("status") == "known"}
        env = {x.strip() for x in os.environ.get("NMV_C14_EXCLUDE", "").split(",") if x.strip()}
        if os.environ.get("NMV_NO_EXCLUDE"):
            return False
        return fid in C14._known_ids or fid in env

    # ---- suite ---------------------------------------------------------------------------------
    def suite(self, tier, seed):
        th = tier == "thorough"
        rnd = random.Random(7368787 * (seed + 1) + (1 if th else 0))
        items = []
        excluded = {}
        spine = self._is_known(F_SPINE)
        nosib = self._is_known(F_SIBLING)
        noleaf = self._is_known(F_LEAFID)
        nobc = self._is_known(F_BCAST)

        noswap = self._is_known(F_SWAPMAYBE)
        nomm = self._is_known(F_MATMUL)

        def push(case, src):
            if case is None:
                return
            if case["kind"] == "compose" and noswap and swapmaybe_class(case):
                if src == "fixed":
                    excluded[F_SWAPMAYBE] = excluded.get(F_SWAPMAYBE, 0) + 1
                    return
                # random chains: keep the chain, give it leaves with compile-time shapes when that takes it out of the class
                c2 = dict(case, leaf_kinds=[k if k in CONST_KINDS else CONST_KINDS[(i + len(k)) % len(CONST_KINDS)] for i, k in enumerate(case["leaf_kinds"])])
                if swapmaybe_class(c2):
                    excluded[F_SWAPMAYBE] = excluded.get(F_SWAPMAYBE, 0) + 1
                    return
                case = c2
            if nomm and matmul_class(case):
                c2 = dict(case, leaf_kinds=[k if k in CONST_KINDS else CONST_KINDS[(i + len(k)) % len(CONST_KINDS)] for i, k in enumerate(case["leaf_kinds"])])
                if src == "fixed" or matmul_class(c2):
                    excluded[F_MATMUL] = excluded.get(F_MATMUL, 0) + 1
                    return
                case = c2
            if case["kind"] == "extract":
                if spine and not is_left_spine(case):
                    # the extraction round trip of this class is a known finding; its compute graph is still judged (graph part only)
                    excluded[F_SPINE + " (apply part; graph still judged)"] = excluded.get(F_SPINE + " (apply part; graph still judged)", 0) + 1
                    case = dict(case, parts=["graph"])
                if nosib and same_sig_pairs(case):
                    excluded[F_SIBLING] = excluded.get(F_SIBLING, 0) + 1
                    return
                if noleaf and leafid_class(case):
                    excluded[F_LEAFID] = excluded.get(F_LEAFID, 0) + 1
                    return
                if nobc and bcast_class(case):
                    excluded[F_BCAST] = excluded.get(F_BCAST, 0) + 1
                    return
            cfg = "gcc"
            if case["kind"] == "extract" and dangling_class(case) and self._is_known(F_DANGLING):
                # known dangling reference: keep judging values / operands / graph of this class, without the one ASan check that trips and with
                # leaves whose views own no heap memory (the dead temporary is then only read, never freed)
                cfg = "gcc_nouas"
                case = dict(case, leaf_kinds=[k if k in NOHEAP_KINDS else NOHEAP_KINDS[(i + len(k)) % len(NOHEAP_KINDS)] for i, k in enumerate(case["leaf_kinds"])])
            items.append({"rid": "b%d" % len(items), "case": case, "cfg": cfg, "src": src})

        for n in FX:
            push(curry_case(random.Random("C14:curry:" + n), n), "fixed")
        for c in fixed_compose_cases():
            push(c, "fixed")
        for c in fixed_extract_cases(th):
            push(c, "fixed")
        names = list(FX)
        for i in range(400 if th else 12):
            push(curry_case(rnd, names[(i * 7 + seed) % len(names)] if i % 2 == 0 else rnd.choice(names)), "random")
        for i in range(500 if th else 14):
            push(compose_case(rnd), "random")
        for i in range(500 if th else 14):
            push(extract_case(rnd, spine_only=spine, avoid_same_sig=nosib, avoid_leafid=noleaf, avoid_bcast=nobc), "random")
        return items, excluded

    # ---- engine ---------------------------------------------------------------------------------
    def extra_phases(self, ctx):
        tier, seed, stats, info = ctx["tier"], ctx["seed"], ctx["stats"], ctx["info"]
        t0 = time.time()
        items, excluded = self.suite(tier, seed)
        for k, v in excluded.items():
            stats.rejected["excluded_by_known_finding:" + k] = v
        res = run_blocks(items, group=4)
        info["blocks"] = len(items)
        info["progen_s"] = round(time.time() - t0, 1)
        fails = []
        nrej = nblk = 0
        rej_functors = {}
        for it in items:
            case = it["case"]
            r = res.get(it["rid"], {"status": "missing"})
            nblk += 1
            self._count(stats, "block:%s:%s" % (case["kind"], r["status"]))
            if r["status"] == "rejected_compile":
                nrej += 1
                stats.rejected["rejected_compile"] = stats.rejected.get("rejected_compile", 0) + 1
                for n in self._functors(case):
                    rej_functors[n] = rej_functors.get(n, 0) + 1
                continue
            if r["status"] in ("timeout", "missing"):
                fails.append(({"_harness": True}, "HARNESS-ERROR block %s: %s" % (it["rid"], r["status"]), {}))
                continue
            if r["status"] != "ok":
                continue
            for p_ in r.get("rejected_parts", []):
                stats.rejected["rejected_compile:" + p_] = stats.rejected.get("rejected_compile:" + p_, 0) + 1
            self._account(stats, it, r)
            try:
                fl_ = judge(case, r)
            except Exception as e:  # oracle bug: never a pass
                import traceback
                fl_ = ["HARNESS-ERROR oracle exception %r %s" % (e, traceback.format_exc()[-500:])]
            if fl_ and fl_[0].startswith(DIRECT_CRASH):
                stats.rejected["direct_view_crashed(not judged)"] = stats.rejected.get("direct_view_crashed(not judged)", 0) + 1
                info.setdefault("direct_view_crashes", []).append({"case": e2._trim(case, 900), "crash": fl_[0][len(DIRECT_CRASH):][:300]})
                fl_ = []
            if fl_ and fl_[0].startswith(DIRECT_DIFF):
                stats.rejected["direct_view_differs_from_numpy(not judged)"] = stats.rejected.get("direct_view_differs_from_numpy(not judged)", 0) + 1
                info.setdefault("direct_view_mismatches", []).append({"case": e2._trim(case, 900), "diff": fl_[0][len(DIRECT_DIFF):][:300]})
                fl_ = []
            fl_ = self._filter_known(case, fl_, stats, it)
            for f in fl_[:2]:
                cc = dict(case, _external=True, cfg=it["cfg"])
                fails.append((cc, f, {}))
        info["rejected_functors"] = dict(sorted(rej_functors.items()))
        if nblk and nrej > nblk * 0.5:
            fails.append(({"_harness": True}, "HARNESS-ERROR more than half of the blocks were rejected by the compiler (%d of %d)" % (nrej, nblk), {}))
        return fails

    def _filter_known(self, case, fl_, stats, it):
        """F_HASH cannot be predicted by construction (it depends on a hash of type names): once known, a block whose printed ids show the
        collision is not judged on its graph"""
        out = []
        for f in fl_:
            fid = classify(case, f)
            if fid == F_HASH and self._is_known(F_HASH) and not case.get("_witness"):
                k = "excluded_by_known_finding:" + F_HASH
                stats.rejected[k] = stats.rejected.get(k, 0) + 1
                continue
            out.append(f)
        return out

    @staticmethod
    def _count(stats, k, n=1):
        stats.classes[k] = stats.classes.get(k, 0) + n

    @staticmethod
    def _functors(case):
        if case["kind"] == "curry":
            return [case["f"]]
        if case["kind"] == "compose":
            return [e.get("f") or e["c"] for e in case["chain"]]
        return [s["f"] for s in case["stages"]]

    def _account(self, stats, it, r):
        case = it["case"]
        kind = case["kind"]
        recs = r["recs"]
        fnames = self._functors(case)
        for m in r["meta"]:
            if m["id"] not in recs:
                continue
            stats.evaluations += 1
            self._count(stats, "record:%s:%s" % (kind, m["role"]))
            nontriv = False
            if kind == "curry":
                self._count(stats, "functor:" + case["f"])
                if m["role"] == "variant":
                    self._count(stats, "split:" + m["split"])
                    nontriv = not m.get("canonical")
            elif kind == "compose":
                nontriv = True
                if m["role"] == "variant":
                    self._count(stats, "compose-split:" + m["split"])
                    self._count(stats, "bracket:%d" % m["bracket"])
            else:
                nl = len(case["arrays"])
                rep = len(expected_operand_order(case)) > nl
                nontriv = len(case["stages"]) >= 2 or rep
            if nontriv:
                stats.nontrivial.add(chash({"c": case, "r": m["id"].split(".", 1)[1]}))
        if kind == "compose":
            self._count(stats, "chain_len:%d" % len(case["chain"]))
            for e in case["chain"]:
                self._count(stats, ("combinator:" + e["c"]) if "c" in e else ("chain-functor:" + e["f"]))
            if not any("c" in e for e in case["chain"]):
                self._count(stats, "combinator:none")
        if kind == "extract":
            self._count(stats, "depth:%d" % len(case["stages"]))
            self._count(stats, "spine:" + ("left" if is_left_spine(case) else "other"))
            self._count(stats, "leaves:" + ("aliased" if case.get("alias") else "plain"))
            if len(expected_operand_order(case)) > len(case["arrays"]):
                self._count(stats, "repeated_leaf")
            for n in fnames:
                self._count(stats, "extract-functor:" + n)
        for k in case["leaf_kinds"]:
            self._count(stats, "leaf:" + k)
        self._count(stats, "cfg:" + it["cfg"])
        if len(stats.samples) < 8 and int(chash(case), 16) % 5 == 0:
            stats.samples.append({"case": e2._trim(case), "records": e2._trim(recs, 600)})

    # ---- known findings ------------------------------------------------------------------------
    def features(self, case, failure):
        return {"finding": classify(case, failure)}

    def replay_external(self, case):
        c = {k: v for k, v in case.items() if k not in ("_external", "cfg", "_witness")}
        cfg = case.get("cfg", "gcc")
        if case.get("_witness"):
            cfg = "gcc"
        it = {"rid": "b0", "case": c, "cfg": cfg}
        res = run_blocks([it], group=1)
        r = res.get("b0", {"status": "missing"})
        if r["status"] != "ok":
            return []
        return [(case, f, {}) for f in judge(c, r) if not f.startswith(DIRECT_CRASH) and not f.startswith(DIRECT_DIFF)]


# ---------------------------------------------------------------------------------------------
# probe (development aid): python3-vt -m nmv.props.c14 probe-curry|probe-extract [names...]
# ---------------------------------------------------------------------------------------------
def _probe(argv):
    what = argv[0]
    names = argv[1:]
    items = []
    if what == "probe-curry":
        for n in (names or list(FX)):
            rnd = random.Random("curry:" + n)
            c = curry_case(rnd, n)
            if c is None:
                print("NOCASE", n)
                continue
            c["leaf_kinds"] = ["fixed_ndarray"] * len(c["arrays"])
            items.append({"rid": "p_" + n, "case": c})
    elif what == "probe-extract":
        for n in (names or EXTRACT_FUNCTORS):
            rnd = random.Random("extract:" + n)
            c = extract_case(rnd, depth=1, pool=[n], alias=False, repeated=False, dt=FX[n].dt)
            if c is None:
                print("NOCASE", n)
                continue
            c["leaf_kinds"] = ["fixed_ndarray"] * len(c["arrays"])
            items.append({"rid": "p_" + n, "case": c})
    t0 = time.time()
    res = run_blocks(items, group=1)
    print("time %.0fs" % (time.time() - t0))
    for it in items:
        r = res.get(it["rid"], {"status": "?"})
        fl_ = judge(it["case"], r) if r["status"] == "ok" else []
        print("%-22s %-18s recs=%s rejparts=%s %s %s" % (it["rid"], r["status"], len(r.get("recs", {})), r.get("rejected_parts"), (r.get("err") or "")[:200].replace("\n", " | "), [x[:300] for x in fl_]))


if __name__ == "__main__":
    import sys
    _probe(sys.argv[1:])
