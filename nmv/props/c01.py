"""C01 — multi-index <-> flat offset is an order-preserving bijection."""
import itertools

import numpy as np
from hypothesis import strategies as st

from ..core import Prop
from .common import small_shapes, crash_failure

STATIC_TABLE = [
    [1], [2], [3], [4], [7],
    [1, 1], [1, 2], [2, 1], [2, 2], [2, 3], [3, 2], [3, 3], [1, 3], [3, 1], [4, 5],
    [1, 1, 1], [2, 1, 2], [2, 2, 2], [2, 3, 2], [3, 2, 1], [1, 3, 3], [3, 3, 3], [2, 3, 4],
    [2, 1, 3, 2], [2, 2, 2, 2], [3, 1, 2, 3], [2, 3, 2, 1, 2], [2, 1, 2, 3, 1, 2],
    [1024, 1024], [65536, 16, 4],
]
ARR_TABLE = [[3], [2, 3], [3, 2], [1, 4], [4, 1], [2, 2, 2], [2, 3, 2], [3, 1, 2], [2, 3, 4], [2, 1, 3, 2], [2, 2, 2, 2], [1, 2, 3, 1, 2]]
KINDS = ["vec", "arr", "uarr", "sv", "uvec", "tup"]
ETS = ["u64", "i32", "i64", "u32"]
ET_MAX = {"u64": 2 ** 63 - 1, "i32": 2 ** 31 - 1, "i64": 2 ** 63 - 1, "u32": 2 ** 32 - 1}
ARR_DYN = ["ds_db_row", "ds_db_col", "ds_hb_row", "ds_hb_col", "hs_db_row", "hs_db_col", "dynamic_ndarray",
           "fs_db_row", "fs_db_col", "hybrid_ndarray"]
ARR_FIX = ["cs_fb_row", "cs_fb_col", "cs_db_row", "fixed_ndarray"]


def strides_of(shape):
    s = [1] * len(shape)
    for i in range(len(shape) - 2, -1, -1):
        s[i] = s[i + 1] * shape[i + 1]
    return s


def unravel(k, shape):
    s = strides_of(shape)
    return [(k // s[i]) % shape[i] for i in range(len(shape))]


def prod(shape):
    p = 1
    for e in shape:
        p *= e
    return p


def boundary_offsets(shape, extra=()):
    size = prod(shape)
    s = strides_of(shape)
    cand = {0, size - 1, size // 2}
    for x in s:
        for d in (-1, 0, 1):
            for m in (1, 2):
                cand.add(x * m + d)
    for x in extra:
        cand.add(x % size)
    return sorted(k for k in cand if 0 <= k < size)


class C01(Prop):
    id = "C01"
    servers = ["c01"]
    rule = ("case = (shape, index-container kind, element type) with a list of flat offsets / multi-indices, or "
            "(array kind, layout, shape). Exhaustive: all shapes dim 1..4 extents 1..4 (+ dim 5,6 extents 1..3 in thorough) "
            "with every offset; random: extents up to 2^16 and sizes up to 2^40 with boundary offsets. "
            "non-trivial = dim >= 2 with at least two extents > 1 (row-major order observable); distinct = canonical JSON of the case")
    assumptions = ["Python integers / itertools.product / numpy order='F' are the reference",
                   "index element type can represent the size of the shape (otherwise not generated)"]

    def exhaustive_space(self, tier):
        return "shapes dim1..4 ext1..4" + (" + dim5..6 ext1..3" if tier == "thorough" else " + dim5 ext1..2") + \
               " x 6 container kinds x 4 element types; static ct/clipped table (every run-time shape under each clipped bound); array kinds x layouts"

    def _shapes(self, tier):
        yield from small_shapes(1, 4, 4)
        if tier == "thorough":
            yield from small_shapes(5, 6, 3)
        else:
            yield from small_shapes(5, 5, 2)

    def exhaustive(self, tier):
        rot = 0
        for shape in self._shapes(tier):
            size = prod(shape)
            offs = list(range(size))
            multi = [list(t) for t in itertools.product(*[range(e) for e in shape])]
            for kind in KINDS:
                ets = ETS
                rot += 1
                for et in ets:
                    c = {"op": "c01_index_" + et, "kind": kind, "shape": shape, "offsets": offs, "multi": multi}
                    if kind != "tup":
                        c["nd"] = size
                    yield c
            if len(shape) <= 4:
                for ak in ARR_DYN:
                    yield {"op": "c01_array_dyn", "kind": ak, "shape": shape}
        for key in STATIC_TABLE:
            size = prod(key)
            offs = list(range(size)) if size <= 4096 else boundary_offsets(key)
            yield {"op": "c01_static_ct", "key": key, "shape": key, "offsets": offs}
            if size <= 4096:
                subs = list(itertools.product(*[range(1, e + 1) for e in key]))
                step = 1
                for sub in subs[::step]:
                    yield {"op": "c01_static_cl", "key": key, "shape": list(sub), "offsets": list(range(prod(sub)))}
            else:
                yield {"op": "c01_static_cl", "key": key, "shape": key, "offsets": offs}
        # offset, shape and strides all compile-time constants (the result is computed inside the library's type resolver)
        for key in ([7], [2, 3], [3, 2], [1, 3], [4, 5], [2, 3, 2], [3, 2, 1], [2, 1, 3, 2], [2, 3, 4]):
            yield {"op": "c01_all_ct", "key": key, "shape": key, "offsets": list(range(prod(key)))}
        for shp in ARR_TABLE:
            for ak in ARR_FIX:
                yield {"op": "c01_array_fix", "kind": ak, "shape": shp}

    def n_random(self, tier):
        return 16000 if tier == "quick" else 200000

    def strategy(self, tier):
        @st.composite
        def case(draw):
            et = draw(st.sampled_from(ETS))
            kind = draw(st.sampled_from(KINDS))
            dim = draw(st.integers(1, 6))
            mode = draw(st.sampled_from(["mid", "mid", "huge", "edge"]))
            limit = ET_MAX[et]
            if mode == "mid":
                cap = 2 ** 22
            elif mode == "huge":
                cap = min(limit, 2 ** 40)
            else:
                cap = min(limit, draw(st.sampled_from([2 ** 31 - 1, 2 ** 31, 2 ** 32 - 1, 2 ** 32, 2 ** 40])))
            shape = []
            p = 1
            for _ in range(dim):
                room = max(1, cap // p)
                hi = min(room, 2 ** 16 if mode != "edge" else 2 ** 20)
                e = draw(st.one_of(st.integers(1, min(hi, 5)), st.integers(1, hi)))
                shape.append(e)
                p *= e
            draw(st.randoms(use_true_random=False)).shuffle(shape)
            size = prod(shape)
            extra = draw(st.lists(st.integers(0, size - 1), min_size=0, max_size=8))
            offs = boundary_offsets(shape, extra)
            multi = [unravel(k, shape) for k in offs[:16]]
            c = {"op": "c01_index_" + et, "kind": kind, "shape": shape, "offsets": offs, "multi": multi}
            if kind != "tup":
                c["nd"] = offs[:24]
            return c
        return case()

    def nontrivial(self, case):
        return sum(1 for e in case["shape"] if e > 1) >= 2

    def classes(self, case):
        out = ["op:" + case["op"], "dim:%d" % len(case["shape"])]
        if "kind" in case:
            out.append("kind:" + case["kind"])
        p = prod(case["shape"])
        out.append("size:" + ("<=4096" if p <= 4096 else "<=2^22" if p <= 2 ** 22 else "<2^31" if p < 2 ** 31 else ">=2^31"))
        return out

    def check(self, case, obs):
        cf = crash_failure(obs)
        if cf:
            return cf
        if "error" in obs:
            return "HARNESS-ERROR server: " + obs["error"]
        op = case["op"]
        shape = case["shape"]
        if op == "c01_all_ct":
            if obs.get("shape_seen") != shape:
                return "static shape object reports %s, expected %s" % (obs.get("shape_seen"), shape)
            if len(obs["unravel"]) != prod(shape):
                return "HARNESS-ERROR all-ct enumeration has %d entries" % len(obs["unravel"])
            for k, (idx, back, idx2, const) in enumerate(obs["unravel"]):
                e = unravel(k, shape)
                if idx != e or idx2 != e:
                    return "compute_indices(ct %d, ct shape%s) = %s / with ct strides %s, expected %s" % (k, "" if idx != e else ", ct strides", idx, idx2, e)
                if back != k:
                    return "compute_offset(compute_indices(ct %d)) = %d" % (k, back)
            return None
        if op.startswith("c01_index") or op.startswith("c01_static"):
            if op.startswith("c01_static") and obs.get("shape_seen") != shape:
                return "static shape object reports %s, expected %s" % (obs.get("shape_seen"), shape)
            exp_s = strides_of(shape)
            if obs["strides"] != exp_s:
                return "strides %s != suffix products %s" % (obs["strides"], exp_s)
            if obs["product"] != prod(shape):
                return "product %s != %s" % (obs["product"], prod(shape))
            for k, (idx, back, idx2) in zip(case["offsets"], obs["unravel"]):
                e = unravel(k, shape)
                if idx != e or idx2 != e:
                    return "compute_indices(%d) = %s / %s, expected %s" % (k, idx, idx2, e)
                if any(not (0 <= a < b) for a, b in zip(idx, shape)):
                    return "index %s outside shape" % idx
                if back != k:
                    return "compute_offset(compute_indices(%d)) = %d" % (k, back)
            for mi, (off, back) in zip(case.get("multi", []), obs.get("ravel", [])):
                e = sum(a * b for a, b in zip(mi, exp_s))
                if off != e:
                    return "compute_offset(%s) = %d, expected %d" % (mi, off, e)
                if back != mi:
                    return "compute_indices(compute_offset(%s)) = %s" % (mi, back)
            if "nd" in case:
                if obs.get("nd_size") != prod(shape):
                    return "ndindex.size() %s != %s" % (obs.get("nd_size"), prod(shape))
                if isinstance(case["nd"], int):
                    exp = [list(t) for t in itertools.product(*[range(e) for e in shape])]
                    if obs["nd"] != exp:
                        return "ndindex enumeration differs from row-major product order"
                else:
                    for k, got in zip(case["nd"], obs["nd"]):
                        if got != unravel(k, shape):
                            return "ndindex[%d] = %s" % (k, got)
            return None
        # arrays
        if obs.get("resized") is False:
            return "resize(%s) refused by %s" % (shape, case["kind"])
        n = prod(shape)
        if obs["shape"] != shape:
            return "array shape %s != %s" % (obs["shape"], shape)
        if obs["size"] != n:
            return "array size %s != %s" % (obs["size"], n)
        ids = list(range(1, n + 1))
        if obs["read"] != ids:
            return "a(i...) read-back after writing distinct ids differs: %s" % obs["read"][:12]
        order = "F" if case["kind"].endswith("_col") else "C"
        exp = np.arange(1, n + 1).reshape(shape).flatten(order=order).tolist()
        if obs["flat"] != exp:
            return "flat buffer %s != %s-order %s" % (obs["flat"][:12], order, exp[:12])
        return None

    # ---- E3: coverage-guided fuzzing of the index functions (libFuzzer target with the oracle inside) ----
    engines = ["hypothesis+sanitized-cpp-server", "libFuzzer (E3, harness/fuzz_index.cpp)"]

    def extra_phases(self, ctx):
        from .. import fuzz
        return fuzz.fuzz_phase(self, "c01", ctx)

    def replay_external(self, case):
        from .. import fuzz
        return fuzz.replay("c01", case) if case.get("fuzz") else []
