"""C16 — linear-algebra routines equal their mathematical definitions (NumPy as the definition)."""
import itertools

from hypothesis import strategies as st

from ..core import Prop
from .. import refs
from .. import refs_linalg  # noqa: F401  (registers the references)
from .common import crash_failure, prod, pipe

BINARY = ["matmul", "matmulv2", "dot", "inner", "outer", "vecdot", "tensordot", "tensordot_ct", "kron"]
UNARY = ["trace", "diagonal"]
NO_CONTRACTION = ("outer", "kron", "diagonal")


# ---------------------------------------------------------------------------
# data
# ---------------------------------------------------------------------------
def arr(shape, start):
    n = prod(shape)
    return {"shape": list(shape), "data": list(range(start, start + n))}


def arange_pair(sa, sb):
    """two different arange ramps (the second one crosses zero) so that swapped / permuted terms change the sums"""
    return [arr(sa, 1), arr(sb, -(prod(sb) // 2))]


# ---------------------------------------------------------------------------
# shape constructors (only NumPy-valid operand pairs are ever built)
# ---------------------------------------------------------------------------
def shapes(d, emax):
    return [list(t) for t in itertools.product(range(1, emax + 1), repeat=d)]


def bcast_pairs(emax):
    return [(x, y) for x in range(1, emax + 1) for y in range(1, emax + 1) if x == y or x == 1 or y == 1]


def batch_pairs(na, nb, emax):
    """every pair of batch shapes of length na / nb (right aligned) that NumPy broadcasts"""
    n = min(na, nb)
    extra = abs(na - nb)
    for lead in itertools.product(range(1, emax + 1), repeat=extra):
        for al in itertools.product(bcast_pairs(emax), repeat=n):
            A = [p[0] for p in al]
            B = [p[1] for p in al]
            if na > nb:
                A = list(lead) + A
            else:
                B = list(lead) + B
            yield A, B


def matmul_pairs(emax, dmax=4):
    E = range(1, emax + 1)
    for la in range(1, dmax + 1):
        for lb in range(1, dmax + 1):
            for k in E:
                for m in (E if la >= 2 else [None]):
                    for n in (E if lb >= 2 else [None]):
                        for A, B in batch_pairs(max(la - 2, 0), max(lb - 2, 0), emax):
                            sa = A + ([m, k] if la >= 2 else [k])
                            sb = B + ([k, n] if lb >= 2 else [k])
                            yield sa, sb, {}


def dot_pairs(emax, dmax=4):
    for la in range(1, dmax + 1):
        for lb in range(1, dmax + 1):
            for sa in shapes(la, emax):
                k = sa[-1]
                for sb in shapes(lb, emax):
                    if (sb[-2] if lb >= 2 else sb[0]) == k:
                        yield sa, sb, {}


def inner_pairs(emax, dmax=4):
    for la in range(1, dmax + 1):
        for lb in range(1, dmax + 1):
            for sa in shapes(la, emax):
                for fb in shapes(lb - 1, emax):
                    yield sa, fb + [sa[-1]], {}


def vecdot_pairs(emax, dmax=4):
    for la in range(1, dmax + 1):
        for lb in range(1, dmax + 1):
            for k in range(1, emax + 1):
                for A, B in batch_pairs(la - 1, lb - 1, emax):
                    yield A + [k], B + [k], {}


def free_pairs(emax, dmax):
    for la in range(1, dmax + 1):
        for lb in range(1, dmax + 1):
            for sa in shapes(la, emax):
                for sb in shapes(lb, emax):
                    yield sa, sb, {}


def tensordot_int(emax, dmax=4):
    for la in range(1, dmax + 1):
        for lb in range(1, dmax + 1):
            for n in range(0, min(la, lb) + 1):
                for sa in shapes(la, emax):
                    c = sa[la - n:]
                    for fb in shapes(lb - n, emax):
                        yield sa, c + fb, {"axes": n}


def tensordot_pairs(emax, dmax=4):
    cnt = 0
    for la in range(1, dmax + 1):
        for lb in range(1, dmax + 1):
            for L in (1, 2):
                if L > min(la, lb):
                    continue
                for lax in itertools.permutations(range(la), L):
                    for rax in itertools.permutations(range(lb), L):
                        free = [i for i in range(lb) if i not in rax]
                        for sa in shapes(la, emax):
                            for fb in shapes(lb - L, emax):
                                sb = [0] * lb
                                for i, e in zip(free, fb):
                                    sb[i] = e
                                for i, j in zip(lax, rax):
                                    sb[j] = sa[i]
                                cnt += 1
                                # deterministic mix of negative spellings of the same axes
                                l2 = [x - la if (cnt >> q) & 1 else x for q, x in enumerate(lax)]
                                r2 = [x - lb if (cnt >> (q + 2)) & 1 else x for q, x in enumerate(rax)]
                                yield sa, sb, {"axes": [l2, r2]}


def diag_args(shape):
    d = len(shape)
    for a1 in range(-d, d):
        for a2 in range(-d, d):
            if a1 % d == a2 % d:
                continue
            s1, s2 = shape[a1 % d], shape[a2 % d]
            # offsets in [-n, n] restricted to the non-empty diagonals (zero-size results do not exist in the library)
            for off in range(-(s1 - 1), s2):
                yield {"offset": off, "axis1": a1, "axis2": a2}


def unary_cases(emax, dmax=4):
    for d in range(2, dmax + 1):
        for s in shapes(d, emax):
            for a in diag_args(s):
                yield s, a


GEN2 = {
    "matmul": matmul_pairs, "matmulv2": matmul_pairs, "dot": dot_pairs, "inner": inner_pairs,
    "vecdot": vecdot_pairs, "tensordot/int": tensordot_int, "tensordot/pairs": tensordot_pairs,
}


EVAL_EVERY = 6   # the eval differential (4 extra evaluations of the whole pipeline) costs ~10x a lazy read: 1 case in 6 carries it


def mk2(op, sa, sb, a, ev=False):
    return pipe(arange_pair(sa, sb), [(op, [0, 1], a)], eval=ev)


def mk1(op, s, a, ev=False):
    return pipe([arr(s, 1)], [(op, [0], a)], eval=ev)


def _sel(key, stride):
    # hash() of a tuple of ints is deterministic across runs (only str/bytes hashing is salted)
    return stride <= 1 or hash(key) % stride == 0


def _ev(key):
    return hash((7,) + key) % EVAL_EVERY == 0


def binary_space(tag, emax, stride=1, only_with=None, max_out=700):
    """cases of one op family over extents 1..emax; only_with=e keeps shape pairs that contain extent e
    (so that the 1..2 space and the 1..3 subsample do not overlap); stride = deterministic hash subsample"""
    if tag in ("outer", "kron"):
        gen = free_pairs(emax, 4 if tag == "outer" else 3)
    else:
        gen = GEN2[tag](emax)
    ti = sorted(list(GEN2) + ["outer", "kron", "tensordot/ct"]).index(tag)
    for sa, sb, a in gen:
        if only_with is not None and only_with not in sa and only_with not in sb:
            continue
        if tag in ("outer", "kron") and prod(sa) * prod(sb) > max_out:
            continue
        ax = a.get("axes")
        key = (ti, tuple(sa), tuple(sb), -1 if ax is None else ax if isinstance(ax, int) else (tuple(ax[0]), tuple(ax[1])))
        if not _sel(key, stride):
            continue
        op = tag.split("/")[0]
        yield mk2(op, sa, sb, a, _ev(key))
        if tag == "tensordot/int" and 1 <= a["axes"] <= 4:
            yield mk2("tensordot_ct", sa, sb, a, _ev((1,) + key))


def unary_space(emax, stride=1, only_with=None):
    for s, a in unary_cases(emax):
        if only_with is not None and only_with not in s:
            continue
        key = (99, tuple(s), a["offset"], a["axis1"], a["axis2"])
        if not _sel(key, stride):
            continue
        yield mk1("diagonal", s, a, _ev(key))
        yield mk1("trace", s, a, _ev((1,) + key))


TAGS = ["matmul", "matmulv2", "dot", "inner", "outer", "vecdot", "tensordot/int", "tensordot/pairs", "kron"]

# quick tier: stride of the "contains extent 3" subsample per family
QUICK3 = {"matmul": 6, "matmulv2": 6, "dot": 12, "inner": 12, "outer": 40, "vecdot": 4, "tensordot/int": 16,
          "tensordot/pairs": 400, "kron": 4}
QUICK2 = {"tensordot/pairs": 4}


# ---------------------------------------------------------------------------
# structure of a case (for classes / nontrivial)
# ---------------------------------------------------------------------------
def structure(case):
    s = case["stages"][0]
    op = s["f"]
    a = s.get("a") or {}
    shp = [x["shape"] for x in case["arrays"]]
    sa = shp[0]
    sb = shp[1] if len(shp) > 1 else None
    k = 1
    bc = False
    r1 = "none"
    if op in ("matmul", "matmulv2"):
        k = sa[-1]
        A = sa[:-2] if len(sa) >= 2 else []
        B = sb[:-2] if len(sb) >= 2 else []
        bc = _stretches(A, B)
        r1 = {(True, True): "both", (True, False): "lhs", (False, True): "rhs", (False, False): "none"}[(len(sa) == 1, len(sb) == 1)]
    elif op in ("dot", "inner"):
        k = sa[-1]
        r1 = {(True, True): "both", (True, False): "lhs", (False, True): "rhs", (False, False): "none"}[(len(sa) == 1, len(sb) == 1)]
    elif op == "vecdot":
        k = sa[-1]
        bc = _stretches(sa[:-1], sb[:-1])
    elif op in ("tensordot", "tensordot_ct"):
        ax = a["axes"]
        if isinstance(ax, int):
            k = prod(sa[len(sa) - ax:]) if ax else 1
        else:
            k = prod([sa[i] for i in ax[0]])
    elif op == "trace":
        d = len(sa)
        s1, s2, off = sa[a["axis1"] % d], sa[a["axis2"] % d], a["offset"]
        k = min(s1 + min(off, 0), s2 - max(off, 0))
    return op, a, sa, sb, k, bc, r1


def structural_late(case):
    """matmul (first implementation) with a rank-1 operand; trace/diagonal with a negative offset"""
    s = case["stages"][0]
    if s["f"] == "matmul":
        return any(len(x["shape"]) == 1 for x in case["arrays"])
    if s["f"] in ("trace", "diagonal"):
        return s["a"]["offset"] < 0
    return False


def structural_features(case):
    op, a, sa, sb, k, bc, r1 = structure(case)
    f = {"op": op, "lhs_dim": len(sa), "rhs_dim": len(sb) if sb is not None else None, "rank1": r1, "any_rank1": r1 != "none",
         "bcast_batch": bc}
    if op in ("trace", "diagonal"):
        f["offset_sign"] = (a["offset"] > 0) - (a["offset"] < 0)
    if op in ("tensordot", "tensordot_ct"):
        f["axes_kind"] = "int" if isinstance(a["axes"], int) else "pairs"
        f["naxes"] = a["axes"] if isinstance(a["axes"], int) else len(a["axes"][0])
    return f


def _stretches(A, B):
    """True when broadcasting the two batch shapes repeats data of at least one operand"""
    n = max(len(A), len(B))
    A2 = [1] * (n - len(A)) + list(A)
    B2 = [1] * (n - len(B)) + list(B)
    return any(x != y for x, y in zip(A2, B2))


class C16(Prop):
    id = "C16"
    servers = ["linalg"]
    rule = ("case = one linear-algebra view (matmul, matmulv2, dot, inner, outer, vecdot, tensordot with run-time int / compile-time int / "
            "explicit axis pairs, kron, trace, diagonal) on integer operands, observed lazily (shape + every element); 1 case in 6 additionally through eval "
            "(inferred row/column-major, supplied row/column-major output); exact comparison with NumPy on int64. Only NumPy-valid operand "
            "pairs are constructed (batch axes that broadcast 1 vs n included). non-trivial = contraction length > 1 and reference result has "
            "more than one element (some batch/free axis > 1); for outer/kron/diagonal (no contraction): every operand and the result have "
            "more than one element. distinct = canonical JSON of the case")
    assumptions = ["NumPy (np.matmul/dot/inner/outer/vecdot/tensordot/kron/trace/diagonal) is the definition",
                   "zero-size results (trace/diagonal offsets beyond the matrix) are outside the library's domain and are not generated",
                   "integer data small enough that int32 sums of products cannot overflow",
                   "tensordot with compile-time axes 0 does not compile in the library (index::range over an empty range): ct axes are 1..4, "
                   "axes=0 is exercised through the run-time integer form"]
    chunk = 150
    # ASan's default 256 MB quarantine lets a server grow past 1 GB within a few thousand of these allocation-heavy pipelines
    # (14 workers -> OOM kills on a shared machine, seen as spurious crashes); 16 MB keeps it < 0.5 GB over a whole thorough run
    server_env = {"linalg": {"ASAN_OPTIONS": "quarantine_size_mb=16"}}

    # ---- exhaustive ------------------------------------------------------
    def exhaustive_space(self, tier):
        if tier == "thorough":
            return ("all NumPy-valid operand shape pairs dim1..4 ext1..3 for matmul/matmulv2/dot/inner/vecdot/tensordot(int 0..min dim, ct 1..4), "
                    "tensordot explicit axis pairings len 1..2 (ext1..2 full, ext 3 subsample 1/8), outer (result <= 700 elements), kron dim1..3, "
                    "trace/diagonal dim2..4 x all axis pairs (incl. negative) x all non-empty offsets")
        return ("ext1..2 full space of every family (tensordot explicit pairings 1/4) + deterministic hash subsample of the shapes containing extent 3 "
                "(strides %s); trace/diagonal dim2..4 ext1..2 full + ext 3 subsample 1/6" % QUICK3)

    def exhaustive(self, tier):
        # core stops the exhaustive tier after 200 failures. The input classes in which the pinned tree fails wholesale
        # (see structural_late) are evaluated last, so that such a run still covers the whole rest of the space.
        late = []
        for c in self._space(tier):
            if structural_late(c):
                late.append(c)
            else:
                yield c
        yield from late

    def _space(self, tier):
        if tier == "thorough":
            for tag in TAGS:
                if tag == "tensordot/pairs":
                    yield from binary_space(tag, 2)
                    yield from binary_space(tag, 3, stride=8, only_with=3)
                else:
                    yield from binary_space(tag, 3)
            yield from unary_space(3)
            return
        for tag in TAGS:
            yield from binary_space(tag, 2, stride=QUICK2.get(tag, 1))
            yield from binary_space(tag, 3, stride=QUICK3[tag], only_with=3)
        yield from unary_space(2)
        yield from unary_space(3, stride=6, only_with=3)

    # ---- random ----------------------------------------------------------
    def n_random(self, tier):
        return 2800 if tier == "quick" else 20000

    def strategy(self, tier):
        CAP = 600
        EMAX = 6

        def ext(draw, budget, emax=EMAX):
            return draw(st.integers(1, max(1, min(emax, budget))))

        def shape_of(draw, d, budget):
            out = []
            p = 1
            for _ in range(d):
                e = ext(draw, budget // p)
                out.append(e)
                p *= e
            return out

        def data(draw, n):
            if n <= 40:
                return draw(st.lists(st.integers(-5, 5), min_size=n, max_size=n))
            m = draw(st.integers(1, 10))
            c = draw(st.integers(0, 10))
            q = draw(st.sampled_from([7, 11, 13]))
            return [((i * m + c + (i // q)) % 11) - 5 for i in range(n)]

        def bcast_batch(draw, na, nb, budget):
            """two right-aligned batch shapes whose broadcast has at most `budget` elements"""
            n = max(na, nb)
            full = shape_of(draw, n, budget)
            A = list(full[n - na:])
            B = list(full[n - nb:])
            for i in range(1, min(na, nb) + 1):
                w = draw(st.integers(0, 3))
                if w == 1:
                    A[-i] = 1
                elif w == 2:
                    B[-i] = 1
            return A, B

        @st.composite
        def case(draw):
            op = draw(st.sampled_from(["matmul", "matmulv2", "dot", "inner", "outer", "vecdot", "tensordot/int", "tensordot/ct",
                                       "tensordot/pairs", "kron", "trace", "diagonal"]))
            a = {}
            if op in ("trace", "diagonal"):
                d = draw(st.integers(2, 5))
                s = shape_of(draw, d, CAP)
                a1 = draw(st.integers(0, d - 1))
                a2 = draw(st.integers(0, d - 2))
                if a2 >= a1:
                    a2 += 1
                off = draw(st.integers(-(s[a1] - 1), s[a2] - 1))
                if draw(st.booleans()):
                    a1 -= d
                if draw(st.booleans()):
                    a2 -= d
                n = prod(s)
                ev = draw(st.integers(0, EVAL_EVERY - 1)) == 0
                return pipe([{"shape": s, "data": data(draw, n)}], [(op, [0], {"offset": off, "axis1": a1, "axis2": a2})], eval=ev)
            if op in ("matmul", "matmulv2"):
                la = draw(st.integers(1, 5))
                lb = draw(st.integers(1, 5))
                k = ext(draw, EMAX)
                m = ext(draw, EMAX) if la >= 2 else 1
                n = ext(draw, EMAX) if lb >= 2 else 1
                A, B = bcast_batch(draw, max(la - 2, 0), max(lb - 2, 0), CAP // max(m * k, k * n, m * n))
                sa = A + ([m, k] if la >= 2 else [k])
                sb = B + ([k, n] if lb >= 2 else [k])
            elif op == "vecdot":
                la = draw(st.integers(1, 5))
                lb = draw(st.integers(1, 5))
                k = ext(draw, EMAX)
                A, B = bcast_batch(draw, la - 1, lb - 1, CAP // k)
                sa, sb = A + [k], B + [k]
            elif op in ("dot", "inner"):
                la = draw(st.integers(1, 4))
                lb = draw(st.integers(1, 4))
                k = ext(draw, EMAX)
                n = ext(draw, EMAX) if (op == "dot" and lb >= 2) else 1
                fa = shape_of(draw, la - 1, CAP // (k * n))
                fbn = lb - 2 if op == "dot" else lb - 1
                fb = shape_of(draw, max(fbn, 0), CAP // (k * n * prod(fa)))
                sa = fa + [k]
                if op == "inner":
                    sb = fb + [k]
                else:
                    sb = fb + [k, n] if lb >= 2 else [k]
            elif op in ("outer", "kron"):
                la = draw(st.integers(1, 4))
                lb = draw(st.integers(1, 4))
                sa = shape_of(draw, la, CAP)
                sb = shape_of(draw, lb, max(1, CAP // prod(sa)))
            else:  # tensordot
                la = draw(st.integers(1, 4))
                lb = draw(st.integers(1, 4))
                lo = 0 if op == "tensordot/int" else 1
                L = draw(st.integers(lo, min(la, lb, 3)))
                c = shape_of(draw, L, 36)
                fa = shape_of(draw, la - L, CAP // prod(c))
                fb = shape_of(draw, lb - L, CAP // (prod(c) * prod(fa)))
                if op == "tensordot/pairs":
                    lax = draw(st.permutations(list(range(la))))[:L]
                    rax = draw(st.permutations(list(range(lb))))[:L]
                    sa = [0] * la
                    sb = [0] * lb
                    for i, j, e in zip(lax, rax, c):
                        sa[i] = e
                        sb[j] = e
                    it = iter(fa)
                    sa = [e if e else next(it) for e in sa]
                    it = iter(fb)
                    sb = [e if e else next(it) for e in sb]
                    lax = [x - la if draw(st.booleans()) else x for x in lax]
                    rax = [x - lb if draw(st.booleans()) else x for x in rax]
                    a = {"axes": [list(lax), list(rax)]}
                else:
                    sa = fa + c
                    sb = c + fb
                    a = {"axes": L}
                op = {"tensordot/int": "tensordot", "tensordot/ct": "tensordot_ct", "tensordot/pairs": "tensordot"}[op]
            arrays = [{"shape": sa, "data": data(draw, prod(sa))}, {"shape": sb, "data": data(draw, prod(sb))}]
            ev = draw(st.integers(0, EVAL_EVERY - 1)) == 0
            return pipe(arrays, [(op, [0, 1], a)], eval=ev)
        return case()

    # ---- oracle ----------------------------------------------------------
    def check(self, case, obs):
        cf = crash_failure(obs)
        if cf:
            return cf
        if "oob" in obs:
            # std::out_of_range escaped from a checked container access inside nmtools (every generated case is NumPy-valid)
            return "out-of-range container access inside nmtools for arguments the reference accepts: %s" % obs["oob"][:200]
        return refs.check_pipe(case, obs)

    def nontrivial(self, case):
        kind, val = refs.run_pipe(case)
        if kind != "ok":
            return False
        op, a, sa, sb, k, bc, r1 = structure(case)
        if op in NO_CONTRACTION:
            return val.size > 1 and prod(sa) > 1 and (sb is None or prod(sb) > 1)
        return k > 1 and val.size > 1

    def classes(self, case):
        op, a, sa, sb, k, bc, r1 = structure(case)
        name = op
        if op == "tensordot":
            name = "tensordot/int" if isinstance(a["axes"], int) else "tensordot/pairs"
        elif op == "tensordot_ct":
            name = "tensordot/ct"
        out = ["op:" + name]
        if sb is not None:
            out.append("dims:%dx%d" % (len(sa), len(sb)))
        else:
            out.append("dims:%d" % len(sa))
        if op in ("matmul", "matmulv2", "vecdot"):
            out.append("%s:bcast_batch:%s" % (op, "yes" if bc else "no"))
        if op in ("matmul", "matmulv2", "dot", "inner"):
            out.append("%s:rank1:%s" % (op, r1))
        if op in ("matmul", "matmulv2", "dot", "inner", "vecdot", "tensordot", "tensordot_ct", "trace"):
            out.append("contraction:%s" % ("1" if k == 1 else "2" if k == 2 else "3+"))
        if op in ("tensordot", "tensordot_ct"):
            ax = a["axes"]
            out.append("tensordot:naxes:%d" % (ax if isinstance(ax, int) else len(ax[0])))
        if op in ("trace", "diagonal"):
            out.append("%s:offset:%s" % (op, "neg" if a["offset"] < 0 else "pos" if a["offset"] > 0 else "0"))
            if a["axis1"] < 0 or a["axis2"] < 0:
                out.append("negative_axis")
        if op in ("tensordot",) and not isinstance(a["axes"], int) and any(x < 0 for l in a["axes"] for x in l):
            out.append("negative_axis")
        return out

    def features(self, case, failure):
        f = structural_features(case)
        f.update({"crash": failure.startswith("server crashed"), "oob": failure.startswith("out-of-range"),
                  "nothing": "returned Nothing" in failure, "shape_mismatch": failure.startswith("shape "),
                  "eval_only": failure.startswith("eval differs")})
        return f

    _known = None

    def excluded(self, case):
        """generator-level exclusion: a known_findings.json entry of this property with status "known" and an "exclude"
        dict over the structural features (op, lhs_dim, rhs_dim, rank1, any_rank1, bcast_batch, offset_sign, axes_kind, naxes)"""
        if C16._known is None:
            from ..core import load_known
            C16._known = [e for e in load_known(self.id) if e.get("status") == "known" and e.get("exclude")]
        if not C16._known or case.get("_witness"):
            return None
        f = structural_features(case)
        for e in C16._known:
            if all((f.get(k) in v) if isinstance(v, list) else (f.get(k) == v) for k, v in e["exclude"].items()):
                return e["id"]
        return None
