"""C18 — isequal / isclose are exact comparison oracles (shape-aware, symmetric, total)."""
import itertools

from hypothesis import strategies as st

from ..core import Prop
from .common import small_shapes, crash_failure, prod

ARRAYLIKE = ["vec", "arr", "nd", "view", "maybe_nd", "maybe_vec"]
ALL_FORMS = ["num", "vec", "arr", "nd", "view", "maybe_nd", "maybe_none", "either_l", "either_r", "maybe_vec", "nothing"]


def operand(form, shape, data):
    o = {"form": form, "data": list(data)}
    if form in ("nd", "view", "maybe_nd", "maybe_none"):
        o["shape"] = list(shape)
    return o


def forms_for(shape):
    """operand forms able to hold an array of this logical shape"""
    d = len(shape)
    if d == 0:
        return ["num", "either_l"]
    out = ["nd", "view", "maybe_nd"]
    if d == 1:
        out += ["vec", "maybe_vec", "either_r"]
        if 1 <= shape[0] <= 4:
            out.append("arr")
    return out


def logical(o):
    """(kind, shape, data) of an operand; kind in num / arr / none / either-tagged"""
    f = o["form"]
    if f in ("maybe_none", "nothing"):
        return ("none", None, None)
    if f in ("num", "either_l"):
        return ("num", (), o["data"][:1])
    shp = tuple(o["shape"]) if "shape" in o else (len(o["data"]),)
    return ("arr", shp, o["data"])


def expected_equal(a, b, eps=None):
    ka, sa, da = logical(a)
    kb, sb, db = logical(b)
    if ka == "none" or kb == "none":
        return ka == kb
    if ka != kb:
        return False
    if sa != sb:
        return False
    if eps is None:
        return list(da) == list(db)
    return all(abs(x - y) < eps for x, y in zip(da, db))


def static_supported(a, b):
    """pairings the API accepts (mirrors pair_supported in harness/srv_iseq.cpp)"""
    def cid(o):
        f = o["form"]
        if f == "nothing":
            return 3
        if f.startswith("either"):
            return 2
        if f == "num":
            return 0
        return 1
    def is_maybe(o):
        return o["form"].startswith("maybe")
    ca, cb = cid(a), cid(b)
    if a["form"] == "arr" and b["form"] == "arr" and len(a["data"]) != len(b["data"]):
        return False
    if ca == 3 or cb == 3:
        return (ca == 3) != (cb == 3) and (is_maybe(a) or is_maybe(b))
    if ca == 2 or cb == 2:
        return not (is_maybe(a) or is_maybe(b))
    return ca == cb


# ---- applicative comparison (apply_isequal / apply_isclose): nested lists, fixed arrays, tuples, optionals --------------------
NOTHING = "Nothing"
APPLY_VALUES = {
    "num": [1, 2],
    "vec": [[], [1], [2], [1, 2], [1, 2, 3], [1, 2, 4], [1, 3, 3]],
    "vecvec": [[], [[]], [[1]], [[1], [2]], [[1, 2]], [[1, 2], [3]], [[1, 2], [3, 4]], [[1, 2], [3, 5]], [[1, 2], [3, 4], [5, 6]]],
    "vecarr2": [[], [[1, 2]], [[1, 2], [3, 4]], [[1, 2], [3, 5]], [[1, 2], [3, 4], [5, 6]]],
    "arr": [[1], [2], [1, 2], [1, 3], [1, 2, 3], [1, 2, 4]],
    "tup": [[1, 2], [1, 3], [1, 2, 3], [1, 2, 4]],
    "maybe_num": [None, 1, 2],
    "maybe_vec": [None, [], [1, 2], [1, 2, 3]],
    "maybe_vecvec": [None, [[1, 2]], [[1, 2], [3]]],
    "nothing": [0],
}


def apply_type(o):
    f, v = o["form"], o["v"]
    if f == "nothing":
        return ("nothing",)
    if f.startswith("maybe_"):
        return ("maybe", apply_type({"form": f[6:], "v": None}))
    if f == "num":
        return ("num",)
    if f == "vec":
        return ("vec", ("num",))
    if f == "vecvec":
        return ("vec", ("vec", ("num",)))
    if f == "vecarr2":
        return ("vec", ("fixed", 2))
    return ("fixed", len(v))        # arr / tup


def apply_supported_t(a, b):
    """mirrors ap_supported in harness/srv_iseq.cpp"""
    na, nb, ma, mb = a[0] == "nothing", b[0] == "nothing", a[0] == "maybe", b[0] == "maybe"
    if na and nb:
        return False
    if ma and mb:
        return apply_supported_t(a[1], b[1])
    if (ma and nb) or (na and mb):
        return True
    if na or nb:
        return False
    if ma:
        return apply_supported_t(a[1], b)
    if mb:
        return apply_supported_t(a, b[1])
    if a[0] == "num" or b[0] == "num":
        return a[0] == b[0]
    if a[0] == "vec" and b[0] == "vec":
        return apply_supported_t(a[1], b[1])
    if a[0] == "vec":
        return a[1] == ("num",)
    if b[0] == "vec":
        return b[1] == ("num",)
    return a[1] == b[1]


def apply_expected(a, b):
    def val(o):
        return NOTHING if o["form"] == "nothing" else o["v"]

    def eq(x, y):
        if x is NOTHING or y is NOTHING:
            return (y if x is NOTHING else x) is None
        if x is None or y is None:
            return x is None and y is None
        if isinstance(x, list) != isinstance(y, list):
            return False
        if isinstance(x, list):
            return len(x) == len(y) and all(eq(p, q) for p, q in zip(x, y))
        return x == y
    return eq(val(a), val(b))


def apply_cases():
    ops = [{"form": f, "v": v} for f, vs in APPLY_VALUES.items() for v in vs]
    for a in ops:
        for b in ops:
            if (a["form"] in ("arr", "tup") and b["form"] in ("arr", "tup") and len(a["v"]) != len(b["v"])):
                continue                                  # fixed sizes differ: rejected at compile time
            if not apply_supported_t(apply_type(a), apply_type(b)):
                continue
            for nd in (False, True):
                yield {"op": "apply_isequal", "a": a, "b": b, "ndebug": nd}
                yield {"op": "apply_isclose", "a": a, "b": b, "ndebug": nd}


class C18(Prop):
    id = "C18"
    servers = ["iseq", "iseq_ndebug"]
    chunk = 300
    rule = ("case = (build, function, operand a, operand b[, eps]) with build in {asserts on, -DNDEBUG}; operands are numbers, index arrays (vector, std::array), "
            "ndarrays, lazy views, optionals (empty / non-empty), eithers, in every pairing the API accepts; pairs cover equal arrays, one perturbed element at every "
            "position, same size but different shape, prefixes / longer arrays, different sizes. Oracle: Python `a.shape == b.shape and all(a == b)` / `all(|a-b| < eps)`, "
            "Nothing == Nothing, Nothing != value, either alternative-wise; symmetry by swapping operands; no abort, no out-of-range read. "
            "non-trivial = operands differ in shape/length/alternative or in exactly one element; distinct = canonical JSON")
    assumptions = ["pairings rejected at compile time (fail type / static_assert) are outside the API and reported by the server as unsupported",
                   "isequal is judged on integer data, isclose on doubles with eps in {1e-6, 1e-3, 0.5} and perturbations well away from eps"]

    def server_of(self, case):
        return "iseq_ndebug" if case.get("ndebug") else "iseq"

    def request(self, case):
        return {k: v for k, v in case.items() if k != "ndebug"}

    def exhaustive_space(self, tier):
        return "ordered pairs of shapes dim 0..3 ext 1..3 (dim<=2 ext<=3 + dim 3 ext<=2 in quick) x compatible operand forms x {equal, each single perturbation} x 2 builds x {isequal, isclose}"

    def _pairs(self, tier):
        shapes = list(small_shapes(0, 2, 3)) + (list(small_shapes(3, 3, 3)) if tier == "thorough" else list(small_shapes(3, 3, 2)))
        return shapes

    def exhaustive(self, tier):
        shapes = self._pairs(tier)
        rot = 0
        for sa in shapes:
            na = prod(sa)
            da = list(range(1, na + 1))
            for sb in shapes:
                nb = prod(sb)
                variants = []
                if tuple(sa) == tuple(sb):
                    variants.append(list(da))
                    for k in range(nb):
                        v = list(da)
                        v[k] += 5
                        variants.append(v)
                else:
                    base = list(range(1, nb + 1))      # same leading data: prefix / same flat content
                    variants.append(base)
                    if nb >= 1:
                        v = list(base)
                        v[-1] += 5
                        variants.append(v)
                fa_all = forms_for(sa)
                fb_all = forms_for(sb)
                for db in variants:
                    for fa in fa_all:
                        for fb in fb_all:
                            rot += 1
                            if tier != "thorough" and len(fa_all) * len(fb_all) > 9 and rot % 3:
                                continue
                            a = operand(fa, sa, da)
                            b = operand(fb, sb, db)
                            if not static_supported(a, b):
                                continue
                            for nd in (False, True):
                                yield {"op": "isequal", "a": a, "b": b, "ndebug": nd}
                                yield {"op": "isequal", "a": b, "b": a, "ndebug": nd}
                                if fa not in ("vec", "arr", "maybe_vec", "either_l", "either_r") and fb not in ("vec", "arr", "maybe_vec", "either_l", "either_r"):
                                    af = dict(a, data=[float(x) for x in a["data"]])
                                    bf = dict(b, data=[float(x) + (1e-9 if rot % 2 else 0.0) for x in b["data"]])
                                    yield {"op": "isclose", "a": af, "b": bf, "eps": [1e-6, 1e-3, 0.5][rot % 3], "ndebug": nd}
        # isclose boundary: a difference of exactly eps is not "below eps" (binary-exact values)
        for sa in shapes[:12]:
            n = prod(sa)
            base = [float(i) for i in range(1, n + 1)]
            for k in range(n):
                for eps, delta in ((0.5, 0.5), (0.5, 0.25), (0.25, 0.25), (0.25, 0.125), (2.0, 2.0), (2.0, -2.0), (2.0, -1.5)):
                    other = list(base)
                    other[k] += delta
                    for f in (("nd", "view") if sa else ("num",)):
                        for nd in (False, True):
                            yield {"op": "isclose", "a": operand(f, sa, base), "b": operand("nd" if sa else "num", sa, other), "eps": eps, "ndebug": nd}
        # optionals
        for sa in shapes[1:8]:
            da = list(range(1, prod(sa) + 1))
            for nd in (False, True):
                none = {"form": "maybe_none", "data": [0], "shape": [1]}
                yield {"op": "isequal", "a": none, "b": none, "ndebug": nd}
                for f in ("nd", "maybe_nd", "view"):
                    yield {"op": "isequal", "a": none, "b": operand(f, sa, da), "ndebug": nd}
                    yield {"op": "isequal", "a": operand(f, sa, da), "b": none, "ndebug": nd}
                yield {"op": "isequal", "a": none, "b": {"form": "nothing", "data": [0]}, "ndebug": nd}
                yield {"op": "isequal", "a": operand("maybe_nd", sa, da), "b": {"form": "nothing", "data": [0]}, "ndebug": nd}
        # eithers
        for nd in (False, True):
            for x in (1, 2):
                for y in (1, 2):
                    yield {"op": "isequal", "a": operand("either_l", [], [x]), "b": operand("either_l", [], [y]), "ndebug": nd}
                    yield {"op": "isequal", "a": operand("either_l", [], [x]), "b": operand("num", [], [y]), "ndebug": nd}
                    yield {"op": "isequal", "a": operand("either_r", [2], [x, 3]), "b": operand("either_r", [2], [y, 3]), "ndebug": nd}
                    yield {"op": "isequal", "a": operand("either_r", [2], [x, 3]), "b": operand("vec", [2], [y, 3]), "ndebug": nd}
                    yield {"op": "isequal", "a": operand("either_l", [], [x]), "b": operand("either_r", [2], [y, 3]), "ndebug": nd}
                    yield {"op": "isequal", "a": operand("either_l", [], [x]), "b": operand("vec", [1], [y]), "ndebug": nd}
                    yield {"op": "isequal", "a": operand("either_r", [1], [x]), "b": operand("num", [], [y]), "ndebug": nd}

        yield from apply_cases()

    def n_random(self, tier):
        return 8000 if tier == "quick" else 200000

    def strategy(self, tier):
        @st.composite
        def case(draw):
            d = draw(st.integers(0, 3))
            sa = [draw(st.integers(1, 4)) for _ in range(d)]
            same = draw(st.integers(0, 2)) > 0
            sb = list(sa) if same else [draw(st.integers(1, 4)) for _ in range(draw(st.integers(0, 3)))]
            da = draw(st.lists(st.integers(-3, 3), min_size=prod(sa), max_size=prod(sa)))
            if draw(st.booleans()) and prod(sb) == prod(sa):
                db = list(da)
                if db and draw(st.booleans()):
                    k = draw(st.integers(0, len(db) - 1))
                    db[k] += draw(st.sampled_from([-1, 1, 7]))
            else:
                db = draw(st.lists(st.integers(-3, 3), min_size=prod(sb), max_size=prod(sb)))
            fa = draw(st.sampled_from(forms_for(sa)))
            fb = draw(st.sampled_from(forms_for(sb)))
            a, b = operand(fa, sa, da), operand(fb, sb, db)
            if not static_supported(a, b):
                a, b = operand("nd" if sa else "num", sa, da), operand("nd" if sb else "num", sb, db)
                if not static_supported(a, b):
                    b = dict(a)
            return {"op": "isequal", "a": a, "b": b, "ndebug": draw(st.booleans())}
        return case()

    # ---- known-finding classes ------------------------------------------------
    def _finding(self, case):
        if case["op"].startswith("apply_"):
            return None
        ka, sa, _ = logical(case["a"])
        kb, sb, _ = logical(case["b"])
        if ka == "arr" and kb == "arr" and sa != sb:
            if len(sa) == len(sb) and prod(sa) == prod(sb):
                return "C18-same-size-different-shape-compares-flat"
            return "C18-shape-mismatch-ndebug-ignored" if case.get("ndebug") else "C18-shape-mismatch-asserts"
        return None

    def excluded(self, case):
        return None if case.get("_witness") else self._finding(case)

    def features(self, case, failure):
        return {"finding": self._finding(case)}

    def nontrivial(self, case):
        a, b = case["a"], case["b"]
        if case["op"].startswith("apply_"):
            return a != b
        ka, sa, da = logical(a)
        kb, sb, db = logical(b)
        if ka != kb or sa != sb:
            return True
        return da is not None and sum(1 for x, y in zip(da, db) if x != y) == 1

    def classes(self, case):
        a, b = case["a"], case["b"]
        if case["op"].startswith("apply_"):
            return ["fn:" + case["op"], "build:" + ("ndebug" if case.get("ndebug") else "asserts"), "forms:%s/%s" % (a["form"], b["form"]),
                    "expected_equal" if apply_expected(a, b) else "expected_different"]
        ka, sa, _ = logical(a)
        kb, sb, _ = logical(b)
        out = ["fn:" + case["op"], "build:" + ("ndebug" if case.get("ndebug") else "asserts"), "forms:%s/%s" % (a["form"], b["form"])]
        out.append("same_shape" if (ka, sa) == (kb, sb) else "different_shape")
        return out

    def check(self, case, obs):
        cf = crash_failure(obs)
        if cf:
            return "not total: " + cf
        if "oob" in obs:
            return "read outside an operand: " + obs["oob"][:120]
        if "error" in obs:
            return "HARNESS-ERROR server: " + obs["error"]
        if "unsupported" in obs:
            return "HARNESS-ERROR pairing table mismatch: " + obs["unsupported"]
        if case["op"].startswith("apply_"):
            exp = apply_expected(case["a"], case["b"])
            if obs["r"] != exp:
                return "%s(%s %s, %s %s) = %s, expected %s" % (case["op"], case["a"]["form"], case["a"]["v"], case["b"]["form"], case["b"]["v"], obs["r"], exp)
            return None
        exp = expected_equal(case["a"], case["b"], case.get("eps"))
        if obs["r"] != exp:
            return "%s(%s %s, %s %s) = %s, expected %s" % (case["op"], case["a"]["form"], logical(case["a"])[1:], case["b"]["form"], logical(case["b"])[1:], obs["r"], exp)
        return None
