"""C02 — element access through arrays and views never leaves the operands' storage."""
import numpy as np
from hypothesis import strategies as st

from ..core import Prop
from .. import refs, pipegen
from . import c15, c05, c04
from .common import small_shapes, crash_failure, prod, arange_array, pipe

LEAF_KINDS = ["dyn", "col", "hb", "hs", "hb_col"]
BAD_EVENTS = {1: "utl::array index >= N", 2: "static_vector index >= Capacity", 3: "utl::vector index >= size",
              4: "static_vector asked to hold more than its capacity", 7: "ndarray index >= extent", 8: "ndarray offset >= buffer length"}


class C02(Prop):
    id = "C02"
    servers = ["views"]
    chunk = 100
    rule = ("case = a view (pipeline depth 1..3, or one operation with arguments from its full small space incl. the part NumPy rejects) over leaf arrays of "
            "five storage kinds (dynamic row/column-major, bounded static_vector buffer row/column-major, bounded static_vector shape). If nmtools ACCEPTS the "
            "arguments, every element of the reported shape is read through the view and the view is evaluated through four eval paths. Oracle = monitors only: "
            "no ASan/UBSan report, no _GLIBCXX_ASSERTIONS abort, no checked-container out_of_range, no hook event of kind index>=extent / offset>=buffer length / "
            "container index >= size / capacity overflow (hooks H1, H2, H5). non-trivial = accepted, > 1 element, some stage is not the identity mapping; "
            "distinct = canonical JSON")
    assumptions = ["monitor oracle: values are judged by C03-C08/C16/C17, not here",
                   "members of the known-finding input classes of C04/C05/C08/C15/C16 (whose symptom is an out-of-range access) are excluded and counted; "
                   "their witnesses are replayed by the owning property"]

    def exhaustive_space(self, tier):
        return "C15's invalid-including argument space for 14 operations x 5 leaf storage kinds (rotated) + C05 conforming slices + C04 argument space on bounded leaves"

    def _with_kind(self, case, k):
        c = dict(case)
        c["arrays"] = [dict(a, kind=LEAF_KINDS[(k + i) % len(LEAF_KINDS)]) for i, a in enumerate(case["arrays"])]
        c["eval"] = True
        return c

    def exhaustive(self, tier):
        th = tier == "thorough"
        k = 0
        shapes = [[2], [3], [2, 3], [1, 3], [2, 1, 2]] + ([[3, 2, 2], [4], [2, 2]] if th else [])
        for shape in shapes:
            for op in c15.UNARY_OPS:
                args = list(c15.arg_space(op, shape, th))
                step = 1 if (th or len(args) <= 80) else max(1, len(args) // 80)
                for a in args[::step]:
                    k += 1
                    yield self._with_kind(pipe([arange_array(shape, start=1)], [(op, [0], a)]), k)
        for op, a, b, args in c15.binary_space(False):
            k += 1
            if th or k % 3 == 0:
                yield self._with_kind(pipe([arange_array(a, start=1), arange_array(b, start=50)], [(op, [0, 1], args)]), k)
        # every C04 operation on bounded / column-major leaves
        for shape in ([2, 3], [3, 1, 2], [4]):
            for op in c04.UNARY:
                args = list(c04.args_unary(op, shape, False))
                for a in args[:: max(1, len(args) // (30 if th else 10))]:
                    k += 1
                    yield self._with_kind(pipe([arange_array(shape, start=1)], [(op, [0], a)]), k)
        # slices: all specs of the conforming region (the rest are C05's known findings)
        for n in range(1, 6):
            for sp in c05.all_specs(n, -(n + 2), n + 2):
                f = c05.packed_op([sp])
                k += 1
                yield self._with_kind(pipe([arange_array([n], start=1)], [(f, [0], {"slices": [sp]})]), k)

    def n_random(self, tier):
        return 8000 if tier == "quick" else 200000

    def strategy(self, tier):
        @st.composite
        def case(draw):
            c = draw(pipegen.pipelines(max_depth=3))
            k = draw(st.integers(0, 4))
            # multi-axis packed slices exist for the int operand type only; leaf kinds are int/f64 agnostic
            return self._with_kind(c, k)
        return case()

    def excluded(self, case):
        if case.get("_witness"):
            return None
        return c15.C15().excluded(dict(case, op="pipe"))

    def features(self, case, failure):
        c = dict(case)
        c.pop("_witness", None)
        return {"ops": ",".join(s["f"] for s in case["stages"]), "class": c15.C15().excluded(dict(c, op="pipe"))}

    def nontrivial(self, case):
        kind, val = refs.run_pipe(case)
        if kind != "ok":
            return True   # arguments the reference rejects: the interesting question is what nmtools does with them
        src = refs.make_array(case["arrays"][0])
        return val.size > 1 and (val.shape != src.shape or val.reshape(-1).tolist() != src.reshape(-1).tolist())

    def classes(self, case):
        out = ["depth:%d" % len(case["stages"])] + ["leaf:" + a.get("kind", "dyn") for a in case["arrays"][:1]]
        kind, _ = refs.run_pipe(case)
        out.append("ref:" + kind)
        out.append("op:" + case["stages"][0]["f"])
        return out

    def check(self, case, obs):
        classes, _ = c15.C15()._stage_classes(case)
        if "ood" in classes:
            return None   # argument outside the documented domain (no agreed reference) or zero-size reference result: not judged
        cf = crash_failure(obs)
        if cf:
            return cf
        if "oob" in obs:
            return "checked container access out of range inside the library: " + obs["oob"][:140]
        if obs.get("timeout"):
            return "HARNESS-ERROR " + obs.get("error", "timeout")
        if "error" in obs:
            return "HARNESS-ERROR server: " + obs["error"]
        for e in obs.get("events", []):
            if e[0] in BAD_EVENTS:
                return "hook event: %s (value %d, bound %d)" % (BAD_EVENTS[e[0]], e[1], e[2])
        if obs.get("huge"):
            return "accepted view reports a garbage (wrapped-around) shape %s" % obs.get("shape")
        return None
