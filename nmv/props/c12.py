"""C12 — SIMD evaluation equals scalar evaluation for every size, shape and layout."""
import os
import zlib

import numpy as np
from hypothesis import strategies as st

from ..core import Prop
from .common import crash_failure, prod

# ---------------------------------------------------------------------------
# configuration space
# ---------------------------------------------------------------------------
CTX_BITS = {"x86_SSE": 128, "x86_AVX": 256, "vector_128": 128, "vector_256": 256, "vector_512": 512, "simde_AVX512": 512}
CTXS = list(CTX_BITS)
DTS = ["f32", "f64"]
INT_DTS = ["i32", "i64"]          # integer element types: binary / reduce / outer add, subtract, multiply and matmul where they compile
DT_BITS = {"f32": 32, "f64": 64, "i32": 32, "i64": 64}
VECTOR_CTXS = ("vector_128", "vector_256", "vector_512")
NPDT = {"f32": np.float32, "f64": np.float64}
EPS = {"f32": float(np.finfo(np.float32).eps), "f64": float(np.finfo(np.float64).eps)}

# op -> (parameters, data scale, positive data only, boundary values); parameters are exact in float32
UNARY = {
    "sqrt": ([], 1.0, True, [0.0, 1.0, 4.0, 0.25]),
    "ceil": ([], 1.0, False, [0.0, 1.0, -1.0, 2.0, -2.0, 0.5, -0.5]),
    "floor": ([], 1.0, False, [0.0, 1.0, -1.0, 2.0, -2.0, 0.5, -0.5]),
    "relu": ([], 1.0, False, [0.0, 1.0, -1.0]),
    "relu6": ([], 4.0, False, [0.0, 6.0, -6.0, 5.5, 6.5]),
    "hardtanh": ([-1.0, 1.5], 1.0, False, [-1.0, 1.5, 0.0, 1.0, -1.5]),
    "leaky_relu": ([0.125], 1.0, False, [0.0, 1.0, -1.0]),
    "prelu": ([0.25], 1.0, False, [0.0, 1.0, -1.0]),
    "softshrink": ([1.0], 1.0, False, [1.0, -1.0, 0.0, 1.25, -1.25, 0.75, -0.75]),
    "hardshrink": ([1.0], 1.0, False, [1.0, -1.0, 0.0, 1.25, -1.25, 0.75, -0.75]),
    "softsign": ([], 1.0, False, [0.0, 1.0, -1.0]),
    "hardswish": ([], 2.5, False, [3.0, -3.0, 0.0, 2.5, -2.5, 3.5, -3.5]),
}
BINARY = ["add", "subtract", "multiply", "divide"]
REDUCE = ["add", "multiply", "subtract"]     # divide has no reduce / outer
OUTER = ["add", "multiply", "subtract"]

# (ctx, op, dtype, form) combinations that do not compile (rejected programs, not defects)
UNSUPPORTED = [
    ("*", "reciprocal", "*", "unary", "no simd::ufunc_simd_t specialisation"),
    ("*", "divide", "*", "reduce/outer", "na::divide has no reduce / outer"),
    ("*", "subtract", "*", "reduce axis=None / axis list", "view::reduce_subtract static_asserts a single integral axis"),
    ("*", "*", "*", "reduce keepdims=None", "index::remove_dims cannot convert None to bool"),
    ("*", "matmul", "*", "matmul with row-major rhs", "SIMD matmul evaluator static_asserts a column-major rhs"),
    ("simde_AVX512", "matmul", "f64", "matmul", "simd_op_t<simde_avx512_t,double>::fmadd calls simde_mm512_fmadd_ps"),
    ("*", "unary ops", "i*", "unary", "eval_unary static_asserts a floating point element type"),
    ("*", "*", "i8/i16/u*", "*", "8/16-bit elements do not compile (integer promotion changes the result type); unsigned not generated"),
    ("*", "divide", "i32/i64", "binary", "no integer div in the x86/SIMDe wrappers; not instantiated for the vector extensions (NumPy true division is no reference)"),
    ("x86_SSE/x86_AVX", "multiply", "i64", "binary/reduce/outer", "no 64-bit integer mul in simd_op_t"),
    ("x86_AVX/simde_AVX512", "matmul", "i32", "matmul", "no integer fmadd"),
    ("x86_SSE/x86_AVX/simde_AVX512", "matmul", "i64", "matmul", "no integer fmadd"),
    ("*", "*", "i32/i64", "column-major operands; reduce keepdims/initial variants", "not instantiated in the server (compile time)"),
]

# finding classes confirmed as genuine defects of the library (excluded by construction; see _finding)
KNOWN_IDS = [
    "C12-colmajor-operand-read-flat",
    "C12-reduce-single-output-zero-seed",
    "C12-reduce-initial-ignored",
    "C12-reduce-subtract-not-left-fold",
    "C12-reduce-multi-axis-not-evaluated",
    "C12-binary-broadcast-non-2d",
    "C12-binary-1x1-operand-oob",
    "C12-reduce-negative-axis-not-normalised",
    "C12-vector-ext-uninitialised-upper-lanes",
]


def lanes(ctx, dt):
    return CTX_BITS[ctx] // DT_BITS[dt]


def is_int(dt):
    return dt in INT_DTS


def op_ok(ctx, dt, f):
    """integer combinations that compile (mirrors mul_ok_v in harness/srv_simd.cpp)"""
    if not is_int(dt):
        return True
    if f == "divide":
        return False
    if f == "multiply" and dt == "i64":
        return ctx in VECTOR_CTXS or ctx == "simde_AVX512"
    return True


def matmul_ok(ctx, dt):
    """mirrors matmul_ok_v in harness/srv_simd.cpp"""
    if dt == "f32":
        return True
    if dt == "f64":
        return ctx != "simde_AVX512"
    if dt == "i32":
        return ctx == "x86_SSE" or ctx in VECTOR_CTXS
    return ctx in VECTOR_CTXS


# ---------------------------------------------------------------------------
# data: deterministic pseudo-random values in +-[0.5, 2] * scale (never arange: products stay informative,
# a wrong identity element or a dropped tail element changes the result)
# ---------------------------------------------------------------------------
def rnd(dt, x):
    return float(np.float32(x)) if dt == "f32" else float(x)


def lcg_data(key, n, dt, scale=1.0, positive=False, product=False):
    s = zlib.crc32(key.encode()) or 1
    out = []
    if is_int(dt):
        # non-zero integers in +-[1, 9]; for products: +-1 everywhere except +-{2, 3} at <= 18 positions counted from the END
        # (the tail elements are the informative ones), so that no int32 product overflows
        step = max(1, -(-n // 18))
        for i in range(n):
            s = (s * 1664525 + 1013904223) & 0xFFFFFFFF
            if product:
                v = 2 + ((s >> 9) & 1) if (n - 1 - i) % step == 0 else 1
            else:
                v = 1 + ((s >> 8) % 9)
            out.append(-v if (s >> 27) & 1 else v)
        return out
    for _ in range(n):
        s = (s * 1664525 + 1013904223) & 0xFFFFFFFF
        u = ((s >> 8) & 0xFFFF) / 65536.0
        v = (0.5 + 1.5 * u) * scale
        if not positive and (s >> 27) & 1:
            v = -v
        out.append(rnd(dt, v))
    return out


def operand(shape, data, layout="row"):
    return {"shape": list(shape), "data": list(data), "layout": layout}


def mk(ctx, f, form, dt, a, b=None, **kw):
    c = {"op": "simd", "ctx": ctx, "f": f, "form": form, "dt": dt, "a": a}
    if b is not None:
        c["b"] = b
    if form == "unary" and UNARY[f][0]:
        c["p"] = list(UNARY[f][0])
    if form == "reduce":
        c["axis"] = kw.get("axis")
        c["keepdims"] = kw.get("keepdims")
        c["initial"] = kw.get("initial")
    return c


def arr_of(o, dt):
    return np.array(o["data"], dtype=np.int64 if is_int(dt) else np.float64).reshape(o["shape"])


# ---------------------------------------------------------------------------
# references (NumPy float64 on the very same, already dtype-rounded, data)
# ---------------------------------------------------------------------------
def ref_unary(f, x, p):
    if f == "sqrt":
        return np.sqrt(x)
    if f == "ceil":
        return np.ceil(x)
    if f == "floor":
        return np.floor(x)
    if f == "relu":
        return np.maximum(x, 0.0)
    if f == "relu6":
        return np.minimum(np.maximum(x, 0.0), 6.0)
    if f == "hardtanh":
        return np.clip(x, p[0], p[1])
    if f in ("leaky_relu", "prelu"):
        return np.where(x >= 0, x, x * p[0])
    if f == "softshrink":
        return np.where(x > p[0], x - p[0], np.where(x < -p[0], x + p[0], 0.0))
    if f == "hardshrink":
        return np.where(np.abs(x) > p[0], x, 0.0)
    if f == "softsign":
        return x / (1.0 + np.abs(x))
    if f == "hardswish":
        return np.where(x <= -3.0, 0.0, np.where(x >= 3.0, x, x * (x + 3.0) / 6.0))
    raise KeyError(f)


NPBIN = {"add": np.add, "subtract": np.subtract, "multiply": np.multiply, "divide": np.divide}


def norm_axis(axis, dim):
    if axis is None:
        return None
    if isinstance(axis, list):
        return tuple(a % dim for a in axis)
    return axis % dim


def ref_reduce(f, x, axis, keepdims, initial):
    """returns (reference, magnitude bound S, number of terms n): |fl(result) - result| <= n * eps * S for any association"""
    kd = keepdims in (True, "ct_true")
    ax = norm_axis(axis, x.ndim)
    kw = {} if initial is None else {"initial": initial}
    ufn = NPBIN[f]
    r = ufn.reduce(x, axis=ax, keepdims=kd, **kw)
    ab = np.abs(x)
    if f == "multiply":
        S = np.multiply.reduce(ab, axis=ax, keepdims=kd, **({} if initial is None else {"initial": abs(initial)}))
    else:
        S = np.add.reduce(ab, axis=ax, keepdims=kd, **({} if initial is None else {"initial": abs(initial)}))
    n = x.size if ax is None else (prod([x.shape[a] for a in ax]) if isinstance(ax, tuple) else x.shape[ax])
    return r, S, n + (0 if initial is None else 1)


# ---------------------------------------------------------------------------
# the property
# ---------------------------------------------------------------------------
class C12(Prop):
    id = "C12"
    servers = ["simd"]
    chunk = 250
    rule = ("case = (context in {x86_SSE, x86_AVX, vector_128/256/512, simde_AVX512}, op, dtype in {f32, f64; i32, i64 for binary/reduce/outer add, subtract, multiply and matmul where they compile}, form in {unary, binary, reduce, outer, matmul}, operands "
            "(dynamic ndarrays, row- or column-major storage), [axis, keepdims, initial]). The server evaluates the SAME call twice on the same operands: "
            "na::fn(args..., simd_context) and na::fn(args...) (default evaluator) and reports shape, element type and every element of both. Oracle: same shape and "
            "element type, equal to the NumPy result shape; unary / binary / broadcast / outer elements identical to the scalar path (and within 4 eps of a NumPy float64 "
            "reference); reductions and matmul within n*eps*sum|terms| (prod|x| for multiply) of the scalar path AND of the float64 reference; integer results equal exactly (simd = scalar = NumPy int64, data chosen overflow-free); the ASan+UBSan server must not crash. "
            "Exhaustive: every 1-d length 1..4*lanes+1 for every unary/binary op x context x dtype; 2-d shapes with every broadcast pattern and extents around multiples of the "
            "lane count; 1..3-d reductions over every axis, axis=None and an axis list, keepdims {default, true, false, True, False}, with/without initial; outer and matmul shapes "
            "around lane multiples; row- and column-major operands. Data are LCG pseudo-random values in +-[0.5, 2] (scaled per activation so that every branch is taken, plus "
            "the activation's boundary values), Hypothesis-drawn floats in the random tier. non-trivial = extent not a multiple of the lane count, broadcast, axis reduction "
            "or column-major operand; distinct = canonical JSON")
    assumptions = ["built with -mavx2 -mfma -mavx512f -ffp-contract=off -O1 (no auto-vectorisation / contraction of the scalar path), ASan+UBSan, asserts on",
                   "+0.0 and -0.0 compare equal; NaN equals NaN",
                   "the installed SIMDe 0.7.4 lacks simde_kxor_mask*/simde_knot_mask*; the server supplies one-line shims (a^b, ~a) before including simde_avx512.hpp",
                   "combinations that do not compile are unsupported (listed in UNSUPPORTED): reciprocal, divide.reduce/outer, subtract.reduce with axis None/list, keepdims=None, "
                   "matmul with a row-major rhs, simde_AVX512 matmul f64, unary ops / divide / 8- and 16-bit elements on integers, int64 multiply on x86_SSE/x86_AVX, integer matmul "
                   "without an integer fmadd",
                   "integer operands are row-major only and reduce uses the default keepdims / no initial (server instantiation budget); integer data are overflow-free by construction",
                   "input classes of the known findings (KNOWN_IDS, see _findings) are excluded by construction; NMV_C12_EXCLUDE=id,... adds ids, NMV_NO_EXCLUDE=1 disables all exclusions"]

    # NMV_C12_CTXS=x86_AVX,... restricts a run to some contexts and then uses the per-context servers simd_<ctx> (same objects as the
    # full server "simd", 9 instead of 49 translation units each): meant for mutation runs, where every header change rebuilds everything
    def __init__(self):
        sel = [c for c in os.environ.get("NMV_C12_CTXS", "").split(",") if c]
        self.ctxs = [c for c in CTXS if c in sel] if sel else list(CTXS)
        self.per_ctx = bool(sel)
        self.servers = ["simd_" + c for c in self.ctxs] if sel else ["simd"]

    def server_of(self, case):
        return "simd_" + case["ctx"] if self.per_ctx else "simd"

    # ------------------------------------------------------------------ exhaustive tier
    def exhaustive_space(self, tier):
        return ("%d context(s) x {f32, f64; i32, i64 without unary} x {12 unary ops: n=1..4L+1 + 2-d shapes x 2 layouts + boundary values; 4 binary ops: n=1..4L+1 + 12 broadcast patterns x (n,m) around lane "
                "multiples + layout pairs; reduce add/multiply/subtract: 1..3-d shapes x every axis/None/list x keepdims kinds x initial x 2 layouts (%s); outer add/multiply/subtract; "
                "matmul (n,k)x(k,m) around lane multiples x 2 lhs layouts}" % (len(self.ctxs), "full cross" if tier == "thorough" else "every keepdims kind without initial + one rotating kind with initial"))

    def exhaustive(self, tier):
        for ctx in self.ctxs:
            for dt in DTS:
                yield from self._unary_cases(ctx, dt, tier)
                yield from self._binary_cases(ctx, dt, tier)
                yield from self._reduce_cases(ctx, dt, tier)
                yield from self._outer_cases(ctx, dt, tier)
                yield from self._matmul_cases(ctx, dt, tier)
            for dt in INT_DTS:
                yield from self._binary_cases(ctx, dt, tier)
                yield from self._reduce_cases(ctx, dt, tier)
                yield from self._outer_cases(ctx, dt, tier)
                yield from self._matmul_cases(ctx, dt, tier)

    def _unary_cases(self, ctx, dt, tier):
        L = lanes(ctx, dt)
        for f, (p, scale, pos, bnd) in UNARY.items():
            for n in range(1, 4 * L + 2):
                yield mk(ctx, f, "unary", dt, operand([n], lcg_data("u%s%s%s%d" % (ctx, dt, f, n), n, dt, scale, pos)))
            # boundary values of the activation at every lane position / in the tail
            for n in (L, 2 * L + 1, 3 * L - 1):
                if n >= 1:
                    data = [rnd(dt, bnd[(i + n) % len(bnd)]) for i in range(n)]
                    yield mk(ctx, f, "unary", dt, operand([n], data))
            for n in (1, 2, 3):
                for m in sorted({1, max(1, L - 1), L, L + 1, 2 * L + 1}):
                    for layout in ("row", "col"):
                        yield mk(ctx, f, "unary", dt, operand([n, m], lcg_data("u2%s%s%s%d%d" % (ctx, dt, f, n, m), n * m, dt, scale, pos), layout))
            for shape in ([2, 2, L + 1], [2, 3, L]):
                for layout in ("row", "col"):
                    yield mk(ctx, f, "unary", dt, operand(shape, lcg_data("u3%s%s%s%s" % (ctx, dt, f, shape), prod(shape), dt, scale, pos), layout))

    @staticmethod
    def bcast_patterns(n, m):
        return [([n, m], [n, m]), ([n, 1], [1, m]), ([1, m], [n, 1]), ([n, m], [1, m]), ([1, m], [n, m]), ([n, m], [n, 1]), ([n, 1], [n, m]),
                ([n, m], [1, 1]), ([1, 1], [n, m]), ([n, m], [m]), ([m], [n, m]), ([n, 1], [m])]

    def _binary_cases(self, ctx, dt, tier):
        L = lanes(ctx, dt)
        ms = sorted({1, 2, max(1, L - 1), L, L + 1, 2 * L, 2 * L + 1, 3 * L + 2})
        rot = 0
        for f in BINARY:
            if not op_ok(ctx, dt, f):
                continue
            for n in range(1, 4 * L + 2):
                yield mk(ctx, f, "binary", dt, operand([n], lcg_data("ba%s%s%s%d" % (ctx, dt, f, n), n, dt)), operand([n], lcg_data("bb%s%s%s%d" % (ctx, dt, f, n), n, dt)))
            for n in (1, 2, 3):
                for m in ms:
                    for sa, sb in self.bcast_patterns(n, m):
                        rot += 1
                        pairs = [("row", "row")]
                        if (len(sa) == 2 or len(sb) == 2) and not is_int(dt):
                            extra = [("col", "col"), ("row", "col"), ("col", "row")]
                            pairs += extra if tier == "thorough" else [extra[rot % 3]]
                        for la, lb in pairs:
                            yield mk(ctx, f, "binary", dt,
                                     operand(sa, lcg_data("Ba%s%s%s%s%s" % (ctx, dt, f, sa, sb), prod(sa), dt), la),
                                     operand(sb, lcg_data("Bb%s%s%s%s%s" % (ctx, dt, f, sa, sb), prod(sb), dt), lb))
            # 3-d same shape and 3-d broadcast
            for sa, sb in (([2, 2, L + 1], [2, 2, L + 1]), ([2, 1, L + 1], [1, 3, L + 1]), ([2, 3, L], [L])):
                yield mk(ctx, f, "binary", dt, operand(sa, lcg_data("B3a%s%s%s%s" % (ctx, dt, f, sa), prod(sa), dt)), operand(sb, lcg_data("B3b%s%s%s%s" % (ctx, dt, f, sb), prod(sb), dt)))

    KD = [None, True, False, "ct_true", "ct_false"]

    def _reduce_cases(self, ctx, dt, tier):
        L = lanes(ctx, dt)
        shapes = [[n] for n in range(1, 4 * L + 2)]
        shapes += [[n, m] for n in sorted({1, 2, 3, L + 1}) for m in sorted({1, 2, max(1, L - 1), L, L + 1, 2 * L + 1})]
        shapes += [[p, n, m] for p in (1, 2) for n in (1, 3) for m in sorted({1, 2, L, L + 1, 2 * L + 1})]
        shapes += [[2, L + 1, 3], [3, 2 * L, 2], [L + 1, 2, L + 1]]
        combos = [(kd, ini) for kd in self.KD for ini in (None, 1.5)]
        rot = 0
        for f in REDUCE:
            if not op_ok(ctx, dt, f):
                continue
            for shape in shapes:
                d = len(shape)
                axes = list(range(d)) + [-k for k in range(1, d + 1)]
                if f != "subtract":
                    axes += [None, list(range(d))[:2] if d > 1 else [0]]
                    if d == 3:
                        axes.append([0, 2])
                for axis in axes:
                    for layout in (("row", "col") if d > 1 and not is_int(dt) else ("row",)):
                        if isinstance(axis, list) or is_int(dt):
                            sel = [(None, None)]                      # only the default keepdims / no initial is instantiated for axis lists and integers
                        elif tier == "thorough":
                            sel = combos
                        elif f == "subtract":
                            rot += 1
                            sel = [(self.KD[rot % 5], None)]
                        else:
                            rot += 1
                            sel = [(kd, None) for kd in self.KD] + [(self.KD[rot % 5], 1.5)]
                        for kd, ini in sel:
                            data = lcg_data("r%s%s%s%s" % (ctx, dt, f, shape), prod(shape), dt, product=(f == "multiply"))
                            yield mk(ctx, f, "reduce", dt, operand(shape, data, layout), axis=axis, keepdims=kd, initial=ini)

    def _outer_cases(self, ctx, dt, tier):
        L = lanes(ctx, dt)
        sas = [[1], [2], [3], [L + 1], [2, 2], [1, 3], [2, 1, 2]]
        sbs = [[m] for m in sorted({1, 2, max(1, L - 1), L, L + 1, 2 * L + 1, 3 * L + 2})] + [[2, m] for m in sorted({1, L, L + 1})] + [[2, 1, L + 1]]
        rot = 0
        for f in OUTER:
            if not op_ok(ctx, dt, f):
                continue
            for sa in sas:
                for sb in sbs:
                    rot += 1
                    pairs = [("row", "row")]
                    if len(sa) > 1 and not is_int(dt):
                        pairs.append(("col", "row"))
                    if len(sb) > 1 and not is_int(dt):
                        pairs.append(("row", "col"))
                    for la, lb in pairs:
                        yield mk(ctx, f, "outer", dt,
                                 operand(sa, lcg_data("oa%s%s%s%s%s" % (ctx, dt, f, sa, sb), prod(sa), dt), la),
                                 operand(sb, lcg_data("ob%s%s%s%s%s" % (ctx, dt, f, sa, sb), prod(sb), dt), lb))

    def _matmul_cases(self, ctx, dt, tier):
        if not matmul_ok(ctx, dt):
            return
        L = lanes(ctx, dt)
        for n in (1, 2, 3):
            for k in sorted({1, 2, max(1, L - 1), L, L + 1, 2 * L, 2 * L + 1, 3 * L + 2}):
                for m in sorted({1, 2, 3, L + 1}):
                    for la in (("row",) if is_int(dt) else ("row", "col")):
                        yield mk(ctx, "matmul", "matmul", dt,
                                 operand([n, k], lcg_data("ma%s%s%d%d%d" % (ctx, dt, n, k, m), n * k, dt), la),
                                 operand([k, m], lcg_data("mb%s%s%d%d%d" % (ctx, dt, n, k, m), k * m, dt), "col"))

    # ------------------------------------------------------------------ random tier
    def n_random(self, tier):
        return 24000 if tier == "quick" else 400000

    def strategy(self, tier):
        ctxs = self.ctxs

        @st.composite
        def case(draw):
            ctx = draw(st.sampled_from(ctxs))
            dt = draw(st.sampled_from(DTS + DTS + INT_DTS))
            form = draw(st.sampled_from(["unary", "binary", "reduce", "outer", "matmul"]))
            if (form == "matmul" and not matmul_ok(ctx, dt)) or (form == "unary" and is_int(dt)):
                dt = "f32"
            L = lanes(ctx, dt)
            ints = is_int(dt)

            def ext(hi=None):
                hi = hi or 3 * L + 2
                return draw(st.one_of(st.integers(1, min(hi, 4)), st.integers(1, hi), st.sampled_from([max(1, L - 1), L, L + 1, 2 * L, 2 * L + 1])))

            def values(n, scale=1.0, positive=False, product=False):
                if ints:
                    if product:   # at most 18 factors of magnitude 2..3, the rest +-1: no int32 overflow
                        big = draw(st.sets(st.integers(0, n - 1), max_size=min(n, 18)))
                        return [(draw(st.sampled_from([2, 3])) if i in big else 1) * draw(st.sampled_from([1, -1])) for i in range(n)]
                    return [draw(st.integers(1, 9)) * draw(st.sampled_from([1, -1])) for _ in range(n)]
                mag = draw(st.lists(st.floats(0.5, 2.0, allow_nan=False, width=32), min_size=n, max_size=n))
                if positive:
                    return [rnd(dt, v * scale) for v in mag]
                sg = draw(st.lists(st.booleans(), min_size=n, max_size=n))
                return [rnd(dt, (v if s else -v) * scale) for v, s in zip(mag, sg)]

            def layout():
                return "row" if ints else draw(st.sampled_from(["row", "row", "col"]))

            if form == "unary":
                f = draw(st.sampled_from(list(UNARY)))
                p, scale, pos, bnd = UNARY[f]
                d = draw(st.integers(1, 3))
                shape = [draw(st.integers(1, 3)) for _ in range(d - 1)] + [ext()]
                data = values(prod(shape), scale, pos)
                if draw(st.booleans()):
                    k = draw(st.integers(0, len(data) - 1))
                    data[k] = rnd(dt, draw(st.sampled_from(bnd)))
                return mk(ctx, f, "unary", dt, operand(shape, data, layout()))
            if form == "binary":
                f = draw(st.sampled_from([g for g in BINARY if op_ok(ctx, dt, g)]))
                if draw(st.booleans()):
                    d = draw(st.integers(1, 3))
                    sa = [draw(st.integers(1, 3)) for _ in range(d - 1)] + [ext()]
                    sb = list(sa)
                else:
                    n, m = draw(st.integers(1, 4)), ext()
                    sa, sb = draw(st.sampled_from(C12.bcast_patterns(n, m)))
                return mk(ctx, f, "binary", dt, operand(sa, values(prod(sa)), layout()), operand(sb, values(prod(sb)), layout()))
            if form == "reduce":
                f = draw(st.sampled_from([g for g in REDUCE if op_ok(ctx, dt, g)]))
                d = draw(st.integers(1, 3))
                shape = [draw(st.integers(1, 4)) for _ in range(d - 1)] + [ext()]
                if d > 1 and draw(st.booleans()):
                    k = draw(st.integers(0, d - 2))
                    shape[k], shape[-1] = shape[-1], shape[k]
                kinds = ["int"] if f == "subtract" else ["int", "int", "none", "list"]
                kind = draw(st.sampled_from(kinds))
                if kind == "int":
                    axis = draw(st.integers(-d, d - 1))
                    kd = draw(st.sampled_from(C12.KD))
                    ini = draw(st.sampled_from([None, None, 1.5, -0.75]))
                elif kind == "none":
                    axis = None
                    kd = draw(st.sampled_from(C12.KD))
                    ini = draw(st.sampled_from([None, None, 1.5, -0.75]))
                else:
                    axis = sorted(draw(st.sets(st.integers(0, d - 1), min_size=1, max_size=d)))
                    kd, ini = draw(st.sampled_from([None, "ct_false"])), None
                if ints:
                    kd, ini = draw(st.sampled_from([None, "ct_false"])), None
                return mk(ctx, f, "reduce", dt, operand(shape, values(prod(shape), product=(f == "multiply")), layout()), axis=axis, keepdims=kd, initial=ini)
            if form == "outer":
                f = draw(st.sampled_from([g for g in OUTER if op_ok(ctx, dt, g)]))
                sa = [draw(st.integers(1, 3)) for _ in range(draw(st.integers(1, 2)))]
                sb = [draw(st.integers(1, 3)) for _ in range(draw(st.integers(0, 1)))] + [ext()]
                la, lb = layout(), layout()
                if la == "col" and lb == "col":
                    lb = "row"
                return mk(ctx, f, "outer", dt, operand(sa, values(prod(sa)), la), operand(sb, values(prod(sb)), lb))
            n, k, m = draw(st.integers(1, 4)), ext(), draw(st.integers(1, L + 2))
            return mk(ctx, "matmul", "matmul", dt, operand([n, k], values(n * k), layout()), operand([k, m], values(k * m), "col"))
        return case()

    # ------------------------------------------------------------------ known-finding input classes
    def _findings(self, case):
        """ids of every defect class whose input class contains this case (most specific first)"""
        out = []
        form, f = case["form"], case["f"]
        a, b = case["a"], case.get("b")
        L = lanes(case["ctx"], case["dt"])

        if case["ctx"] in VECTOR_CTXS and case["dt"] == "i32":
            # vector_type_t is vector_size(bit_width / sizeof(T)) BYTES: twice the lanes for 4-byte elements, the upper half is never
            # initialised; with int32 the garbage lanes overflow (UBSan, non-deterministic)
            out.append("C12-vector-ext-uninitialised-upper-lanes")

        def col(o):   # column-major storage differs from row-major storage only with >= 2 non-unit extents
            return o is not None and o["layout"] == "col" and sum(1 for e in o["shape"] if e > 1) >= 2

        if form == "reduce":
            x = a["shape"]
            axis, ini = case["axis"], case["initial"]
            ax = norm_axis(axis, len(x))
            out_size = 1 if ax is None else prod([e for i, e in enumerate(x) if i not in (ax if isinstance(ax, tuple) else (ax,))])
            if f == "subtract":
                out.append("C12-reduce-subtract-not-left-fold")
            if ini is not None:
                out.append("C12-reduce-initial-ignored")
            if out_size == 1 and f == "multiply":
                out.append("C12-reduce-single-output-zero-seed")
            if isinstance(ax, tuple) and out_size > 1:
                out.append("C12-reduce-multi-axis-not-evaluated")
            if isinstance(axis, int) and axis < -1 and out_size > 1 and x[ax] > 1:
                out.append("C12-reduce-negative-axis-not-normalised")
        if form == "binary" and a["shape"] != b["shape"]:
            sa, sb = a["shape"], b["shape"]
            if len(sa) != len(sb) or len(sa) != 2:
                # eval_binary only knows SAME_SHAPE and both-2-d: different ranks abort in utils::isequal (assert) or, like >= 3-d broadcasts, are left unevaluated
                out.append("C12-binary-broadcast-non-2d")
            elif (sa == [1, 1] and sb[0] > 1) or (sb == [1, 1] and sa[0] > 1):
                out.append("C12-binary-1x1-operand-oob")
        if form == "matmul":
            if col(a):
                out.append("C12-colmajor-operand-read-flat")
        elif form == "reduce":
            # a reduction to a single output visits every element once in storage order: correct for any layout
            if col(a) and out_size > 1:
                out.append("C12-colmajor-operand-read-flat")
        elif col(a) or col(b):
            out.append("C12-colmajor-operand-read-flat")
        return out

    def _excluded_ids(self):
        env = [s for s in os.environ.get("NMV_C12_EXCLUDE", "").split(",") if s]
        if C12._listed is None:
            from ..core import load_known
            C12._listed = {e["id"] for e in load_known("C12") if e.get("status") == "known"}
        # only classes that are still listed as known findings are excluded (a repaired class is searched again)
        return (set(KNOWN_IDS) & C12._listed) | set(env)

    _listed = None

    def _finding(self, case):
        fs = self._findings(case)
        ex = self._excluded_ids()
        for x in fs:
            if x in ex:
                return x
        return fs[0] if fs else None

    def excluded(self, case):
        if case.get("_witness"):
            return None
        ex = self._excluded_ids()
        for x in self._findings(case):
            if x in ex:
                return x
        return None

    def features(self, case, failure):
        return {"finding": self._finding(case), "ctx": case["ctx"], "f": case["f"], "form": case["form"], "dt": case["dt"]}

    # ------------------------------------------------------------------ generator health
    def _tail(self, case):
        L = lanes(case["ctx"], case["dt"])
        a = case["a"]
        if case["form"] == "matmul":
            return a["shape"][1] % L != 0
        last = (case.get("b") or a)["shape"][-1] if case["form"] in ("outer",) else max(a["shape"][-1], (case.get("b") or a)["shape"][-1])
        return last % L != 0 or prod(a["shape"]) % L != 0

    def _layout(self, case):
        ls = [case["a"]["layout"]] + ([case["b"]["layout"]] if "b" in case else [])
        return "+".join(ls)

    def nontrivial(self, case):
        if self._tail(case) or "col" in self._layout(case):
            return True
        if case["form"] == "binary" and case["a"]["shape"] != case["b"]["shape"]:
            return True
        return case["form"] == "reduce" and case["axis"] is not None

    def classes(self, case):
        out = ["ctx:" + case["ctx"], "op:%s.%s" % (case["form"], case["f"]), "dtype:" + case["dt"], "form:" + case["form"],
               "layout:" + self._layout(case), "tail:" + ("yes" if self._tail(case) else "no")]
        if case["form"] == "binary":
            out.append("broadcast:" + ("no" if case["a"]["shape"] == case["b"]["shape"] else "yes"))
        if case["form"] == "reduce":
            ax = case["axis"]
            out.append("axis:" + ("none" if ax is None else "list" if isinstance(ax, list) else "last" if ax % len(case["a"]["shape"]) == len(case["a"]["shape"]) - 1 else "inner"))
            out.append("keepdims:%s" % (case["keepdims"],))
            out.append("initial:" + ("no" if case["initial"] is None else "yes"))
        return out

    # ------------------------------------------------------------------ oracle
    def _check_int(self, case, sv, sc, A, B):
        """integer elements: SIMD, scalar and the NumPy int64 reference must agree exactly (data never overflow int32)"""
        form, f = case["form"], case["f"]
        if form == "binary":
            ref = NPBIN[f](A, B)
        elif form == "outer":
            ref = NPBIN[f].outer(A, B)
        elif form == "matmul":
            ref = A @ B
        else:
            ref = NPBIN[f].reduce(A, axis=norm_axis(case["axis"], A.ndim), keepdims=case["keepdims"] in (True, "ct_true"))
        ref = np.asarray(ref)
        exp_shape = list(ref.shape)
        if sc["shape"] != exp_shape:
            return "scalar path: result shape %s, NumPy shape %s" % (sc["shape"], exp_shape)
        if sv["shape"] != sc["shape"]:
            return "SIMD result shape %s differs from the scalar result shape %s" % (sv["shape"], sc["shape"])
        r = [int(v) for v in ref.reshape(-1)]
        x, y = [int(v) for v in sv["elems"]], [int(v) for v in sc["elems"]]
        if len(x) != len(r) or len(y) != len(r):
            return "element count simd=%d scalar=%d, expected %d" % (len(x), len(y), len(r))
        for k in range(len(r)):
            if x[k] != y[k]:
                return ("%s %s %s: SIMD result differs from the scalar result at flat index %d of %d (shape %s): simd=%r scalar=%r reference=%r (%d element(s) differ)"
                        % (case["ctx"], form, f, k, len(r), exp_shape, x[k], y[k], r[k], sum(1 for i in range(len(r)) if x[i] != y[i])))
        for k in range(len(r)):
            if y[k] != r[k]:
                return "scalar path differs from the NumPy reference at flat index %d: scalar=%r reference=%r" % (k, y[k], r[k])
        return None

    def check(self, case, obs):
        cf = crash_failure(obs)
        if cf:
            return "SIMD/scalar evaluation crashed the sanitized server: " + cf
        if "oob" in obs:
            return "checked container access out of range: " + obs["oob"][:160]
        if "error" in obs:
            return "HARNESS-ERROR server: " + obs["error"]
        if "unsupported" in obs:
            return "HARNESS-ERROR generator produced an unsupported combination: " + obs["unsupported"]
        dt, form, f = case["dt"], case["form"], case["f"]
        eps = EPS.get(dt)
        sv, sc = obs["simd"], obs["scalar"]
        for name, o in (("simd", sv), ("scalar", sc)):
            if not o.get("hv"):
                return "%s evaluation returned Nothing / no value: %s" % (name, str(o)[:120])
            if o.get("t") != dt:
                return "%s result element type %s, operands are %s" % (name, o.get("t"), dt)
        # reference
        A = arr_of(case["a"], dt)
        B = arr_of(case["b"], dt) if "b" in case else None
        if is_int(dt):
            return self._check_int(case, sv, sc, A, B)
        bound = None
        if form == "unary":
            ref = ref_unary(f, A, case.get("p", []))
        elif form == "binary":
            ref = NPBIN[f](A, B)
        elif form == "outer":
            ref = NPBIN[f].outer(A, B)
        elif form == "matmul":
            ref = A @ B
            bound = (np.abs(A) @ np.abs(B)) * (A.shape[1] + 1) * eps * 2
        else:
            ref, S, n = ref_reduce(f, A, case["axis"], case["keepdims"], case["initial"])
            bound = np.asarray(S) * (n + 1) * eps * 2
        ref = np.asarray(ref, dtype=np.float64)
        exp_shape = list(ref.shape)
        if sc["shape"] != exp_shape:
            return "scalar path: result shape %s, NumPy shape %s" % (sc["shape"], exp_shape)
        if sv["shape"] != sc["shape"]:
            return "SIMD result shape %s differs from the scalar result shape %s" % (sv["shape"], sc["shape"])
        n = int(prod(exp_shape))
        if len(sv["elems"]) != n or len(sc["elems"]) != n:
            return "element count simd=%d scalar=%d, expected %d" % (len(sv["elems"]), len(sc["elems"]), n)
        x = np.array(sv["elems"], dtype=np.float64)
        y = np.array(sc["elems"], dtype=np.float64)
        r = ref.reshape(-1)
        if bound is None:
            same = (x == y) | (np.isnan(x) & np.isnan(y))
            if not same.all():
                k = int(np.argmin(same))
                return ("%s %s %s: SIMD result differs from the scalar result at flat index %d of %d (shape %s): simd=%r scalar=%r reference=%r (%d element(s) differ)"
                        % (case["ctx"], form, f, k, n, exp_shape, float(x[k]), float(y[k]), float(r[k]), int((~same).sum())))
            tol = 4 * eps * np.maximum(np.abs(r), 1e-30)
            bad = ~((np.abs(y - r) <= tol) | (np.isnan(y) & np.isnan(r)))
            if bad.any():
                k = int(np.argmax(bad))
                return "scalar path differs from the NumPy reference at flat index %d: scalar=%r reference=%r" % (k, float(y[k]), float(r[k]))
            return None
        bnd = np.asarray(bound, dtype=np.float64).reshape(-1)
        # an element whose exact value (within the bound) leaves the element type's range is outside the domain (overflow of a long
        # product gives inf on both sides, |inf - inf| is NaN): not judged
        fmax = float(np.finfo(np.float32 if case["dt"] == "f32" else np.float64).max) if case["dt"] in ("f32", "f64") else None
        if fmax is not None:
            over = ~np.isfinite(r) | (np.abs(r) + bnd >= fmax)
            if over.any():
                keep = ~over
                x, y, r, bnd = x[keep], y[keep], r[keep], bnd[keep]
                if not len(x):
                    return None
        for name, v, w, wn in (("SIMD vs scalar", x, y, "scalar"), ("SIMD vs float64 reference", x, r, "reference"), ("scalar vs float64 reference", y, r, "reference")):
            bad = ~(np.abs(v - w) <= bnd)
            if bad.any():
                k = int(np.argmax(bad))
                return ("%s %s %s: %s beyond the re-association bound at flat index %d of %d (shape %s): simd=%r scalar=%r reference=%r bound=%.3g"
                        % (case["ctx"], form, f, name, k, n, exp_shape, float(x[k]), float(y[k]), float(r[k]), float(bnd[k])))
        return None
