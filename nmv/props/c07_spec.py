"""C07 specification shared by the table generator (tools/gen_ufunc_table.py ->
harness/ufunc_table.inc) and the property check (nmv/props/c07.py).

An *entry* is one statically typed instantiation compiled into the `ufunc` server:
(kind, op, element types, form mask).  The Python side only generates cases for
entries/forms listed here, the server answers "not compiled" for anything else,
so a desynchronised table shows up as HARNESS-ERROR, never as a pass.
"""
import os

UFUNC_DIR = "/repo/include/nmtools/array/view/ufuncs"
ACT_DIR = "/repo/include/nmtools/array/view/activations"

SINT = ["i8", "i16", "i32", "i64"]
UINT = ["u8", "u16", "u32", "u64"]
INTS = SINT + UINT
FLTS = ["f32", "f64"]
ALL10 = INTS + FLTS
WIDTH = {"i8": 8, "i16": 16, "i32": 32, "i64": 64, "u8": 8, "u16": 16, "u32": 32, "u64": 64, "f32": 32, "f64": 64}


def is_float(t):
    return t in FLTS


def is_signed(t):
    return t in SINT


def irange(t):
    w = WIDTH[t]
    if t in SINT:
        return -(1 << (w - 1)), (1 << (w - 1)) - 1
    return 0, (1 << w) - 1


def promote(t):
    """C++ integral promotion"""
    if t in INTS and WIDTH[t] < 32:
        return "i32"
    return t


def arith_type(ta, tb):
    """C++ usual arithmetic conversions (LP64)"""
    if "f64" in (ta, tb):
        return "f64"
    if "f32" in (ta, tb):
        return "f32"
    a, b = promote(ta), promote(tb)
    if a == b:
        return a
    wa, wb = WIDTH[a], WIDTH[b]
    sa, sb = is_signed(a), is_signed(b)
    if sa == sb:
        return a if wa >= wb else b
    u, s = (a, b) if not sa else (b, a)
    if WIDTH[u] >= WIDTH[s]:
        return u
    return s  # signed type can represent all values of the narrower unsigned type


# ---------------------------------------------------------------------
# forms
# ---------------------------------------------------------------------
FORMS = ["array", "scalar", "view"]        # index = form code used in the masks
OUTER_DT = ["i8", "i32", "i64", "u8", "f32", "f64"]   # bit 10+k of a binary mask
BIT_OUTER = 9


def bmask(pairs, outer=False, outer_dt=()):
    m = 0
    for fa, fb in pairs:
        m |= 1 << (FORMS.index(fa) * 3 + FORMS.index(fb))
    if outer:
        m |= 1 << BIT_OUTER
    for d in outer_dt:
        m |= 1 << (10 + OUTER_DT.index(d))
    return m


def umask(forms):
    m = 0
    for f in forms:
        m |= 1 << FORMS.index(f)
    return m


def tmask(triples):
    m = 0
    for fa, fb, fc in triples:
        m |= 1 << (FORMS.index(fa) * 9 + FORMS.index(fb) * 3 + FORMS.index(fc))
    return m


A, S, V = "array", "scalar", "view"
B_MATRIX = [(A, A), (A, S)]
B_NORMAL = [(A, A), (A, S), (S, A), (S, S), (V, A), (A, V)]
B_FULL = [(x, y) for x in FORMS for y in FORMS]
U_ALL = [A, S, V]
T_FORMS = [(A, A, A), (A, S, S), (A, A, S), (A, S, A), (V, A, A), (S, A, A), (A, V, V)]   # where(c, x, y)

# ---------------------------------------------------------------------
# ops: family, comparison class lib-functor vs independent reference, value domain
#   cmp: exact = bitwise (NaN==NaN); value = == with +0 == -0; approx = <= 4 ulp
# ---------------------------------------------------------------------
BINARY = {
    # name: (family, cmp, domain)
    "add": ("arith", "exact", "add"), "subtract": ("arith", "exact", "add"), "multiply": ("arith", "exact", "mul"),
    "divide": ("arith", "exact", "div"), "mod": ("arith", "exact", "div"),
    "fmod": ("math2", "approx", "any"), "power": ("math2", "approx", "any"), "hypot": ("math2", "approx", "any"),
    "arctan2": ("math2", "approx", "any"), "ldexp": ("math2", "approx", "ldexp"),
    "maximum": ("minmax", "value", "nonan"), "minimum": ("minmax", "value", "nonan"),
    "fmax": ("minmax", "value", "any"), "fmin": ("minmax", "value", "any"),
    "less": ("cmp", "exact", "any"), "less_equal": ("cmp", "exact", "any"), "greater": ("cmp", "exact", "any"),
    "greater_equal": ("cmp", "exact", "any"), "equal": ("cmp", "exact", "any"), "not_equal": ("cmp", "exact", "any"),
    "logical_and": ("logical", "exact", "any"), "logical_or": ("logical", "exact", "any"), "logical_xor": ("logical", "exact", "any"),
    "bitwise_and": ("bitwise", "exact", "any"), "bitwise_or": ("bitwise", "exact", "any"), "bitwise_xor": ("bitwise", "exact", "any"),
    "left_shift": ("shift", "exact", "lshift"), "right_shift": ("shift", "exact", "rshift"),
}
INT_ONLY_BIN = {"mod", "bitwise_and", "bitwise_or", "bitwise_xor", "left_shift", "right_shift"}
HAS_OUTER = {"add", "subtract", "multiply", "fmax", "fmin", "fmod", "left_shift", "right_shift", "maximum", "minimum", "power"}
REPRESENTATIVE = ["add", "subtract", "multiply", "divide", "less", "equal", "bitwise_and", "left_shift", "maximum"]

UNARY = {
    "arccos": ("math1", "approx", "any"), "arccosh": ("math1", "approx", "any"), "arcsin": ("math1", "approx", "any"),
    "arcsinh": ("math1", "approx", "any"), "arctan": ("math1", "approx", "any"), "arctanh": ("math1", "approx", "any"),
    "cbrt": ("math1", "approx", "any"), "cos": ("math1", "approx", "any"), "cosh": ("math1", "approx", "any"),
    "exp": ("math1", "approx", "any"), "exp2": ("math1", "approx", "any"), "expm1": ("math1", "approx", "any"),
    "log": ("math1", "approx", "any"), "log10": ("math1", "approx", "any"), "log1p": ("math1", "approx", "any"),
    "log2": ("math1", "approx", "any"), "sin": ("math1", "approx", "any"), "sinh": ("math1", "approx", "any"),
    "sqrt": ("math1", "approx", "any"), "tan": ("math1", "approx", "any"), "tanh": ("math1", "approx", "any"),
    "ceil": ("round", "exact", "any"), "floor": ("round", "exact", "any"), "trunc": ("round", "exact", "any"),
    "rint": ("round", "exact", "any"), "fabs": ("round", "exact", "any"),
    "isfinite": ("classify", "exact", "any"), "isinf": ("classify", "exact", "any"), "isnan": ("classify", "exact", "any"),
    "signbit": ("classify", "exact", "any"),
    "logical_not": ("logical", "exact", "any"), "invert": ("bitwise", "exact", "any"),
    "negative": ("arith", "exact", "neg"), "positive": ("arith", "exact", "any"), "square": ("arith", "exact", "sq"),
    "reciprocal": ("arith", "exact", "recip"),
    "deg2rad": ("angle", "approx", "finite"), "radians": ("angle", "approx", "finite"),
    "rad2deg": ("angle", "approx", "finite"), "degrees": ("angle", "approx", "finite"),
}
INT_ONLY_UN = {"invert"}
FLOAT_ONLY_UN = {"deg2rad", "radians", "rad2deg", "degrees"}
SMALL_INT_UN = {"invert", "negative", "positive", "square", "logical_not"}   # also with i8,u8,u16,i64,u32

TERNARY = {"clip": ("ternary", "value", "clip"), "where": ("ternary", "value", "where")}

# activations: name -> (number of parameters, defaults)
ACTIVATIONS = {
    "relu": (0, []), "relu6": (0, []), "sigmoid": (0, []), "tanhshrink": (0, []), "selu": (0, []), "hardswish": (0, []),
    "softsign": (0, []), "silu": (0, []), "mish": (0, []), "log_sigmoid": (0, []),
    "elu": (1, [1.0]), "celu": (1, [1.0]), "hardshrink": (1, [0.5]), "softshrink": (1, [0.5]),
    "leaky_relu": (1, [0.01]), "prelu": (1, [0.25]),
    "hardtanh": (2, [-1.0, 1.0]), "softplus": (2, [1.0, 20.0]),
}
ACT_BIT_DEFAULT = 3   # bits 3..5: forms with defaulted parameters

# ops present in the directory but not element-wise (reductions): covered by the reduce property
NOT_ELEMENTWISE = {"amax", "amin"}


def listing():
    uf = sorted(f[:-4] for f in os.listdir(UFUNC_DIR) if f.endswith(".hpp"))
    ac = sorted(f[:-4] for f in os.listdir(ACT_DIR) if f.endswith(".hpp"))
    return uf, ac


def check_listing():
    uf, ac = listing()
    known = set(BINARY) | set(UNARY) | {"clip"} | NOT_ELEMENTWISE
    missing = [f for f in uf if f not in known]
    gone = [f for f in known if f not in uf]
    am = [f for f in ac if f not in ACTIVATIONS]
    return missing, gone, am


# ---------------------------------------------------------------------
# entries
# ---------------------------------------------------------------------
MIX6 = ["i8", "u8", "i32", "u64", "f32", "f64"]
INT6 = ["i8", "u8", "i16", "i32", "u32", "i64"]
MATRIX = {
    "add": (ALL10, ALL10), "less": (ALL10, ALL10),
    "subtract": (MIX6, MIX6), "multiply": (MIX6, MIX6), "divide": (MIX6, MIX6), "equal": (MIX6, MIX6), "maximum": (MIX6, MIX6),
    "bitwise_and": (INT6, INT6), "left_shift": (INT6, INT6),
}
BASE_PAIRS = [("i32", "i32"), ("f32", "f32"), ("f64", "f64"), ("i32", "f64")]
INT_PAIRS = [("i32", "i32"), ("u8", "u8"), ("i64", "i32"), ("u32", "i8")]
LDEXP_PAIRS = [("f32", "i32"), ("f64", "i32"), ("i32", "i32"), ("f64", "i8")]
FULL_PAIRS = [("i32", "i32"), ("f64", "f64"), ("i32", "f64")]
FULL_INT_PAIRS = [("i32", "i32"), ("u8", "u8")]


def outer_dts(op, ta, tb):
    if op in ("left_shift", "right_shift"):
        return ["i64", "u8"] if (ta, tb) == ("i32", "i32") else []
    if (ta, tb) == ("i32", "i32"):
        return ["f32", "i64", "i8"]
    if (ta, tb) == ("f64", "f64"):
        return ["f32", "i32"]
    if (ta, tb) == ("i32", "f64"):
        return ["f64"]
    return []


def entries():
    """list of dict(kind, op, types, mask)"""
    out = {}

    def put(kind, op, types, mask):
        k = (kind, op, tuple(types))
        out[k] = out.get(k, 0) | mask

    for op in BINARY:
        if op == "ldexp":
            pairs = LDEXP_PAIRS
        elif op in INT_ONLY_BIN:
            pairs = INT_PAIRS
        else:
            pairs = BASE_PAIRS
        for ta, tb in pairs:
            forms = B_NORMAL
            if op == "ldexp" and not is_float(ta):
                # std::ldexp(alias_view<int>, int) is ambiguous: (scalar int, array) is rejected at compile time
                forms = [f for f in B_NORMAL if f != (S, A)]
            if op in ("fmod", "hypot", "arctan2", "fmax", "fmin") and (ta, tb) == ("i32", "i32"):
                # std::fmod(alias_view<int>, int) etc. are ambiguous overload calls: an integer scalar operand next to
                # an integer array operand is rejected at compile time for the <cmath> forwarding functors
                forms = [f for f in B_NORMAL if f not in ((S, A), (A, S))]
            put("B", op, (ta, tb), bmask(forms))
        if op in HAS_OUTER:
            ta, tb = pairs[0]
            put("B", op, (ta, tb), bmask([], outer=True, outer_dt=outer_dts(op, ta, tb)))
            if op not in INT_ONLY_BIN:
                put("B", op, ("f64", "f64"), bmask([], outer=True, outer_dt=outer_dts(op, "f64", "f64")))
    for op in REPRESENTATIVE:
        for ta, tb in (FULL_INT_PAIRS if op in INT_ONLY_BIN else FULL_PAIRS):
            put("B", op, (ta, tb), bmask(B_FULL, outer=op in HAS_OUTER, outer_dt=outer_dts(op, ta, tb) if op in HAS_OUTER else ()))
    for op, (la, lb) in MATRIX.items():
        for ta in la:
            for tb in lb:
                put("B", op, (ta, tb), bmask(B_MATRIX))
    for op in UNARY:
        if op in INT_ONLY_UN:
            ts = ["i32"]
        elif op in FLOAT_ONLY_UN:
            ts = ["f32", "f64", "i32"]   # i32: NumPy computes integer angles in double
        else:
            ts = ["i32", "f32", "f64"]
        if op in SMALL_INT_UN:
            ts = ts + ["i8", "u8", "u16", "u32", "i64"]
        for t in ts:
            put("U", op, (t,), umask(U_ALL))
    # view::clip (less/where composition) and the variadic view::ufunc(op,a,b,c) do not compile on this tree for any
    # array kind (all clip tests are commented out in the CMake lists): only the scalar functor clip_t is checked (mask 0)
    for t in ["i32", "f32", "f64", "i8", "u8"]:
        put("T", "clip", (t, t, t), 0)
    for tc in ["i32", "u8"]:
        for t in ["i32", "f32", "f64", "i8"]:
            put("T", "where", (tc, t, t), tmask(T_FORMS if tc == "i32" else [(A, A, A), (A, S, S)]))
    put("T", "where", ("i32", "i32", "f64"), tmask([(A, A, A), (A, S, S), (A, A, S)]))
    put("T", "where", ("f64", "f32", "f32"), tmask([(A, A, A)]))
    put("T", "where", ("i64", "i32", "i32"), tmask([(A, A, A)]))
    for op, (npar, _) in ACTIVATIONS.items():
        for t, p in [("f32", "f32"), ("f64", "f32"), ("f64", "f64")]:
            if npar == 0:
                if p == "f64":
                    continue
                put("A0", op, (t,), umask(U_ALL))
            else:
                m = umask(U_ALL)
                if p == "f32":
                    m |= umask(U_ALL) << ACT_BIT_DEFAULT
                put("A%d" % npar, op, (t, p), m)
    res = [dict(kind=k[0], op=k[1], types=list(k[2]), mask=m) for k, m in out.items()]
    return res


def entry_cost(e):
    n = bin(e["mask"]).count("1")
    base = {"B": 1.0, "U": 0.6, "T": 2.0, "A0": 0.6, "A1": 0.7, "A2": 0.7}[e["kind"]]
    return 0.8 + n * base


NPARTS = 60


def partition(ents=None, nparts=NPARTS):
    """deterministic partition that is stable under small edits of the table (a changed entry only
    touches its own part): heavy entries are placed greedily, light ones by a hash of their key"""
    import hashlib
    ents = ents if ents is not None else entries()
    loads = [0.0] * nparts
    parts = [[] for _ in range(nparts)]
    heavy = sorted([e for e in ents if entry_cost(e) > 8], key=lambda e: (e["kind"], e["op"], e["types"]))
    for i, e in enumerate(heavy):
        k = i % nparts
        parts[k].append(e)
        loads[k] += entry_cost(e)
    for e in ents:
        if entry_cost(e) > 8:
            continue
        h = hashlib.sha1(("%s|%s|%s" % (e["kind"], e["op"], ",".join(e["types"]))).encode()).digest()
        k = int.from_bytes(h[:4], "big") % nparts
        parts[k].append(e)
        loads[k] += entry_cost(e)
    return parts, loads


def forms_of_mask_b(mask):
    res = []
    for k in range(9):
        if mask >> k & 1:
            res.append((FORMS[k // 3], FORMS[k % 3]))
    return res


def forms_of_mask_u(mask, shift=0):
    return [FORMS[k] for k in range(3) if mask >> (k + shift) & 1]


def forms_of_mask_t(mask):
    res = []
    for k in range(27):
        if mask >> k & 1:
            res.append((FORMS[k // 9], FORMS[(k // 3) % 3], FORMS[k % 3]))
    return res


def outer_of_mask(mask):
    """list of dtype (None = no dtype) compiled for the outer variant"""
    res = []
    if mask >> BIT_OUTER & 1:
        res.append(None)
    for k, d in enumerate(OUTER_DT):
        if mask >> (10 + k) & 1:
            res.append(d)
    return res
