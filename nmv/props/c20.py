"""C20 — array objects keep their invariants under resize, assign, cast and mutable views."""
import itertools
import json
import os

import numpy as np
from hypothesis import strategies as st

from ..core import Prop, KNOWN
from .common import crash_failure, prod, small_shapes

SHAPE_KINDS = ["cs", "fs", "hs", "ds", "ls"]
BUF_KINDS = ["fb", "hb", "db"]
GENERIC = [s + "_" + b for s in SHAPE_KINDS for b in BUF_KINDS]
LEGACY = {"fixed_ndarray": ("cs", "fb"), "hybrid_ndarray": ("fs", "hb"), "dynamic_ndarray": ("ds", "db")}
CONFIGS = [(k, l) for k in GENERIC for l in ("row", "col")] + [(k, "row") for k in LEGACY]
INIT = [3, 4]          # int raw[3][4]
N0 = 12                # element count / capacity every bound is derived from
CLIP = (3, 4)          # clipped_size_t<3>, clipped_size_t<4>
HS_CAP = 2             # static_vector<size_t,2>
CAST_TARGETS = ["ds_db", "fs_hb", "hs_db", "cs_fb", "ds_hb", "ls_fb", "ls_hb", "ls_db", "dynamic"]
DTYPES = {"f64": np.float64, "i64": np.int64, "i8": np.int8}


def structure(kind):
    return LEGACY[kind] if kind in LEGACY else tuple(kind.split("_"))


# ------------------------------------------------------------------ admissibility, from the TYPES
def expressible(kind, shape, op="resize"):
    """does the class offer a resize signature that can carry this request at all"""
    sk, _ = structure(kind)
    if sk == "cs":
        return False                      # constant shape: resize is not declared (SFINAE) / fixed_ndarray has none
    if kind == "hybrid_ndarray":
        return len(shape) == 2            # resize(const std::array<size_t,2>&) / exactly two variadic arguments
    if op == "resize_v" and sk == "ls":
        return len(shape) == len(CLIP)    # tuple shape: another number of variadic arguments does not compile
    return True


def admissible(kind, shape):
    sk, bk = structure(kind)
    d, p = len(shape), prod(shape)
    if sk == "fs" and d != len(INIT):
        return False
    if sk == "hs" and d > HS_CAP:
        return False
    if sk == "ls" and (d != len(CLIP) or any(e > m for e, m in zip(shape, CLIP))):
        return False
    if bk == "fb" and p != N0:
        return False
    if bk == "hb" and p > N0:
        return False
    return True


def default_shape(kind):
    """shape of a default-constructed object: ones with the buffer length last (base_ndarray_t::initialize_shape, asserted by the committed
    tests ndarray(case1..10)); a resizable buffer starts with one element; hybrid_ndarray starts as (max_elements, 1)"""
    if kind == "fixed_ndarray":
        return list(INIT)
    if kind == "hybrid_ndarray":
        return [N0, 1]
    sk, bk = structure(kind)
    b = N0 if bk == "fb" else 1
    if sk == "cs":
        return list(INIT)
    if sk in ("fs", "ls"):
        return [1, b]
    return [b]


CAST_CLIP_MAX = 6   # NMTOOLS_CAST_DEFAULT_CLIPPED_VALUE: clipped targets derived from a run-time shape cannot hold larger extents


def cast_in_domain(kind, shape, target):
    sk, _ = structure(kind)
    return not (target.startswith("ls") and sk in ("fs", "hs") and max(shape) > CAST_CLIP_MAX)


def cast_expressible(kind, target):
    """compile-time: does nmtools::cast(src, target kind) name a type (and compile) for this source type"""
    if target == "dynamic":
        return True
    sk, bk = structure(kind)
    fixed_shape = sk == "cs"
    fixed_dim = sk in ("cs", "fs", "ls")
    bounded_dim = sk in ("cs", "fs", "ls", "hs")
    fixed_size = bk == "fb" or sk == "cs"
    bounded_size = fixed_size or bk == "hb"
    tsk, tbk = target.split("_")
    if tsk != "ls" and not (fixed_shape or not bounded_dim):
        return False      # ndarray.hpp:700-712: the clipped branch is evaluated with an empty argument pack -> does not compile (harness leaves it out)
    need_s = {"cs": fixed_shape, "fs": fixed_dim, "hs": bounded_dim, "ds": True, "ls": fixed_shape or fixed_dim or bounded_dim}[tsk]
    need_b = {"fb": fixed_size, "hb": bounded_size, "db": True}[tbk]
    return need_s and need_b


RESIZE_OPS = ("resize", "resize_v")   # packed a.resize(shape) / variadic a.resize(n0, n1, ...): same contract


# ------------------------------------------------------------------ model
class Slot:
    __slots__ = ("shape", "vals", "known")

    def __init__(self, shape, vals=None, known=None):
        self.shape = list(shape)
        self.vals = np.zeros(shape, dtype=np.int64) if vals is None else vals
        self.known = np.zeros(shape, dtype=bool) if known is None else known

    def copy(self):
        return Slot(self.shape, self.vals.copy(), self.known.copy())


def init_state():
    return [Slot(INIT, np.arange(N0, dtype=np.int64).reshape(INIT), np.ones(INIT, dtype=bool)), None]


def m_apply(kind, state, step):
    """model transition -> (new state, info)"""
    s = [x.copy() if x is not None else None for x in state]
    op = step[0]
    info = {}
    if op in RESIZE_OPS:
        k, shp = step[1], list(step[2])
        if not expressible(kind, shp, op):
            info["r"] = "inexpressible"
        elif admissible(kind, shp):
            info["r"] = True
            info["dim_change"] = len(shp) != len(s[k].shape)
            if shp != s[k].shape:
                s[k] = Slot(shp)      # contents after a shape-changing resize are not promised by anything
        else:
            info["r"] = False
    elif op == "write":
        k = step[1]
        s[k].vals[tuple(step[2])] = step[3]
        s[k].known[tuple(step[2])] = True
    elif op == "fill_ids":
        k = step[1]
        n = prod(s[k].shape)
        s[k].vals = (step[2] + np.arange(n, dtype=np.int64)).reshape(s[k].shape)
        s[k].known = np.ones(s[k].shape, dtype=bool)
    elif op in ("copy", "assign"):
        s[step[1]] = s[step[2]].copy()
    elif op == "default":
        s[step[1]] = Slot(default_shape(kind))
    return s, info


def strides_of(shape):
    out, p = [], 1
    for e in reversed(shape):
        out.append(p)
        p *= e
    return out[::-1]


def mutates_when_refused(kind, cur_shape, shape):
    """input class of C20-refused-resize-not-atomic: a refused request that the pre-validation `shape_.resize` / `data_.resize`
    calls of ndarray_t::resize can carry out (the member is resizable and the member's own resize accepts the value)"""
    if kind in LEGACY:
        return False
    sk, bk = structure(kind)
    d, p = len(shape), prod(shape)
    buf = bk in ("hb", "db") and p != prod(cur_shape) and (bk == "db" or p <= N0)
    shp = (sk == "ds" and d != len(cur_shape)) or (sk == "hs" and d != len(cur_shape) and d <= HS_CAP)
    return buf or shp


# ------------------------------------------------------------------ input classes of the findings
def config_findings(kind, layout):
    sk, _ = structure(kind)
    out = []
    if kind not in LEGACY and sk == "ls" and layout == "col":
        out.append("C20-colmajor-clipped-strides-clamped")
    if kind == "ls_fb":
        out.append("C20-clipped-fixed-buffer-default-shape-clamped")     # every nm::cast to this type default-constructs it first
    return out


def step_finding(kind, step, before):
    """id of the finding whose input class this step (applied in model state `before`) enters, else None"""
    sk, _ = structure(kind)
    if step[0] in RESIZE_OPS:
        shp = list(step[2])
        if expressible(kind, shp, step[0]) and not admissible(kind, shp) and mutates_when_refused(kind, before[step[1]].shape, shp):
            return "C20-refused-resize-not-atomic"
    elif step[0] == "cast_kind":
        if kind not in LEGACY and sk == "hs" and step[2].startswith("ls"):
            return "C20-cast-bounded-dim-to-clipped-size-clamped"
        if step[2] == "ls_fb" and cast_expressible(kind, "ls_fb"):
            return "C20-clipped-fixed-buffer-default-shape-clamped"  # the cast default-constructs its ls_fb result first
    return None


# ------------------------------------------------------------------ history generation
SMALL_RESIZE0 = [[4, 3], [2, 3], [4, 4], [12], [6], [2, 3, 2]]
SMALL_RESIZE1 = [[2, 3], [6]]
BIG_RESIZE = [list(s) for s in small_shapes(1, 3, 4)] + [[12], [2, 6], [6, 2], [1, 12], [12, 1], [13], [2, 2, 3], [3, 2, 2], [1, 3, 4], [3, 4], [4, 3], [3, 4], [4, 3]]


def small_cast_target(kind):
    sk, _ = structure(kind)
    return "ds_db" if sk in ("cs", "ds") else "ls_db"


def next_steps_small(kind, state, depth):
    out = []
    live = [k for k in (0, 1) if state[k] is not None]
    for k in live:
        for shp in (SMALL_RESIZE0 if k == 0 else SMALL_RESIZE1):
            out.append(["resize", k, shp])
        if k == 0:
            out.append(["resize_v", 0, [2, 3]])
            out.append(["resize_v", 0, [2, 3, 2]])
        out.append(["write", k, [e - 1 for e in state[k].shape], 50 + depth])
    out.append(["fill_ids", 0, 100 * (depth + 1)])
    out.append(["copy", 1, 0])
    if kind != "dynamic_ndarray":
        out.append(["default", 1])
    out.append(["assign", 0, 0])
    if len(live) == 2:
        out.append(["assign", 0, 1])
        out.append(["assign", 1, 0])
    out.append(["cast_kind", 0, small_cast_target(kind)])
    out.append(["cast_dtype", 0, "f64"])
    return out


def enumerate_histories(kind, length):
    def rec(state, steps, depth):
        if depth == length:
            yield list(steps)
            return
        for s_ in next_steps_small(kind, state, depth):
            ns, _ = m_apply(kind, state, s_)
            yield from rec(ns, steps + [s_], depth + 1)
    yield from rec(init_state(), [], 0)


def walk(case):
    """yield (step, info, state_before, state_after) along the model"""
    kind = case["kind"]
    state = init_state()
    for s_ in case["steps"]:
        ns, info = m_apply(kind, state, s_)
        yield s_, info, state, ns
        state = ns


# ------------------------------------------------------------------ mutable views
def py_spec(sp):
    if isinstance(sp, int):
        return sp
    return slice(sp[0], sp[1], sp[2] if len(sp) == 3 else None)


def spec_kind(sp):
    if isinstance(sp, int):
        return 8
    a, b = sp[0] is not None, sp[1] is not None
    k = (2 if a else 0) + (1 if b else 0)
    if len(sp) == 3 and sp[2] is not None:
        k += 4
    return k


K_ALL = {0, 1, 2, 3, 4, 7, 8}
K_SUB = {0, 3, 8}


def slice_encodings(slices):
    """encodings of the server able to express this list of per-axis specs"""
    out = []
    ks = [spec_kind(s) for s in slices]
    if all(k == 8 for k in ks):
        return out                      # rank-0 result: not an array view
    if all(k in (7, 8) for k in ks):
        out.append("either_tri")
    if all(k == 7 for k in ks):
        out.append("tri")
    if len(ks) <= 2 and all(k in K_ALL for k in ks):
        out.append("packed")
    if len(ks) == 3 and all(k in K_SUB for k in ks):
        out.append("packed")
    return out


def axis_options(n, rich):
    """in-range start/stop (also counted from the end), positive and negative steps, omitted parts, in-range integers; never an empty axis"""
    o = [[None, None], [0, n, 1], 0]
    if n >= 2:
        o += [[1, n, 1], n - 1, [0, n - 1]]
        if rich:
            o += [[0, n, 2], [None, n - 1], [1, None], [None, None, 2], [0, n - 1, 1], [1, n]]
            # negative steps / from-the-end values (Python semantics since the slicing repair 31c6230)
            o += [[None, None, -1], [None, None, -2], -1, [-2, None], [None, -1], [n - 1, 0, -1], [-1, -n - 1, -1]]
    return o


def numpy_view(src, case):
    v = case["view"]
    a = case.get("args") or {}
    if v == "mutable_ref":
        return src
    if v == "mutable_flatten":
        return src.reshape(-1)
    if v == "mutable_reshape":
        return src.reshape(a["newshape"])
    if v == "mutable_slice":
        return src[tuple(py_spec(s) for s in a["slices"])]
    raise ValueError(v)


def factorizations(n):
    out = [[n]]
    for a in range(1, n + 1):
        if n % a == 0:
            out.append([a, n // a])
            for b in range(1, n // a + 1):
                if (n // a) % b == 0:
                    out.append([a, b, n // a // b])
    return out


def mview_cases_for(shape, view, args, src_layout="row"):
    src = np.arange(prod(shape)).reshape(shape)
    base = {"op": "mview", "view": view, "shape": list(shape), "src_layout": src_layout, "args": args}
    v = numpy_view(src, base)
    for k, idx in enumerate(itertools.product(*[range(e) for e in v.shape])):
        yield dict(base, index=list(idx), value=-(k + 1))


def known_ids():
    ids = set()
    try:
        for e in json.load(open(KNOWN)).get("findings", []):
            if e.get("property") == "C20" and e.get("status") == "known":
                ids.add(e["id"])
    except Exception:
        pass
    ids |= {x for x in os.environ.get("NMV_C20_EXCLUDE", "").split(",") if x}
    return ids


# ------------------------------------------------------------------ property
class C20(Prop):
    id = "C20"
    servers = ["arr"]
    chunk = 150
    rule = ("case = (array class, layout, history) or (mutable view, source shape, arguments, index, value). Array classes: the 15 generic ndarray_t kinds "
            "nmtools::cast(int[3][4], kind::ndarray_{cs,fs,hs,ds,ls}_{fb,hb,db}) in row-major and as column_major_ndarray_t with the same buffer/shape types, plus "
            "fixed_ndarray<int,3,4>, hybrid_ndarray<int,12,2>, dynamic_ndarray<int>. History = steps over {resize(shape) in the packed a.resize(shape) and the variadic a.resize(n0,n1,..) form, "
            "write(index,v), fill_ids (a distinct id through a(i...) for every index), default-construct, copy-construct, assign (incl. self), cast(kind), cast(dtype)} on two objects; after EVERY step the server reports resize's return value, shape(), "
            "strides(), size(), dim(), buffer length, every element through the const a(i...) and the flat buffer of both objects. Python model = NumPy array + the "
            "admissibility rule of the TYPES (constant shape: no resize; fixed dim 2; bounded dim <= 2; clipped: dim 2 and extents <= (3,4); fixed buffer: product == 12; "
            "bounded buffer: product <= 12; dynamic: anything). Checked after every step: accepted resize returns true and shape == request; refused resize returns false and the "
            "whole observed state is identical to the state before; product(shape) == size == number of addressable elements <= buffer length (== for resizable buffers); "
            "strides() == row-major suffix products of shape(); every written element reads back (distinct indices address distinct elements); flat buffer == C-order (row) / "
            "F-order (col) ravel; objects not addressed by a step are unchanged (copies are independent); cast(kind) preserves shape and values, cast(dtype) preserves shape and "
            "static_cast-converted values; no NMTOOLS_VERIF hook event (index >= extent, offset >= buffer length, capacity overflow, clipped clamp); ASan/UBSan silent. "
            "Mutable views: view(index...) = v on mutable_slice/reshape/flatten/ref of a row- or column-major dynamic array holding arange; the view's shape, the view read back, the WHOLE "
            "source and the number of changed buffer entries are compared with the same assignment on the corresponding NumPy view (slices in the packed tuple and the dynamic encodings). Exhaustive: all histories of length <= 3 (quick) / 4 (thorough) over a small alphabet for all 33 configurations; "
            "mutable views over every index of every shape dim 1..3 x extents 1..3 with a sample of arguments; Hypothesis histories up to length 6 (quick) / 8 (thorough) with resize "
            "targets from all shapes dim 1..3 x extents 1..4 plus product-12 shapes. non-trivial = history with a refused resize followed by another operation, a dimension change, "
            "a column-major resize, or a write through a non-identity mutable view; distinct = canonical JSON")
    assumptions = [
        "strides() is compared with the row-major suffix products for BOTH layouts: ndarray_t declares strides_ as stride_buffer_t<shape_type> = the result type of index::compute_strides(shape) and "
        "initialises/refreshes it with base_type::compute_strides(shape_) (ndarray.hpp:34,49,131), column_major_offset_t keeps its own reversed strides (base_ndarray.hpp:87-100) and the committed test "
        "ndarray(case10) asserts strides()=={6,2,1} for a column-major (2,3,2) array while expecting the flat buffer in column-major order; the layout is therefore checked on the flat buffer",
        "element values after a shape-changing accepted resize are unspecified (nothing documents preservation or zero-fill); a resize to the current shape keeps the contents",
        "cast(kind) targets are limited to those whose result type exists for the source type; for sources with a fixed/bounded dimension but no constant shape only the clipped targets compile",
        "slices only from the conforming region of C05 (non-negative in-range start < stop, positive step, omitted parts, in-range integers); at least one range (rank-0 views are not arrays)",
    ]

    def __init__(self):
        self._excl = known_ids()

    # ---- spaces -----------------------------------------------------------
    def exhaustive_space(self, tier):
        return ("all histories of length 1..%d over the small alphabet x 33 (kind, layout) configurations; mutable_ref/flatten/reshape/slice over every index of every "
                "shape dim 1..3 x extents 1..3 with all factorisations (reshape) and the per-axis option product (slice) in every encoding able to express it") % (4 if tier == "thorough" else 3)

    def exhaustive(self, tier):
        L = 4 if tier == "thorough" else 3
        for kind, layout in CONFIGS:
            for length in range(1, L + 1):
                for steps in enumerate_histories(kind, length):
                    yield {"op": "hist", "kind": kind, "layout": layout, "steps": steps}
        yield from self._mview_exhaustive(tier)

    def _mview_exhaustive(self, tier):
        for shape, lay in itertools.product(small_shapes(1, 3, 3), ("row", "col")):
            n = prod(shape)
            yield from mview_cases_for(shape, "mutable_ref", {}, lay)
            yield from mview_cases_for(shape, "mutable_flatten", {}, lay)
            seen = set()
            for i, ns in enumerate(factorizations(n)):
                if tuple(ns) in seen:
                    continue
                seen.add(tuple(ns))
                yield from mview_cases_for(shape, "mutable_reshape", {"enc": "vec" if i % 2 == 0 else "arr", "newshape": ns}, lay)
            if n > 1:
                yield from mview_cases_for(shape, "mutable_reshape", {"enc": "vec", "newshape": [-1]}, lay)
                yield from mview_cases_for(shape, "mutable_reshape", {"enc": "arr", "newshape": [shape[0], -1] if len(shape) > 1 else [-1, 1]}, lay)
            rich = len(shape) <= 2 or tier == "thorough"
            for combo in itertools.product(*[axis_options(e, rich) for e in shape]):
                sl = [list(c) if isinstance(c, list) else c for c in combo]
                for enc in slice_encodings(sl):
                    yield from mview_cases_for(shape, "mutable_slice", {"enc": enc, "slices": sl}, lay)

    def n_random(self, tier):
        return 100000 if tier == "quick" else 1000000

    def strategy(self, tier):
        maxlen = 6 if tier == "quick" else 8

        # histories are constructed outside the input classes of the excluded (known) findings: a step that would enter such a
        # class is replaced, a configuration that lies inside one as a whole is not drawn
        excl = self._excl
        configs = [c for c in CONFIGS if not (set(config_findings(*c)) & excl)] or CONFIGS

        @st.composite
        def hist(draw):
            kind, layout = draw(st.sampled_from(configs))
            n = draw(st.integers(1, maxlen))
            state = init_state()
            steps = []
            for d in range(n):
                live = [k for k in (0, 1) if state[k] is not None]
                k = draw(st.sampled_from(live))
                t = draw(st.integers(0, 11))
                if t <= 3:
                    ok = [x for x in BIG_RESIZE if step_finding(kind, ["resize", k, x], state) not in excl] if excl else BIG_RESIZE
                    s_ = [draw(st.sampled_from(RESIZE_OPS)), k, list(draw(st.sampled_from(ok or [state[k].shape])))]
                elif t <= 5:
                    s_ = ["write", k, [draw(st.integers(0, e - 1)) for e in state[k].shape], draw(st.integers(-999, 9999))]
                elif t == 6:
                    s_ = ["fill_ids", k, draw(st.integers(-50, 5000))]
                elif t == 7:
                    s_ = ["copy", 1 - k, k]
                elif t == 8:
                    s_ = ["assign", draw(st.sampled_from(live)), k]
                elif t == 9:
                    tg = draw(st.sampled_from(CAST_TARGETS))
                    s_ = ["cast_kind", k, tg if cast_in_domain(kind, state[k].shape, tg) and step_finding(kind, ["cast_kind", k, tg], state) not in excl else "dynamic"]
                elif t == 10:
                    s_ = ["cast_dtype", k, draw(st.sampled_from(sorted(DTYPES)))]
                elif kind != "dynamic_ndarray" and draw(st.booleans()):
                    s_ = ["default", 1 - k]
                else:
                    s_ = ["resize", k, list(state[k].shape)]
                steps.append(s_)
                state, _ = m_apply(kind, state, s_)
            return {"op": "hist", "kind": kind, "layout": layout, "steps": steps}

        @st.composite
        def mview(draw):
            d = draw(st.integers(1, 3))
            shape = [draw(st.integers(1, 4)) for _ in range(d)]
            v = draw(st.sampled_from(["mutable_slice", "mutable_slice", "mutable_reshape", "mutable_flatten", "mutable_ref"]))
            args = {}
            if v == "mutable_reshape":
                f = factorizations(prod(shape))
                ns = list(f[draw(st.integers(0, len(f) - 1))])
                if draw(st.integers(0, 4)) == 0:
                    ns[draw(st.integers(0, len(ns) - 1))] = -1
                args = {"enc": draw(st.sampled_from(["vec", "arr"])), "newshape": ns}
            elif v == "mutable_slice":
                sl = []
                for e in shape:
                    t = draw(st.integers(0, 5))
                    if t == 0:
                        sl.append(draw(st.integers(0, e - 1)))
                    else:
                        a = draw(st.integers(0, e - 1))
                        b = draw(st.integers(a + 1, e))
                        c = draw(st.integers(1, 3))
                        sl.append([[a, b, c], [a, b, c], [a, b], [None, b], [a, None], [None, None], [None, None, c], [None, None, -c], [b - 1, a - e - 1, -c], [a - e, None], [None, b - e] if b < e else [a, None]][draw(st.integers(0, 10))] if d < 3 else
                                  [[a, b, c], [a, b], [None, None], [None, None, -c], [b - 1, a - e - 1, -c]][draw(st.integers(0, 4))])
                encs = slice_encodings(sl)
                if not encs:
                    sl = [[0, e, 1] for e in shape]
                    encs = slice_encodings(sl)
                args = {"enc": draw(st.sampled_from(encs)), "slices": sl}
            base = {"op": "mview", "view": v, "shape": shape, "src_layout": draw(st.sampled_from(["row", "col"])), "args": args}
            vs = numpy_view(np.arange(prod(shape)).reshape(shape), base).shape
            return dict(base, index=[draw(st.integers(0, e - 1)) for e in vs], value=draw(st.integers(-9999, 9999)))

        return st.one_of(hist(), hist(), hist(), mview())

    def request(self, case):
        if case["op"] == "mview" and case["view"] == "mutable_slice" and case["args"].get("enc") == "packed":
            return dict(case, op=("mview_packed3" if len(case["args"]["slices"]) == 3 else "mview_packed12") + ("_col" if case.get("src_layout") == "col" else ""))
        return case

    # ---- known findings ---------------------------------------------------
    def _finding(self, case):
        if case["op"] != "hist":
            return None
        fs = []
        fs += config_findings(case["kind"], case.get("layout", "row"))
        for s_, info, before, _ in walk(case):
            f = step_finding(case["kind"], s_, before)
            if f and f not in fs:
                fs.append(f)
        # a history may enter several classes: one that is still a listed (known) finding decides
        for f in fs:
            if f in self._excl:
                return f
        return fs[0] if fs else None

    def excluded(self, case):
        if case.get("_witness"):
            return None
        f = self._finding(case)
        return f if f in self._excl else None

    def features(self, case, failure):
        return {"finding": self._finding(case), "kind": case.get("kind"), "view": case.get("view")}

    # ---- classification ---------------------------------------------------
    def _tags(self, case):
        out = set()
        if case["op"] != "hist":
            src = np.arange(prod(case["shape"])).reshape(case["shape"])
            v = numpy_view(src, case)
            if case["view"] != "mutable_ref" and not (v.shape == src.shape and v.size == src.size):
                out.add("write_through_nonidentity_view")
            return out
        refused_seen = False
        for s_, info, before, after in walk(case):
            if refused_seen:
                out.add("refused_then_more")
            if s_[0] in RESIZE_OPS:
                out.add(s_[0] + "_form")
                if info["r"] is True:
                    out.add("resize_ok")
                    if info["dim_change"]:
                        out.add("dim_change")
                    if case.get("layout") == "col":
                        out.add("col_major_resize")
                elif info["r"] is False:
                    out.add("resize_refused")
                    refused_seen = True
                else:
                    out.add("resize_inexpressible")
            elif s_[0] in ("copy", "assign"):
                out.add("self_assign" if s_[1] == s_[2] else s_[0])
            elif s_[0] == "cast_kind" and not cast_in_domain(case["kind"], before[s_[1]].shape, s_[2]):
                out.add("cast_kind_out_of_domain")
            elif s_[0] == "cast_kind":
                out.add("cast_kind_ok" if cast_expressible(case["kind"], s_[2]) else "cast_kind_inexpressible")
            else:
                out.add(s_[0])
        return out

    def nontrivial(self, case):
        return bool(self._tags(case) & {"refused_then_more", "dim_change", "col_major_resize", "write_through_nonidentity_view"})

    def classes(self, case):
        if case["op"] != "hist":
            return ["view:" + case["view"], "src_layout:" + case.get("src_layout", "row"), "enc:" + str((case.get("args") or {}).get("enc", "-")), "vdim:%d" % len(case["index"])] + sorted(self._tags(case))
        return ["kind:" + case["kind"], "layout:" + case.get("layout", "row"), "len:%d" % len(case["steps"])] + sorted("op:" + t for t in self._tags(case))

    # ---- oracle -----------------------------------------------------------
    def check(self, case, obs):
        cf = crash_failure(obs)
        if cf:
            return cf
        if "oob" in obs:
            return "out-of-range container access inside the library: " + obs["oob"][:120]
        if "error" in obs:
            return "HARNESS-ERROR server: " + obs["error"]
        if case["op"] == "mview":
            return self._check_mview(case, obs)
        return self._check_hist(case, obs)

    def _check_mview(self, case, obs):
        shape = case["shape"]
        src = np.arange(prod(shape)).reshape(shape)
        try:
            v = numpy_view(src, case)
            if v.base is None and v is not src:
                return "HARNESS-ERROR NumPy produced a copy, not a view"
        except Exception as e:
            return "HARNESS-ERROR generator produced invalid view arguments: %r" % (e,)
        what = "%s%s on %s-major shape %s" % (case["view"], json.dumps(case.get("args") or {}), case.get("src_layout", "row"), shape)
        if obs.get("events"):
            return "%s: verification hook event(s) %s" % (what, obs["events"][:4])
        if obs.get("hv") is False:
            return "%s: nmtools returned Nothing for valid arguments" % what
        if obs["vshape"] != list(v.shape):
            return "%s: view shape %s != NumPy %s" % (what, obs["vshape"], list(v.shape))
        if obs["vdim"] != v.ndim:
            return "%s: view dim %s != NumPy %s" % (what, obs["vdim"], v.ndim)
        if not obs.get("written"):
            return "HARNESS-ERROR index %s not inside the view shape %s" % (case["index"], obs["vshape"])
        v[tuple(case["index"])] = case["value"]
        if obs["sshape"] != list(shape):
            return "%s: source shape changed to %s" % (what, obs["sshape"])
        exp = src.reshape(-1).tolist()
        if obs["src"] != exp:
            diff = [k for k, (a, b) in enumerate(zip(obs["src"], exp)) if a != b]
            return "%s: view(%s) = %d changed source elements (flat) %s to %s, NumPy changes %s" % (
                what, case["index"], case["value"], diff[:6], [obs["src"][k] for k in diff[:6]], [k for k, e in enumerate(exp) if e == case["value"]])
        nchanged = int((src.reshape(-1) != np.arange(prod(shape))).sum())      # 1 unless the value equals the old one
        if obs["flat_changed"] != nchanged:
            return "%s: view(%s) = %d changed %s entries of the source buffer, expected exactly %d" % (what, case["index"], case["value"], obs["flat_changed"], nchanged)
        if obs["view"] != v.reshape(-1).tolist():
            return "%s: view read back %s != NumPy %s" % (what, obs["view"][:12], v.reshape(-1).tolist()[:12])
        return None

    def _check_hist(self, case, obs):
        kind, layout = case["kind"], case.get("layout", "row")
        trace = obs.get("trace")
        if not trace:
            return "HARNESS-ERROR no trace"
        f = self._cmp_entry(kind, layout, init_state(), trace[0])
        if f:
            return "after construction from int[3][4]: " + f
        if trace[0]["nev"]:
            return "after construction: verification hook event(s) %s" % (obs.get("events") or [])[:4]
        i = -1
        for i, (s_, info, before, after) in enumerate(walk(case)):
            if i + 1 >= len(trace):
                return "HARNESS-ERROR trace ends after step %d without a divergence (stopped=%s)" % (i - 1, obs.get("stopped"))
            ent, prev = trace[i + 1], trace[i]
            where = " [%s %s after step %d %s]" % (kind, layout, i, json.dumps(s_))
            op = s_[0]
            touched = set()
            if op in RESIZE_OPS:
                k = s_[1]
                if ent.get("r") != info["r"]:
                    return "resize returned %s, the types admit this request: %s (current shape %s)" % (ent.get("r"), info["r"], before[k].shape) + where
                if info["r"] is True:
                    touched.add(k)
                elif ent["slots"][k] != prev["slots"][k]:
                    return "%s resize changed the object: %s" % ("refused" if info["r"] is False else "inexpressible", self._diff(prev["slots"][k], ent["slots"][k])) + where
            elif op in ("write", "fill_ids", "default"):
                touched.add(s_[1])
                if "skipped" in ent:
                    return "HARNESS-ERROR write skipped: " + ent["skipped"] + where
            elif op in ("copy", "assign"):
                touched.add(s_[1])
                if ent["slots"][s_[1]] != ent["slots"][s_[2]]:
                    return "%s: destination differs from source: %s" % (op, self._diff(ent["slots"][s_[2]], ent["slots"][s_[1]])) + where
            for k in (0, 1):
                if k not in touched and ent["slots"][k] != prev["slots"][k]:
                    return "object %d is not addressed by this step but changed: %s" % (k, self._diff(prev["slots"][k], ent["slots"][k])) + where
            f = self._cmp_entry(kind, layout, after, ent)
            if f:
                return f + where
            if op in ("cast_kind", "cast_dtype") and not (op == "cast_kind" and not cast_in_domain(kind, before[s_[1]].shape, s_[2])):
                f = self._check_cast(kind, s_, ent)
                if f:
                    return f if f.startswith("HARNESS-ERROR") else f + where
            if ent["nev"] != prev["nev"]:
                return "verification hook event(s) [kind,a,b] %s (4 static_vector capacity, 5 clipped clamp, 7 index >= extent, 8 offset >= buffer length, 2/9 static_vector index)" % (obs.get("events") or [])[:4] + where
        if len(trace) != len(case["steps"]) + 1:
            return "HARNESS-ERROR trace has %d entries for %d steps" % (len(trace), len(case["steps"]))
        return None

    @staticmethod
    def _diff(a, b):
        if a is None or b is None:
            return "%s -> %s" % (a, b)
        return "; ".join("%s %s -> %s" % (k, a.get(k), b.get(k)) for k in sorted(set(a) | set(b)) if a.get(k) != b.get(k))[:400]

    def _cmp_entry(self, kind, layout, state, ent):
        for k in (0, 1):
            f = self._cmp_slot(kind, layout, state[k], ent["slots"][k])
            if f:
                return "object %d: %s" % (k, f)
        return None

    def _cmp_slot(self, kind, layout, m, g):
        if m is None:
            return None if g is None else "exists but the model has no object"
        if g is None:
            return "missing"
        sk, bk = structure(kind)
        n = prod(m.shape)
        if g["shape"] != m.shape:
            return "shape() %s, model %s" % (g["shape"], m.shape)
        if g["dim"] != len(m.shape):
            return "dim() %s for shape %s" % (g["dim"], m.shape)
        if g["size"] != n:
            return "size %s != product of shape %s" % (g["size"], m.shape)
        if "msize" in g and g["msize"] != n:
            return "size() %s != product of shape %s" % (g["msize"], m.shape)
        if "strides" in g and g["strides"] != strides_of(m.shape):
            return "strides() %s != %s for shape %s" % (g["strides"], strides_of(m.shape), m.shape)
        if "buflen" in g:
            if kind == "hybrid_ndarray" or bk == "fb":
                if g["buflen"] != N0:
                    return "buffer length %s, fixed buffer of %d" % (g["buflen"], N0)
            elif g["buflen"] != n:
                return "buffer length %s != element count %d of shape %s" % (g["buflen"], n, m.shape)
        if g.get("overrun"):
            return "shape %s addresses %d elements but the buffer holds %s: a(i...) inside the reported shape leaves the buffer" % (g["shape"], n, g.get("buflen"))
        el = np.array(g["elems"], dtype=np.int64).reshape(m.shape)
        bad = m.known & (el != m.vals)
        if bad.any():
            idx = tuple(int(x) for x in np.argwhere(bad)[0])
            return "a%s reads %d, written %d (shape %s)" % (idx, el[idx], m.vals[idx], m.shape)
        fl = g["flat"]
        if len(fl) != n:
            return "flat buffer has %d readable entries, expected %d" % (len(fl), n)
        order = "F" if layout == "col" else "C"
        fe, fk = m.vals.ravel(order=order), m.known.ravel(order=order)
        fa = np.array(fl, dtype=np.int64)
        badf = fk & (fa != fe)
        if badf.any():
            j = int(np.argwhere(badf)[0][0])
            return "flat buffer [%d] = %d, %s-order expects %d (shape %s)" % (j, fa[j], order, fe[j], m.shape)
        return None

    def _check_cast(self, kind, s_, ent):
        got = ent.get("cast")
        src = ent["slots"][s_[1]]
        if s_[0] == "cast_kind":
            want = cast_expressible(kind, s_[2])
            if (got == "inexpressible") == want:
                return "HARNESS-ERROR cast(%s -> %s) expressibility: server %s, model %s" % (kind, s_[2], got if got == "inexpressible" else "expressible", want)
            if not want:
                return None
            exp = list(src["elems"])
            t = "i32"
        else:
            if got == "inexpressible" or got is None:
                return "HARNESS-ERROR cast_dtype not performed"
            dt = DTYPES[s_[2]]
            exp = np.array(src["elems"], dtype=np.int64).astype(dt).tolist()
            t = s_[2]
        what = "cast to %s: " % s_[2]
        if got.get("overrun"):
            return what + "result reports shape %s but its buffer holds %s" % (got["shape"], got.get("buflen"))
        if got["shape"] != src["shape"]:
            return what + "result shape %s != source shape %s" % (got["shape"], src["shape"])
        if got["size"] != prod(src["shape"]):
            return what + "result size %s != %d" % (got["size"], prod(src["shape"]))
        if got["t"] != t:
            return what + "element type %s" % got["t"]
        if got["elems"] != exp:
            return what + "values %s != converted source %s" % (got["elems"][:12], exp[:12])
        return None
