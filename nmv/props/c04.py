"""C04 — selecting, replicating, joining, generating views equal their reference result."""
import itertools

import numpy as np
from hypothesis import strategies as st

from ..core import Prop
from .. import refs
from .common import small_shapes, crash_failure, prod, arange_array, pipe

FILL = -7


def neg_spellings(d):
    return list(range(-d, d))


def args_unary(op, shape, thorough):
    d = len(shape)
    n = prod(shape)
    if op == "tile":
        for L in range(1, d + 2):
            for reps in itertools.product(range(1, 4 if thorough else 3), repeat=L):
                if prod(shape) * prod(reps) <= 600:
                    yield {"reps": list(reps)}
    elif op == "repeat":
        for r in (1, 2, 3):
            yield {"repeats": r, "axis": None}
        for ax in neg_spellings(d):
            m = shape[ax]
            for r in (1, 2, 3):
                yield {"repeats": r, "axis": ax}
            pats = itertools.product((1, 2, 3), repeat=m) if m <= 5 else [[1 + (i * k) % 3 for i in range(m)] for k in (1, 2, 4)]
            for pat in pats:
                if thorough or sum(pat) % 2 == 0:
                    yield {"repeats": list(pat), "axis": ax}
    elif op == "roll":
        for s in sorted(set(list(range(-n - 1, n + 2)) + [-2 * n, 2 * n])):
            yield {"shift": s, "axis": None}
        for ax in neg_spellings(d):
            m = shape[ax]
            for s in range(-2 * m, 2 * m + 1):
                yield {"shift": s, "axis": ax}
        if d >= 2:
            for axs in itertools.permutations(range(d), 2):
                for s in ((1, -1), (2, 1), (-3, 2)):
                    yield {"shift": list(s), "axis": [axs[0], axs[1] - d]}
                yield {"shift": 1, "axis": list(axs)}
    elif op == "pad":
        if d <= 3:
            opts = list(itertools.product(range(0, 3), repeat=2 * d))
            step = 1 if (thorough or len(opts) <= 81) else max(1, len(opts) // 60)
            for pw in opts[::step]:
                yield {"pad_width": list(pw), "value": FILL}
        else:
            # 3^(2d) width vectors do not fit in memory for larger ranks (pipelines reach rank 6+): a fixed spread instead
            for k in range(60):
                yield {"pad_width": [((k * 7 + i * 5) // (i + 1)) % 3 for i in range(2 * d)], "value": FILL}
    elif op == "resize":
        if d <= 4:
            for dst in itertools.product(range(1, 5), repeat=d):
                yield {"shape": list(dst)}
        else:
            for k in range(64):
                yield {"shape": [1 + ((k * 3 + i * 7) // (i + 1)) % 4 for i in range(d)]}
    elif op == "take":
        lists = lambda m: [[0], [m - 1], [-1], [-m], [0, 0], [m - 1, 0, -m], list(range(m)), list(range(m - 1, -1, -1)), [-1, -1, 0]]
        for idx in lists(n):
            yield {"indices": idx, "axis": None}
        for ax in neg_spellings(d):
            for idx in lists(shape[ax]):
                yield {"indices": idx, "axis": ax}
    elif op == "compress":
        for mask in itertools.product((0, 1), repeat=min(n, 6)):
            if any(mask) and n <= 6:
                yield {"condition": list(mask), "axis": None}
        for ax in neg_spellings(d):
            m = shape[ax]
            masks = itertools.product((0, 1), repeat=m) if m <= 6 else [[(i * k + 1) % 3 % 2 for i in range(m)] for k in (1, 2, 5)] + [[1] * m]
            for mask in masks:
                if any(mask):
                    yield {"condition": list(mask), "axis": ax}
    elif op == "split":
        for ax in neg_spellings(d):
            m = shape[ax]
            for sec in range(1, m + 1):
                if m % sec == 0:
                    for k in range(sec):
                        yield {"ios": sec, "axis": ax, "k": k}
            for r in range(1, min(m, 4)):
                for cuts in itertools.islice(itertools.combinations(range(1, m), r), 40):
                    for k in range(len(cuts) + 1):
                        yield {"ios": list(cuts), "axis": ax, "k": k}
    elif op == "sliding_window":
        if d == 1:
            for wv in range(1, shape[0] + 1):
                yield {"window_shape": wv, "axis": None}
        for ws in itertools.product(*[range(1, e + 1) for e in shape]):
            yield {"window_shape": list(ws), "axis": None}
        for ax in neg_spellings(d):
            for wv in range(1, shape[ax] + 1):
                yield {"window_shape": wv, "axis": ax}
        if d >= 2:
            for axs in itertools.permutations(range(d), 2):
                for ws in itertools.product(range(1, shape[axs[0]] + 1), range(1, shape[axs[1]] + 1)):
                    yield {"window_shape": list(ws), "axis": [axs[0], axs[1] - d]}
    elif op == "expand":
        for ax in neg_spellings(d):
            for sp in (0, 1, 2):
                yield {"axis": ax, "spacing": sp, "fill": FILL}
        for r in range(1, d + 1):
            for axs in itertools.combinations(range(d), r):
                al = [x - d if i % 2 else x for i, x in enumerate(axs)]
                yield {"axis": al, "spacing": 1, "fill": FILL}
                yield {"axis": al, "spacing": [1 + (i % 2) for i in range(r)], "fill": FILL}
    elif op == "diagonal":
        if d >= 2:
            for a1 in neg_spellings(d):
                for a2 in neg_spellings(d):
                    if a1 % d == a2 % d:
                        continue
                    r, c = shape[a1], shape[a2]
                    for off in range(-r + 1, c):
                        yield {"offset": off, "axis1": a1, "axis2": a2}
    elif op == "diagflat":
        for k in range(-2, 3):
            if (n + abs(k)) ** 2 <= 400:
                yield {"k": k}
    elif op in ("tril", "triu"):
        if d >= 2:
            m = max(shape[-1], shape[-2])
            for k in range(-m - 1, m + 2):
                yield {"k": k}
    elif op in ("zeros_like", "ones_like"):
        yield {}
    elif op == "full_like":
        yield {"fill": 5}


UNARY = ["tile", "repeat", "roll", "pad", "resize", "take", "compress", "split", "sliding_window", "expand", "diagonal",
         "diagflat", "tril", "triu", "zeros_like", "ones_like", "full_like"]


def binary_cases(thorough):
    shapes = list(small_shapes(1, 3, 3))
    for a in shapes:
        d = len(a)
        # concatenate / stack
        for ax in neg_spellings(d):
            for m in (1, 2, 3):
                b = list(a)
                b[ax] = m
                yield "concatenate", a, b, {"axis": ax}
        yield "concatenate", a, a, {"axis": None}
        yield "concatenate", a, [2], {"axis": None}
        for ax in range(-(d + 1), d + 1):
            yield "stack", a, a, {"axis": ax}
        # hstack: 1-d any lengths; n-d differ along axis 1
        if d == 1:
            for m in (1, 2, 3):
                yield "hstack", a, [m], {}
                yield "column_stack", a, a, {}
            yield "vstack", a, a, {}
            yield "dstack", a, a, {}
            yield "vstack", a, [1] + a, {}
            yield "column_stack", a, [a[0], 2], {}
        else:
            for m in (1, 2, 3):
                b = list(a); b[1] = m
                yield "hstack", a, b, {}
                b = list(a); b[0] = m
                yield "vstack", a, b, {}
                if d >= 3:
                    b = list(a); b[2] = m
                    yield "dstack", a, b, {}
                if d == 2:
                    yield "column_stack", a, b if False else [a[0], m], {}
            if d == 2:
                yield "dstack", a, a, {}
                yield "vstack", a, [a[1]], {}
                yield "column_stack", a, [a[0]], {}


def where_cases(thorough):
    shapes = list(small_shapes(1, 2, 3))
    k = 0
    for c in shapes:
        for x in shapes:
            for y in shapes:
                if refs.broadcast_shapes([c, x, y]) is None:
                    continue
                k += 1
                if not thorough and k % 5:
                    continue
                yield c, x, y


def gen_cases(thorough):
    rng = range(-3, 6)
    for stop in range(1, 8):
        yield "arange", {"start": None, "stop": stop, "step": None, "dt": "i32"}
        yield "arange", {"start": None, "stop": stop, "step": None, "dt": "f64"}
    for start in rng:
        for stop in rng:
            if stop > start:
                yield "arange", {"start": start, "stop": stop, "step": None, "dt": "i32"}
            for step in (-3, -2, -1, 1, 2, 3):
                if len(range(start, stop, step)) > 0:
                    yield "arange", {"start": start, "stop": stop, "step": step, "dt": "i32"}
            for step in (0.5, 0.25, 1.5, 2.0, -0.5, -1.5):
                if len(np.arange(start, stop, step)) > 0:
                    yield "arange", {"start": start, "stop": stop, "step": step, "dt": "f64"}
    for start in (-2.0, 0.0, 0.5, 3.0):
        for stop in (-1.0, 0.0, 1.0, 2.5, 8.0):
            for num in range(1, 10):
                for ep in (True, False):
                    yield "linspace", {"start": start, "stop": stop, "num": num, "endpoint": ep}
    for N in range(1, 6):
        yield "identity", {"N": N}
        for M in (None, 1, 2, 3, 4, 5):
            for k in range(-N - 1, (M or N) + 2):
                yield "eye", {"N": N, "M": M, "k": k}
                yield "tri", {"N": N, "M": M, "k": k}
    for shape in small_shapes(1, 3, 3):
        for dt in ("i32", "f64"):
            yield "zeros", {"shape": shape, "dt": dt}
            yield "ones", {"shape": shape, "dt": dt}
            yield "full", {"shape": shape, "fill": 9 if dt == "i32" else 2.5, "dt": dt}


class C04(Prop):
    id = "C04"
    servers = ["select"]
    chunk = 150
    rule = ("case = one selecting/replicating/joining/generating view on arange data (all source elements distinct, so every non-fill output "
            "element identifies its source element) with arguments from the small space of the quantifier (reps/repeats 1..3, shifts in [-2n,2n], "
            "pad widths 0..2 per side, index lists with negative and repeated entries, every valid axis incl. negative and None, 2 operands for joins), "
            "read lazily at every index and through four eval paths; reference = NumPy, or the docstring definition for pad/resize/expand. "
            "non-trivial = output contains >= 2 distinct source elements or a fill value next to a source element; distinct = canonical JSON")
    assumptions = ["NumPy is the reference (tile, repeat, roll, take, compress, concatenate, stack, hstack, vstack, dstack, column_stack, split, "
                   "sliding_window_view, diagonal, diagflat, tril, triu, where, arange, linspace, eye, identity, tri, full/zeros/ones(_like))",
                   "pad: ONNX width order + constant fill (index/pad.hpp docstring); resize: nearest neighbour floor(i*src/dst); expand: view/expand.hpp",
                   "tril/triu on 1-d input (NumPy promotes to 2-d) and zero-size results are outside the domain",
                   "linspace compared with relative tolerance 1e-6 (float32 internal arithmetic is allowed by the API), everything else exact"]

    def exhaustive_space(self, tier):
        return "source shapes dim1..3 ext1..3 (+ dim 4 ext1..2 in thorough) x full small argument space per op; joins over shape pairs; where triples; generator grids"

    def exhaustive(self, tier):
        th = tier == "thorough"
        shapes = list(small_shapes(1, 3, 3)) + (list(small_shapes(4, 4, 2)) if th else [[2, 1, 2, 2], [1, 2, 2, 1]])
        for shape in shapes:
            for op in UNARY:
                args = list(args_unary(op, shape, th))
                step = 1 if (th or len(args) <= 40) else max(1, len(args) // 40)
                for a in args[::step]:
                    yield pipe([arange_array(shape, start=1)], [(op, [0], a)], eval=True)
        for op, a, b, args in binary_cases(th):
            yield pipe([arange_array(a, start=1), arange_array(b, start=101)], [(op, [0, 1], args)], eval=True)
        for c, x, y in where_cases(th):
            cond = {"shape": c, "data": [(i * 7 + len(c)) % 3 % 2 for i in range(prod(c))]}
            yield pipe([cond, arange_array(x, start=1), arange_array(y, start=101)], [("where", [0, 1, 2], {})], eval=True)
        for op, args in gen_cases(th):
            yield pipe([], [(op, [], args)], eval=True)

    def n_random(self, tier):
        return 6000 if tier == "quick" else 100000

    def strategy(self, tier):
        @st.composite
        def case(draw):
            d = draw(st.integers(1, 4))
            shape = []
            p = 1
            for _ in range(d):
                e = draw(st.integers(1, max(1, min(6, 200 // p))))
                shape.append(e)
                p *= e
            op = draw(st.sampled_from(UNARY))
            args = list(args_unary(op, shape, True))
            if not args:
                op = "roll"
                args = list(args_unary(op, shape, True))
            a = args[draw(st.integers(0, len(args) - 1))]
            dt = draw(st.sampled_from(["i32", "i32", "f64"]))
            if op in ("pad", "expand") and dt == "f64":
                a = dict(a)
            return pipe([arange_array(shape, dt, start=1)], [(op, [0], a)], eval=True)
        return case()

    # ---- known-finding input classes (known_findings.json) -------------------------------
    NEG_AXIS_OPS = ("repeat", "take", "compress", "concatenate", "stack")

    def _findings(self, case):
        s = case["stages"][0]
        f = s["f"]
        a = s.get("a") or {}
        out = []
        axes = []
        for k in ("axis", "axis1", "axis2"):
            v = a.get(k)
            if isinstance(v, int):
                axes.append(v)
            elif isinstance(v, list):
                axes += v
        if f in self.NEG_AXIS_OPS and any(x < 0 for x in axes):
            out.append("C04-negative-axis-" + f)
        if f == "diagonal" and a["offset"] < 0:
            out.append("C04-diagonal-negative-offset")
        if f == "roll":
            shp = case["arrays"][0]["shape"]
            if a["axis"] is None:
                if abs(a["shift"]) > prod(shp):
                    out.append("C04-roll-shift-exceeds-extent")
            else:
                axl = a["axis"] if isinstance(a["axis"], list) else [a["axis"]]
                shl = a["shift"] if isinstance(a["shift"], list) else [a["shift"]] * len(axl)
                if any(abs(sv) > shp[ax] for sv, ax in zip(shl, axl)):
                    out.append("C04-roll-shift-exceeds-extent")
        if f == "take" and any(i < 0 for i in a["indices"]):
            out.append("C04-take-negative-index")
        if f == "linspace" and a["num"] == 1:
            out.append("C04-linspace-num-1")
        return out

    def _finding(self, case):
        from ..core import pick_class
        return pick_class(self.id, self._findings(case))

    def excluded(self, case):
        if case.get("_witness"):
            return None
        return self._finding(case)

    def features(self, case, failure):
        return {"finding": self._finding(case)}

    def nontrivial(self, case):
        kind, val = refs.run_pipe(case)
        if kind != "ok":
            return False
        return len(set(val.reshape(-1).tolist())) >= 2

    def classes(self, case):
        s = case["stages"][0]
        out = ["op:" + s["f"]]
        a = s.get("a") or {}
        ax = a.get("axis", "absent")
        if ax is None:
            out.append("axis:None")
        elif isinstance(ax, int) and ax < 0:
            out.append("axis:negative")
        elif isinstance(ax, list):
            out.append("axis:list")
        if case["arrays"]:
            out.append("dim:%d" % len(case["arrays"][0]["shape"]))
        return out

    def check(self, case, obs):
        cf = crash_failure(obs)
        if cf:
            return cf
        if "oob" in obs:
            return "out-of-range container access inside the library: " + obs["oob"][:120]
        tol = 1e-6 if case["stages"][0]["f"] == "linspace" else None
        return refs.check_pipe(case, obs, tol=tol)
