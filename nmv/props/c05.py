"""C05 — slicing follows Python/NumPy basic-indexing semantics."""
import itertools

import numpy as np
from hypothesis import strategies as st

from ..core import Prop
from .. import refs
from .common import crash_failure, prod, arange_array, pipe

# ---------------------------------------------------------------------------
# classification of one (start, stop, step) spec against extent n; used (a) for
# the generator-health histogram and (b) to name the input class of the known
# findings (known_findings.json), whose members are excluded by construction.
# ---------------------------------------------------------------------------


def bcls(v, n):
    if v is None:
        return "none"
    if v > n:
        return ">n"
    if v == n:
        return "==n"
    if v >= 0:
        return "in+"
    if v >= -n:
        return "in-"
    return "<-n"


def scls(v):
    return "none" if v is None else ("neg" if v < 0 else "pos")


def axis_class(n, sp):
    start, stop = sp[0], sp[1]
    step = sp[2] if len(sp) == 3 else None
    ln = len(range(*slice(start, stop, step).indices(n)))
    return (bcls(start, n), bcls(stop, n), scls(step), "empty" if ln == 0 else "nonempty")


# classes (start, stop, step, emptiness) in which the unchanged library agrees with Python for
# every member with n in 1..6, bounds in [-(n+2), n+2], |step| <= 3 (measured exhaustively once,
# scratch exploration; committed as a constant, never recomputed at run time)
OK_FULL = {
    ('==n', '==n', 'neg', 'empty'), ('==n', '==n', 'none', 'empty'), ('==n', '==n', 'pos', 'empty'), ('==n', '>n', 'neg', 'empty'),
    ('==n', '>n', 'none', 'empty'), ('==n', '>n', 'pos', 'empty'), ('==n', 'none', 'none', 'empty'), ('==n', 'none', 'pos', 'empty'),
    ('in+', '==n', 'none', 'nonempty'), ('in+', '==n', 'pos', 'nonempty'), ('in+', '>n', 'none', 'nonempty'), ('in+', '>n', 'pos', 'nonempty'),
    ('in+', 'in+', 'none', 'nonempty'), ('in+', 'in+', 'pos', 'nonempty'), ('in+', 'in-', 'none', 'nonempty'), ('in+', 'in-', 'pos', 'nonempty'),
    ('in+', 'none', 'neg', 'nonempty'), ('in+', 'none', 'none', 'nonempty'), ('in+', 'none', 'pos', 'nonempty'), ('in-', '==n', 'none', 'nonempty'),
    ('in-', '==n', 'pos', 'nonempty'), ('in-', '>n', 'none', 'nonempty'), ('in-', '>n', 'pos', 'nonempty'), ('in-', 'in-', 'none', 'nonempty'),
    ('in-', 'in-', 'pos', 'nonempty'), ('none', '==n', 'none', 'nonempty'), ('none', '==n', 'pos', 'nonempty'), ('none', '>n', 'none', 'nonempty'),
    ('none', '>n', 'pos', 'nonempty'), ('none', 'in+', 'none', 'empty'), ('none', 'in+', 'none', 'nonempty'), ('none', 'in+', 'pos', 'empty'),
    ('none', 'in+', 'pos', 'nonempty'), ('none', 'in-', 'none', 'empty'), ('none', 'in-', 'none', 'nonempty'), ('none', 'in-', 'pos', 'empty'),
    ('none', 'in-', 'pos', 'nonempty'), ('none', 'none', 'neg', 'nonempty'), ('none', 'none', 'none', 'nonempty'), ('none', 'none', 'pos', 'nonempty'),
}


def finding_of_axis(n, sp):
    """None if the spec lies in the conforming region, else the id of the known finding that names its class.
    Since the repair of the slice semantics (/repo fix: commit 31c6230, see known_findings.json) every class conforms; the
    historic classification is kept in legacy_class_of_axis for the generator-health histogram."""
    return None


def legacy_class_of_axis(n, sp):
    if isinstance(sp, int) or sp == "...":
        return None
    c = axis_class(n, sp)
    if c in OK_FULL:
        return None
    st_, so_, se_, em_ = c
    if se_ == "neg":
        return "C05-negative-step-with-bounds"
    if st_ in ("<-n", ">n") or so_ == "<-n":
        return "C05-unclamped-out-of-range-bound"
    if em_ == "empty":
        return "C05-empty-selection"
    if st_ == "in-" and so_ in ("none", "in+"):
        return "C05-negative-start-nonnegative-stop"
    return "C05-unclassified"


def py_spec(sp):
    if isinstance(sp, int):
        return sp
    if sp == "...":
        return Ellipsis
    return slice(sp[0], sp[1], sp[2] if len(sp) == 3 else None)


KIND = {(False, False, 2): 0, (False, True, 2): 1, (True, False, 2): 2, (True, True, 2): 3,
        (False, False, 3): 4, (False, True, 3): 5, (True, False, 3): 6, (True, True, 3): 7}


def kind_of(sp):
    if isinstance(sp, int):
        return 8
    if sp == "...":
        return 9
    three = len(sp) == 3 and sp[2] is not None
    return KIND[(sp[0] is not None, sp[1] is not None, 3 if three else 2)]


SUB3 = {0, 3, 4, 7, 8, 9}


def packed_op(slices):
    """name of the pre-instantiated packed op for this list of specs, or None"""
    ks = [kind_of(s) for s in slices]
    if ks.count(9) > 1:
        return None
    if len(ks) == 1:
        return "slice1"
    if len(ks) == 2:
        return "slice2_%d%d" % (ks[0] // 2 * 2, ks[0] // 2 * 2 + 1)
    if len(ks) == 3 and all(k in SUB3 for k in ks):
        return "slice3_%d" % ks[0]
    return None


EAGER3 = {0, 7, 8, 9}


def eager_op(shape, slices):
    """pre-instantiated op of the eager entry point array::slice for this list of specs, or None (rank-0 results are not arrays)"""
    ks = [kind_of(s) for s in slices]
    if ks.count(9) > 1:
        return None
    if sum(1 for k in ks if k == 8) >= len(shape):
        return None
    if len(ks) == 1:
        return "aslice1" if ks[0] != 9 else None
    if len(ks) == 2:
        return "aslice2_a" if ks[0] < 5 else "aslice2_b"
    if len(ks) == 3 and all(k in EAGER3 for k in ks):
        return "aslice3"
    return None


def dynamic_ops(slices):
    """dynamic encodings able to express this list of specs"""
    out = []
    tri = all(isinstance(s, list) and len(s) == 3 and None not in s for s in slices)
    if tri:
        out.append("dslice_tri")
    if all(isinstance(s, int) or s == "..." or (isinstance(s, list) and len(s) == 3 and None not in s) for s in slices):
        out.append("dslice_either_tri")
    if all(isinstance(s, int) or s == "..." or (isinstance(s, list) and len(s) == 3 and s[0] is None and s[1] is None and s[2] is not None) for s in slices):
        out.append("dslice_either_nni")
    if all(isinstance(s, list) and s[0] is None and s[1] is not None and (len(s) == 2 or s[2] is None) for s in slices):
        out.append("dslice_ni")
    if all(isinstance(s, list) and s[0] is not None and s[1] is not None and (len(s) == 2 or s[2] is None) for s in slices):
        out.append("dslice_ii")
    return out


def axes_of(shape, slices):
    """extent seen by each slice spec (ellipsis expands); None for the ellipsis itself"""
    nspec = sum(1 for s in slices if s != "...")
    out = []
    ax = 0
    for s in slices:
        if s == "...":
            ax += len(shape) - nspec
            out.append(None)
        else:
            out.append(shape[ax] if ax < len(shape) else None)
            ax += 1
    return out


def all_specs(n, lo, hi, steps=(None, -3, -2, -1, 1, 2, 3)):
    rng = [None] + list(range(lo, hi + 1))
    for a in rng:
        for b in rng:
            for c in steps:
                yield [a, b, c] if c is not None else [a, b]


class C05(Prop):
    id = "C05"
    servers = ["slice"]
    chunk = 300
    rule = ("case = an arange array (dim 1..3) and a basic index (ranges start:stop:step with optional parts, integers, at most one ellipsis) in one "
            "encoding: packed/static (tuple parts with None/int types; lazily through view::slice and eagerly through array::slice) or dynamic (list of array<int,3>, list of either<int,either<ellipsis,...>>, "
            "list of tuple<none,int> / tuple<int,int>); the view's shape and every element are compared with Python/NumPy basic indexing; index-level "
            "cases use extents up to 2^31 without storage. Exhaustive per axis: n in 1..6, start/stop in [-(n+2), n+2] or omitted, step in {-3..3}\\{0} or omitted. "
            "Specs inside the input classes of the known findings are excluded by construction and counted. "
            "non-trivial = not [:] and (selects >= 1 element or is an empty selection); distinct = canonical JSON")
    assumptions = ["Python slice.indices / NumPy basic indexing are the reference",
                   "view::slice(a, one_tuple) does not compile (CTAD copies the tuple): the 1-slice packed form goes through view::apply_slice with an explicit tuple<tuple<...>>"]

    def exhaustive_space(self, tier):
        return "1 axis: n 1..6 x all (start,stop,step) x 6 encodings; 2 axes: reduced bound set x all kind pairs; ints, ellipsis in every position; 3 axes sampled"

    # ---- case construction ------------------------------------------------
    def _mk(self, shape, slices, f):
        return pipe([arange_array(shape)], [(f, [0], {"slices": slices})], eval=False)

    def _encodings(self, shape, slices):
        f = packed_op(slices)
        if f:
            yield self._mk(shape, slices, f)
        f = eager_op(shape, slices)
        if f:
            yield self._mk(shape, slices, f)
        for f in dynamic_ops(slices):
            yield self._mk(shape, [s if not (isinstance(s, list) and len(s) == 2) else s + [None] for s in slices] if f in ("dslice_ni", "dslice_ii") else slices, f)

    def exhaustive(self, tier):
        # one axis, exhaustive
        for n in range(1, 7):
            for sp in all_specs(n, -(n + 2), n + 2):
                yield from self._encodings([n], [sp])
            for i in range(-n, n):
                yield from self._encodings([n], [i])
            # a spec followed / preceded by an ellipsis on a 2-d array
            for sp in all_specs(n, -1, n, steps=(None, -1, 2)):
                yield from self._encodings([n, 2], [sp, "..."])
                yield from self._encodings([2, n], ["...", sp])
        # two axes: reduced bound set, all kind pairs
        for n, m in ((3, 2), (2, 4), (1, 3), (4, 4)):
            sa = list(all_specs(n, -n, n, steps=(None, -1, 1, 2))) + list(range(-n, n)) + ["..."]
            sb = list(all_specs(m, -m, m, steps=(None, -1, 1, 2))) + list(range(-m, m)) + ["..."]
            k = 0
            step = 1 if tier == "thorough" else 7
            for a in sa:
                for b in sb:
                    k += 1
                    if k % step:
                        continue
                    if a == "..." and b == "...":
                        continue
                    yield from self._encodings([n, m], [a, b])
                    if a != "..." and b != "..." and k % 3 == 0:
                        yield from self._encodings([n, 2, m], [a, "...", b])

        # an ellipsis in every position covering 0, 1 or 2 axes of a 3-d / 4-d array, integers (both signs) and ranges around it
        def opts(n):
            o = [0, -1, [None, None], [None, None, -1], [-n, None, 2]]
            if n >= 2:
                o += [n - 1, -n, [1, None], [None, -1], [n - 1, 0, -1]]
            return o
        for shape in ([2, 3, 4], [3, 1, 2], [2, 2, 3, 2]):
            d = len(shape)
            for k in range(1, d + 1):
                for pos in range(k + 1):
                    axes = list(range(pos)) + list(range(d - (k - pos), d))
                    for combo in itertools.product(*[opts(shape[ax]) for ax in axes]):
                        sl = [c if isinstance(c, int) else list(c) for c in combo]
                        sl.insert(pos, "...")
                        yield from self._encodings(shape, sl)

        # index level (no storage): small extents exhaustively, large extents at the float-mantissa / int boundaries
        for n in range(1, 7):
            for sp in all_specs(n, -(n + 2), n + 2):
                ln = len(range(*py_spec(sp).indices(n)))
                probe = sorted(set([0, ln // 2, ln - 1])) if ln else []
                yield {"op": "islice1", "n": n, "slice": sp + [None] if len(sp) == 2 else sp, "probe": probe}
                if len(sp) == 3 and None not in sp:
                    yield {"op": "islice1", "n": n, "slice": sp, "probe": probe, "dynamic": True}
        for n in (2 ** 24 - 1, 2 ** 24, 2 ** 24 + 1, 2 ** 24 + 3, 2 ** 31 - 1, 2 ** 31 - 2, 10 ** 9 + 7):
            for span in (1, 5, 1000, 2 ** 24 - 1, 2 ** 24, 2 ** 24 + 1, n):
                if span > n:
                    continue
                for stp in (None, 1, 2, 3, 7):
                    for a, b in ((n - span, n), (0, span), (n - span, None), (None, span), (-span, n) if span <= n else (0, n)):
                        sp = [a, b, stp]
                        ln = len(range(*py_spec(sp).indices(n)))
                        probe = sorted(set([0, ln // 2, ln - 1])) if ln else []
                        yield {"op": "islice1", "n": n, "slice": sp, "probe": probe}
                        if None not in sp:
                            yield {"op": "islice1", "n": n, "slice": sp, "probe": probe, "dynamic": True}

    def n_random(self, tier):
        return 20000 if tier == "quick" else 300000

    def strategy(self, tier):
        @st.composite
        def case(draw):
            d = draw(st.integers(1, 3))
            shape = [draw(st.integers(1, 6)) for _ in range(d)]
            k = draw(st.integers(1, d))
            # position of the ellipsis among the k specs (None: no ellipsis, only when every axis has a spec); specs before it address the
            # leading axes, specs after it the trailing axes
            pos = draw(st.integers(0, k)) if (k < d or draw(st.integers(0, 3)) == 0) else None
            axes = list(range(k)) if pos is None else list(range(pos)) + list(range(d - (k - pos), d))
            slices = []
            for ax in axes:
                n = shape[ax]
                t = draw(st.integers(0, 9))
                if t <= 1:
                    slices.append(draw(st.integers(-n, n - 1)))
                else:
                    b = st.one_of(st.none(), st.integers(-(n + 2), n + 2))
                    stp = draw(st.sampled_from([None, None, 1, 2, 3, -1, -2, -3]))
                    a_, b_ = draw(b), draw(b)
                    slices.append([a_, b_, stp] if stp is not None else [a_, b_])
            if pos is not None:
                slices.insert(pos, "...")
            encs = list(self._encodings(shape, slices))
            if not encs:
                return self._mk(shape, [[None, None]] * d, "slice%d" % d if d == 1 else None) if d == 1 else self._mk([shape[0]], [[None, None]], "slice1")
            return encs[draw(st.integers(0, len(encs) - 1))]
        return case()

    # ---- classification ---------------------------------------------------
    def _slices(self, case):
        return case["stages"][0]["a"]["slices"]

    def _finding(self, case):
        if case["op"] != "pipe":
            sp = case["slice"]
            f = finding_of_axis(case["n"], sp)
            if f:
                return f
            return None
        shape = case["arrays"][0]["shape"]
        sl = self._slices(case)
        for n, sp in zip(axes_of(shape, sl), sl):
            if n is None:
                continue
            f = finding_of_axis(n, sp)
            if f:
                return f
        if "..." in sl and len(sl) - 1 == len(shape):
            return "C05-ellipsis-covering-zero-axes"
        return None

    def excluded(self, case):
        if case.get("_witness"):
            return None
        return self._finding(case)

    def features(self, case, failure):
        return {"finding": self._finding(case)}

    def nontrivial(self, case):
        if case["op"] != "pipe":
            return True
        shape = case["arrays"][0]["shape"]
        sl = self._slices(case)
        src = np.arange(prod(shape)).reshape(shape)
        try:
            r = src[tuple(py_spec(s) for s in sl)]
        except IndexError:
            return False
        return r.size == 0 or r.shape != src.shape or r.reshape(-1).tolist() != src.reshape(-1).tolist()

    def classes(self, case):
        if case["op"] != "pipe":
            return ["index-level", "enc:" + ("dynamic" if case.get("dynamic") else "packed")]
        f = case["stages"][0]["f"]
        sl = self._slices(case)
        out = ["enc:" + ("packed" if f.startswith("slice") else "eager-packed" if f.startswith("aslice") else f), "naxes:%d" % len(sl)]
        if any(isinstance(s, int) for s in sl):
            out.append("has_int")
        if "..." in sl:
            out.append("has_ellipsis")
        if any(isinstance(s, list) and len(s) == 3 and s[2] is not None and s[2] < 0 for s in sl):
            out.append("neg_step")
        if any(isinstance(s, list) and any(isinstance(x, int) and x < 0 for x in s[:2]) for s in sl):
            out.append("neg_bound")
        shape = case["arrays"][0]["shape"]
        for n, sp in zip(axes_of(shape, sl), sl):
            if n is not None:
                lc = legacy_class_of_axis(n, sp)
                if lc:
                    out.append("formerly:" + lc)
        return out

    # ---- oracle -----------------------------------------------------------
    def check(self, case, obs):
        cf = crash_failure(obs)
        if cf:
            return cf
        if "oob" in obs:
            return "out-of-range container access inside the library: " + obs["oob"][:120]
        if "error" in obs:
            return "HARNESS-ERROR server: " + obs["error"]
        if case["op"] == "islice1":
            return self._check_index(case, obs)
        shape = case["arrays"][0]["shape"]
        sl = self._slices(case)
        src = np.arange(prod(shape)).reshape(shape)
        try:
            exp = src[tuple(py_spec(s) for s in sl)]
        except IndexError as e:
            return "HARNESS-ERROR generator produced an invalid index: %s" % e
        if obs.get("hv") is False:
            return "nmtools returned Nothing for a valid basic index %s on shape %s" % (sl, shape)
        if obs["shape"] != list(exp.shape):
            return "shape %s != Python/NumPy %s for %s on %s" % (obs["shape"], list(exp.shape), sl, shape)
        if obs["elems"] != exp.reshape(-1).tolist():
            return "elements %s != %s for %s on %s" % (obs["elems"][:8], exp.reshape(-1).tolist()[:8], sl, shape)
        return None

    def _check_index(self, case, obs):
        n = case["n"]
        sp = case["slice"]
        r = range(*py_spec(sp).indices(n))
        shp = obs["shape"]
        if shp.get("hv") is False:
            return "shape_slice returned Nothing"
        if shp["elems"] != [len(r)]:
            return "shape_slice(%d, %s) = %s, Python: %d" % (n, sp, shp["elems"], len(r))
        for k, got in zip(case["probe"], obs["src"]):
            if got != [r[k]]:
                return "slice index %d -> %s, Python: %d" % (k, got, r[k])
        return None
