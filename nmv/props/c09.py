"""C09 — results are independent of container kind and of compile- vs run-time knowledge (generated programs)."""
import itertools
import random

import numpy as np

from .. import e2, progen, refs
from ..core import chash
from .common import prod


def strides_of(shape):
    s = [1] * len(shape)
    for i in range(len(shape) - 2, -1, -1):
        s[i] = s[i + 1] * shape[i + 1]
    return s


def _bshape(a, b):
    return refs.broadcast_shapes([a, b])


# index-level functions: name -> (header, call template with {0},{1}.., arg specs, python expectation(args) -> list | int | None(Nothing))
def _exp_transpose(shape, axes):
    return [shape[a] for a in axes]


def _exp_expand_dims(shape, axes):
    return list(np.expand_dims(np.zeros(shape), tuple(axes)).shape)


def _exp_remove_dims(shape, axes, keep):
    ax = [a % len(shape) for a in axes]
    return [1 if i in ax else e for i, e in enumerate(shape)] if keep else [e for i, e in enumerate(shape) if i not in ax]


INDEX_FUNCS = {
    "compute_strides": ("nmtools/array/index/compute_strides.hpp", "ix::compute_strides({0})", ["idx"], lambda s: strides_of(s)),
    "product": ("nmtools/array/index/product.hpp", "ix::product({0})", ["idx"], lambda s: prod(s)),
    "compute_indices": ("nmtools/array/index/compute_indices.hpp", "ix::compute_indices({0},{1})", ["int", "idx"],
                        lambda k, s: [(k // st_) % e for st_, e in zip(strides_of(s), s)]),
    "compute_offset": ("nmtools/array/index/compute_offset.hpp", "ix::compute_offset({0},{1})", ["idx", "idx"],
                       lambda i, s: sum(a * b for a, b in zip(i, s))),
    "broadcast_shape": ("nmtools/array/index/broadcast_shape.hpp", "ix::broadcast_shape({0},{1})", ["idx", "idx"], _bshape),
    "shape_transpose": ("nmtools/array/index/transpose.hpp", "ix::shape_transpose({0},{1})", ["idx", "idx"], _exp_transpose),
    "shape_expand_dims": ("nmtools/array/index/expand_dims.hpp", "ix::shape_expand_dims({0},{1})", ["idx", "idx"], _exp_expand_dims),
    "shape_tile": ("nmtools/array/index/tile.hpp", "ix::shape_tile({0},{1})", ["idx", "idx"], lambda s, r: list(np.tile(np.zeros(s), r).shape)),
    "shape_squeeze": ("nmtools/array/index/squeeze.hpp", "ix::shape_squeeze({0})", ["idx"], lambda s: [e for e in s if e != 1]),
}

INDEX_CASES = [
    ("compute_strides", [[2, 3, 4]]), ("compute_strides", [[3]]), ("compute_strides", [[2, 1, 3, 2]]),
    ("product", [[2, 3, 4]]), ("product", [[5]]),
    ("compute_indices", [7, [2, 3, 4]]), ("compute_indices", [23, [2, 3, 4]]), ("compute_indices", [3, [5]]),
    ("compute_offset", [[1, 2, 3], [12, 4, 1]]), ("compute_offset", [[1, 0], [3, 1]]),
    ("broadcast_shape", [[2, 1, 3], [4, 1]]), ("broadcast_shape", [[3], [2, 3]]), ("broadcast_shape", [[2, 3], [3, 2]]), ("broadcast_shape", [[1], [1]]),
    ("broadcast_shape", [[2, 3], [2, 3]]), ("broadcast_shape", [[4, 1, 2], [3, 1]]),
    ("shape_transpose", [[2, 3, 4], [2, 0, 1]]), ("shape_transpose", [[2, 3], [1, 0]]),
    ("shape_expand_dims", [[2, 3], [0]]), ("shape_expand_dims", [[2, 3], [0, 3]]), ("shape_expand_dims", [[3], [1]]),
    ("shape_tile", [[2, 3], [2, 1]]), ("shape_tile", [[3], [2, 2]]), ("shape_tile", [[2, 1, 2], [3]]),
    ("shape_squeeze", [[2, 1, 3]]), ("shape_squeeze", [[1, 2, 1]]),
]


def render_index_block(rid, fname, args, kinds):
    """kinds: list per argument (IDX kind | 'int'/'ct'/'size_t' | 'cx' for the whole call)"""
    header, tmpl, spec, _ = INDEX_FUNCS[fname]
    pre = []
    exprs = []
    cx = kinds and kinds[0] == "cx"
    for i, (sp, v) in enumerate(zip(spec, args)):
        if cx:
            if sp == "idx":
                pre.append("constexpr auto x%d = nmtools_array<size_t,%d>{%s};" % (i, len(v), ",".join(str(int(e)) for e in v)))
            else:
                pre.append("constexpr auto x%d = (size_t)%d;" % (i, v))
            exprs.append("x%d" % i)
            continue
        k = kinds[i]
        if sp == "idx":
            e = progen.render_idx(v, k, "x%d" % i, pre, elem="size_t" if all(e >= 0 for e in v) and k != "ct" else "int")
        else:
            e = progen.render_scalar(v, k)
        if e is None:
            return None
        exprs.append(e)
    call = tmpl.format(*exprs)
    if cx:
        pre.append("constexpr auto r = %s;" % call)
    else:
        pre.append("auto r = %s;" % call)
    body = "\n        ".join(pre)
    return "    {\n        %s\n        pg::emit(\"%s\", \"\\\"obs\\\":\" + pg::obs(r));\n    }\n" % (body, rid), {header}


def index_units(tier, seed):
    rnd = random.Random(7919 * (seed + 1))
    th = tier == "thorough"
    units = []
    cases = list(INDEX_CASES)
    # seeded extra cases
    for _ in range(60 if th else 12):
        d = rnd.randint(1, 4)
        shape = [rnd.randint(1, 4) for _ in range(d)]
        f = rnd.choice(["compute_strides", "product", "compute_indices", "broadcast_shape", "shape_transpose", "shape_tile", "shape_squeeze", "compute_offset"])
        if f == "compute_indices":
            args = [rnd.randint(0, prod(shape) - 1), shape]
        elif f == "broadcast_shape":
            other = [rnd.choice([1, e]) for e in shape[rnd.randint(0, d - 1):]]
            if rnd.random() < 0.25:
                other[-1] = other[-1] + 1
            args = [shape, other] if rnd.random() < 0.5 else [other, shape]
        elif f == "shape_transpose":
            p = list(range(d)); rnd.shuffle(p); args = [shape, p]
        elif f == "shape_tile":
            args = [shape, [rnd.randint(1, 3) for _ in range(rnd.randint(1, d + 1))]]
        elif f == "compute_offset":
            args = [[rnd.randint(0, e - 1) for e in shape], strides_of(shape)]
        else:
            args = [shape]
        cases.append((f, args))
    for (f, args) in cases:
        spec = INDEX_FUNCS[f][2]
        rend = [["vec" if s == "idx" else "int" for s in spec], ["cx"]]
        for _ in range(10 if th else 6):
            rend.append([rnd.choice(progen.IDX_KINDS) if s == "idx" else rnd.choice(["int", "ct", "size_t"]) for s in spec])
        for cfg in (["gcc", "clang", "nostl"] if (th or hash((f, str(args))) % 3 == 0) else ["gcc"]):
            units.append({"index": True, "f": f, "args": args, "renderings": rend, "cfg": cfg})
    return units


def run_index_units(units):
    jobs = []
    for ui, u in enumerate(units):
        blocks, rids = [], []
        for ri, kinds in enumerate(u["renderings"]):
            b = render_index_block("r%d" % ri, u["f"], u["args"], kinds)
            if b:
                blocks.append(b); rids.append(ri)
        u["_blocks"], u["_rids"] = blocks, rids
        jobs.append((ui, progen.make_tu(blocks), u["cfg"]))
    res = progen.compile_many([(t, c) for _, t, c in jobs])
    out, retry = [], []
    for (ui, text, cfg), (path, err) in zip(jobs, res):
        u = units[ui]
        if path is None:
            for b, ri in zip(u["_blocks"], u["_rids"]):
                retry.append((ui, ri, progen.make_tu([b]), cfg))
        else:
            r, _ = progen.run_bin(path)
            e2._collect(out, ui, u["_rids"], r)
    res2 = progen.compile_many([(t, c) for _, _, t, c in retry])
    for (ui, ri, text, cfg), (path, err) in zip(retry, res2):
        if path is None:
            out.append({"u": ui, "r": ri, "status": "rejected_compile", "err": err[:300]})
        else:
            r, _ = progen.run_bin(path)
            e2._collect(out, ui, [ri], r)
    return out


def bshape_clipped_clamped(args, kinds):
    """index::broadcast_shape with a clipped-integer operand (rendered with the bound extent+1 per axis) whose counterpart is larger than
    that bound on an axis: the result keeps the clipped operand's bounds and clamps the broadcast extent"""
    shapes = [a for a in args if isinstance(a, list)]
    if len(shapes) < 2 or "cl" not in kinds:
        return False
    d = max(len(x) for x in shapes)
    pad = [[1] * (d - len(x)) + list(x) for x in shapes]
    res = [max(col) for col in zip(*pad)]
    for x, k, p_ in zip(shapes, kinds, pad):
        if k != "cl":
            continue
        off = d - len(x)
        for i, e in enumerate(x):
            if res[off + i] > max(e, 1) + 1:
                return True
        if off and any(r > 1 for r in res[:off]):
            return True
    return False


class C09(e2.ProgenProp):
    id = "C09"
    rule = ("case = one logical computation (an index function call, or a view composition of depth 1..3 with its evaluation) rendered as C++ with a "
            "chosen static kind for every shape-like / axis argument (tuple of compile-time constants, clipped integers, fixed array, raw C array, bounded "
            "static_vector, dynamic list; int vs compile-time constant axes; constexpr evaluation) and for every leaf array (the 15 ndarray kinds via cast, raw "
            "array, nested std::array / std::vector, fixed_ndarray, hybrid_ndarray, dynamic_ndarray), built with g++ (STL), clang++ (STL) and g++ -DNMTOOLS_DISABLE_STL. "
            "Oracle: every rendering prints the same normalised (has_value, shape, elements) as the all-dynamic anchor rendering and as NumPy; the eager evaluation "
            "(array::fn / eval) of every rendering equals its lazy view. Compile-rejected renderings are counted, never violations. "
            "non-trivial = a rendering with at least one non-dynamic kind; distinct = (case, kind assignment, configuration)")
    assumptions = ["NumPy / Python integers anchor the value (a defect common to all kinds is not hidden)",
                   "a rendering the library rejects at compile time (fail type / static_assert) is outside the supported configuration space"]

    def exhaustive_space(self, tier):
        return None

    _known_ids = None

    def _is_known(self, fid):
        if C09._known_ids is None:
            from ..core import load_known
            C09._known_ids = {e["id"] for e in load_known("C09") if e.get("status") == "known"}
        return fid in C09._known_ids

    def units(self, tier, seed):
        return e2.view_suite(tier, seed)

    def extra_phases(self, ctx):
        fails = super().extra_phases(ctx)
        # index-level part
        stats = ctx["stats"]
        units = index_units(ctx["tier"], ctx["seed"])
        res = run_index_units(units)
        ctx["info"]["index_units"] = len(units)
        for r in res:
            u = units[r["u"]]
            key = "index-rendering:" + r["status"]
            stats.classes[key] = stats.classes.get(key, 0) + 1
            if r["status"] == "rejected_compile":
                stats.rejected["rejected_compile"] = stats.rejected.get("rejected_compile", 0) + 1
            if r["status"] == "crash":
                fails.append(({"_external": True, "index": u["f"], "args": u["args"], "kinds": u["renderings"][r["r"]], "cfg": u["cfg"]},
                              "program crashed: %s" % (r.get("crash"),), {}))
            if r["status"] != "ok":
                continue
            stats.evaluations += 1
            kinds = u["renderings"][r["r"]]
            if any(k not in ("vec", "int") for k in kinds):
                stats.nontrivial.add(chash({"f": u["f"], "a": u["args"], "k": kinds, "cfg": u["cfg"]}))
            stats.classes["index-fn:" + u["f"]] = stats.classes.get("index-fn:" + u["f"], 0) + 1
            for k in kinds:
                stats.classes["attr:" + k] = stats.classes.get("attr:" + k, 0) + 1
            if u["f"] == "broadcast_shape" and bshape_clipped_clamped(u["args"], kinds) and self._is_known("C09-broadcast-shape-clipped-operand-clamped"):
                k_ = "excluded_by_known_finding:C09-broadcast-shape-clipped-operand-clamped"
                stats.rejected[k_] = stats.rejected.get(k_, 0) + 1
                continue
            if u["f"] == "shape_squeeze" and "cl" in kinds and self._is_known("C09-squeeze-clipped-shape"):
                stats.rejected["excluded_by_known_finding:C09-squeeze-clipped-shape"] = stats.rejected.get("excluded_by_known_finding:C09-squeeze-clipped-shape", 0) + 1
                continue
            f = self._index_failure(u, r)
            if f:
                fails.append(({"_external": True, "index": u["f"], "args": u["args"], "kinds": kinds, "cfg": u["cfg"]}, f, {}))
        return fails

    # ---- known findings -------------------------------------------------
    @staticmethod
    def uses_clipped(kinds):
        if kinds is None:
            return False
        lks, aks = kinds
        return any(k.startswith("ls_") for k in lks) or any(v == "cl" for d in aks for v in d.values())

    def features(self, case, failure):
        f = str(failure)
        if "index" in case:
            return {"index": case["index"], "has_cl": "cl" in (case.get("kinds") or []),
                    "bshape_clamped": case["index"] == "broadcast_shape" and bshape_clipped_clamped(case.get("args") or [], case.get("kinds") or [])}
        from .. import e2
        return {"path": "eval_col" if f.startswith("eval_col") else ("eval" if f.startswith("eval ") else "lazy"),
                "uses_clipped": self.uses_clipped(case.get("kinds")),
                "nostl_either": e2.nostl_either_class({"cfg": case.get("cfg"), "case": case.get("case") or {"stages": []}})}

    def replay_external(self, case):
        if "index" in case:
            u = {"index": True, "f": case["index"], "args": case["args"], "renderings": [case["kinds"]], "cfg": case.get("cfg", "gcc")}
            res = run_index_units([u])
            out = []
            for r in res:
                if r["status"] != "ok":
                    continue
                f = self._index_failure(u, r)
                if f:
                    out.append((case, f, {}))
            return out
        return super().replay_external(case)

    def _index_failure(self, u, r):
        kinds = u["renderings"][r["r"]]
        exp = INDEX_FUNCS[u["f"]][3](*u["args"])
        obs = r["rec"]["obs"]
        got = None if obs.get("hv") is False else (obs.get("elems") if obs.get("kind") in ("idx",) else (obs.get("elems") or [None])[0] if obs.get("kind") in ("num", "ct") else obs.get("elems"))
        ok = (got == exp or got == [exp]) if isinstance(exp, int) else got == exp
        if ok:
            return None
        return "index::%s%s with kinds %s (%s) = %s, expected %s" % (u["f"], u["args"], kinds, u["cfg"], got, exp)

    def judge(self, unit, results):
        out = []
        kind, val = e2.expected_of(unit["case"])
        if kind == "ood":
            return out
        for r in results:
            if r["status"] == "crash":
                out.append((r["r"], "program crashed: %s" % (r.get("crash"),)))
                continue
            if r["status"] != "ok":
                continue
            rec = r["rec"]
            obs = rec["obs"]
            lks, aks = unit["renderings"][r["r"]]
            tag = "kinds leaf=%s attr=%s cfg=%s" % (lks, aks, unit.get("cfg", "gcc"))
            if kind == "invalid":
                if obs.get("hv") is not False:
                    out.append((r["r"], "reference rejects the arguments but rendering returned a value [%s]" % tag))
                continue
            f = e2.obs_matches(obs, val)
            if f:
                out.append((r["r"], "lazy view differs from the reference: %s [%s]" % (f, tag)))
                continue
            for key in ("eval", "eval_col"):
                if key == "eval_col" and self.uses_clipped((lks, aks)) and self._is_known("C09-column-major-eval-clipped-shape") and not unit.get("_witness"):
                    continue
                if key in rec:
                    g = e2.obs_matches(rec[key], val)
                    if g:
                        out.append((r["r"], "%s differs from the reference / lazy view: %s [%s]" % (key, g, tag)))
                        break
        return out
