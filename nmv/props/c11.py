"""C11 — statically inferred shape, size and bounds agree with every run-time instance (generated programs)."""
import itertools
import random

import numpy as np

from .. import e2, progen, refs
from ..core import chash
from .common import prod, arange_array

# H2 (capacity overflow silently ignored) is a violation. H3 (clipped_integer_t clamped a value) is informational only: ndarray_t's default
# construction writes the buffer length into the last (clipped) extent before the real shape is assigned, a transient state with no
# observable effect; what the property promises (nothing clipped in the RESULT) is decided by the value / size comparison.
BAD_EVENTS = {4: "static_vector asked to hold more than its capacity (silently ignored)"}


def static_vs_runtime(st_, rt):
    """failure string if a static fact contradicts the run-time object"""
    if rt is None or st_ is None:
        return None
    if st_["fixed_shape"] is not None and st_["fixed_shape"] != rt["shape"]:
        return "fixed_shape %s but run-time shape %s" % (st_["fixed_shape"], rt["shape"])
    if st_["fixed_dim"] is not None and st_["fixed_dim"] != rt["dim"]:
        return "fixed_dim %s but run-time dim %s" % (st_["fixed_dim"], rt["dim"])
    if st_["fixed_size"] is not None and st_["fixed_size"] != rt["size"]:
        return "fixed_size %s but run-time size %s" % (st_["fixed_size"], rt["size"])
    if st_["bounded_dim"] is not None and st_["bounded_dim"] < rt["dim"]:
        return "bounded_dim %s < run-time dim %s" % (st_["bounded_dim"], rt["dim"])
    if st_["bounded_size"] is not None and st_["bounded_size"] < rt["size"]:
        return "bounded_size %s < run-time size %s" % (st_["bounded_size"], rt["size"])
    if rt["size"] != prod(rt["shape"]) or rt["dim"] != len(rt["shape"]):
        return "run-time object inconsistent: shape %s dim %s size %s" % (rt["shape"], rt["dim"], rt["size"])
    return None


def runtime_cases():
    """(max shape, stages) valid for every run-time shape under the bound"""
    st = lambda f, ins, a: {"f": f, "in": ins, "a": a}
    out = []
    for mx in ([3, 4], [2, 3, 2], [4]):
        d = len(mx)
        p = list(range(d))[::-1]
        out.append((mx, [st("transpose", [0], {"axes": p})]))
        out.append((mx, [st("flatten", [0], {})]))
        out.append((mx, [st("flip", [0], {"axis": -1})]))
        out.append((mx, [st("tile", [0], {"reps": [2] * d})]))
        out.append((mx, [st("add", [0, 0], {})]))
        out.append((mx, [st("sum", [0], {"axis": 0})]))
        out.append((mx, [st("sum", [0], {"axis": -1, "keepdims": "ct_true"})]))
        out.append((mx, [st("expand_dims", [0], {"axis": 0})]))
        out.append((mx, [st("reshape", [0], {"shape": [-1]})]))
        out.append((mx, [st("transpose", [0], {"axes": p}), st("sum", [1], {"axis": 0})]))
        out.append((mx, [st("add", [0, 0], {}), st("flip", [1], {"axis": 0}), st("flatten", [2], {})]))
        out.append((mx, [st("tile", [0], {"reps": [1, 2][:1] * d}), st("transpose", [1], {"axes": p})]))
        out.append((mx, [st("repeat", [0], {"repeats": 2, "axis": None})]))
        out.append((mx, [st("repeat", [0], {"repeats": 2, "axis": d - 1})]))
        if d >= 2:
            out.append((mx, [st("moveaxis", [0], {"source": 0, "destination": -1})]))
            out.append((mx, [st("concatenate", [0, 0], {"axis": 1})]))
            out.append((mx, [st("diagonal", [0], {"offset": 0, "axis1": 0, "axis2": 1})]))
            out.append((mx, [st("swapaxes", [0], {"axis1": 0, "axis2": -1})]))
            out.append((mx, [st("concatenate", [0, 0], {"axis": None})]))
    return out


# operations whose result type is resolved per operand kind in several places: always exercised over a clipped-shape and a bounded-dim
# operand, with run-time and compile-time scalar attributes (the other cases sample kinds)
FOCUS_OPS = ("repeat", "expand_dims", "diagonal", "concatenate", "swapaxes")   # squeeze: its result dim depends on the run-time shape (and see C09-squeeze-clipped-shape)


class C11(e2.ProgenProp):
    id = "C11"
    rule = ("case = a view type obtained by composing depth 1..3 operations over operands of every static-knowledge kind (constant / clipped / fixed-dim / "
            "bounded / dynamic shape x fixed / bounded / dynamic buffer, legacy classes) with compile-time or run-time attributes. The program prints "
            "meta::fixed_shape_v / fixed_dim_v / fixed_size_v / bounded_dim_v / bounded_size_v of the type and, for the instance(s), shape()/dim()/size(), all lazy "
            "elements and the evaluated result; for operand kinds with run-time freedom the same compiled type is exercised with EVERY run-time shape under its bound "
            "(resize + refill, fed on stdin). Oracle: fixed_* == run-time value, bounded_* >= run-time value, evaluated result complete and equal to NumPy, no static_vector capacity-overflow event (H2) (clamp events H3 are informational: see BAD_EVENTS). non-trivial = the type reports at least one static fact and is not a leaf; "
            "distinct = (case, kind assignment, configuration, run-time shape)")
    assumptions = ["NumPy anchors the evaluated values", "compile-rejected kind combinations are outside the supported configuration space (counted)"]

    def exhaustive_space(self, tier):
        return None

    def units(self, tier, seed):
        return e2.view_suite(tier, seed)

    def rendering_nontrivial(self, unit, r):
        st_ = r["rec"].get("static") or {}
        return any(v is not None for v in st_.values())

    def judge(self, unit, results):
        out = []
        kind, val = e2.expected_of(unit["case"])
        for r in results:
            if r["status"] == "crash":
                out.append((r["r"], "program crashed: %s" % (r.get("crash"),)))
                continue
            if r["status"] != "ok":
                continue
            rec = r["rec"]
            lks, aks = unit["renderings"][r["r"]]
            tag = "kinds leaf=%s attr=%s cfg=%s" % (lks, aks, unit.get("cfg", "gcc"))
            f = static_vs_runtime(rec.get("static"), rec.get("rt"))
            if f:
                out.append((r["r"], "%s [%s]" % (f, tag)))
                continue
            for e in rec.get("events", []):
                if e[0] == 5:
                    unit.setdefault("_clamps", 0)
                    unit["_clamps"] += 1
                if e[0] in BAD_EVENTS:
                    out.append((r["r"], "event: %s (value %s, bound %s) [%s]" % (BAD_EVENTS[e[0]], e[1], e[2], tag)))
                    break
            if kind == "ok" and "eval" in rec:
                g = e2.obs_matches(rec["eval"], val)
                if g:
                    out.append((r["r"], "evaluated result (buffer chosen from static facts) differs from the reference: %s [%s]" % (g, tag)))
        return out

    # ---- known findings -------------------------------------------------------
    _known_ids = None

    def _is_known(self, fid):
        if C11._known_ids is None:
            from ..core import load_known
            C11._known_ids = {e["id"] for e in load_known("C11") if e.get("status") == "known"}
        return fid in C11._known_ids

    @staticmethod
    def _runtime_finding(case, lks):
        if any(s["f"] == "concatenate" for s in case["stages"]) and len(case["arrays"][0]["shape"]) >= 3 and any(k.startswith("ls_") for k in lks):
            return "C11-concatenate-clipped-3d-asserts"
        return None

    def features(self, case, failure):
        if case.get("runtime"):
            return {"finding": self._runtime_finding(case["case"], case["kinds"][0])}
        from .. import e2 as _e2
        return {"finding": None, "nostl_either": _e2.nostl_either_class({"cfg": case.get("cfg"), "case": case.get("case") or {"stages": []}})}

    def replay_external(self, case):
        if not case.get("runtime"):
            return super().replay_external(case)
        lks, aks = case["kinds"]
        b = progen.render_runtime_block("r0", case["case"], lks, aks)
        if not b:
            return []
        path, err = progen.compile_tu(progen.make_tu([b]), "gcc")
        if not path:
            return []
        mx = case.get("max") or case["case"]["arrays"][0]["shape"]
        shapes = [case["rshape"]] if case.get("rshape") else [list(t) for t in itertools.product(*[range(1, e + 1) for e in mx])]
        r, _ = progen.run_bin(path, "".join(" ".join(map(str, s_)) + "\n" for s_ in shapes))
        if r.get("crash"):
            return [(case, "program crashed: %s" % (r["crash"],), {})]
        return []

    # ---- run-time freedom ---------------------------------------------------
    def extra_phases(self, ctx):
        fails = super().extra_phases(ctx)
        stats, tier, seed = ctx["stats"], ctx["tier"], ctx["seed"]
        rnd = random.Random(104729 * (seed + 1))
        th = tier == "thorough"
        units = []
        for mx, stages in runtime_cases():
            case = {"op": "pipe", "arrays": [arange_array(mx, start=1)], "stages": stages}
            kinds = list(progen.RESIZABLE_LEAVES) if th else rnd.sample(progen.RESIZABLE_LEAVES, 4)
            rend = []
            for lk in kinds:
                aks = [e2._attr_kinds(s, rnd.choice(["ct", "arr", "vec", "sv"]), rnd.choice(["int", "ct"])) for s in stages]
                rend.append(([lk], aks))
            if any(s["f"] in FOCUS_OPS for s in stages):
                for lk in (rnd.choice(["ls_hb", "ls_db"]), rnd.choice(["hs_hb", "hs_db"])):
                    for sk in ("int", "ct"):
                        r = ([lk], [e2._attr_kinds(s, "ct" if sk == "ct" else "arr", sk) for s in stages])
                        if r not in rend:
                            rend.append(r)
            units.append({"case": case, "max": mx, "renderings": rend})
        jobs = []
        for ui, u in enumerate(units):
            for ri, (lks, aks) in enumerate(u["renderings"]):
                if self._runtime_finding(u["case"], lks) and self._is_known(self._runtime_finding(u["case"], lks)):
                    k = "excluded_by_known_finding:" + self._runtime_finding(u["case"], lks)
                    stats.rejected[k] = stats.rejected.get(k, 0) + 1
                    continue
                b = progen.render_runtime_block("r%d" % ri, u["case"], lks, aks)
                if b:
                    jobs.append((ui, ri, progen.make_tu([b])))
        res = progen.compile_many([(t, "gcc") for _, _, t in jobs])
        runs = []
        for (ui, ri, text), (path, err) in zip(jobs, res):
            if path is None:
                stats.rejected["rejected_compile"] = stats.rejected.get("rejected_compile", 0) + 1
            else:
                runs.append((ui, [ri], path))
        ctx["info"]["runtime_units"] = len(units)
        for ui, rids, path in runs:
            u = units[ui]
            mx = u["max"]
            shapes = [list(t) for t in itertools.product(*[range(1, e + 1) for e in mx])]
            # plus requests the type must refuse: over the bound, wrong dimension
            extra = [[e + 1 for e in mx], mx[:-1] or [1, 1]]
            stdin = "".join(" ".join(map(str, s)) + "\n" for s in shapes + extra)
            r, _ = progen.run_bin(path, stdin)
            if r.get("_timeout"):
                fails.append(({"_harness": True}, "HARNESS-ERROR run-time program timed out", {}))
                continue
            if r.get("crash"):
                lks, aks = u["renderings"][rids[0]]
                fails.append(({"_external": True, "runtime": True, "case": u["case"], "kinds": [lks, aks], "max": mx}, "program crashed: %s" % (r["crash"],), {}))
                continue
            for ri in rids:
                lks, aks = u["renderings"][ri]
                for rec in r["recs"].get("r%d" % ri, []):
                    rs = rec["rshape"]
                    stats.evaluations += 1
                    stats.classes["runtime-leaf:" + lks[0]] = stats.classes.get("runtime-leaf:" + lks[0], 0) + 1
                    tag = "leaf=%s attr=%s run-time shape %s" % (lks, aks, rs)
                    cc = {"_external": True, "runtime": True, "case": u["case"], "kinds": [lks, aks], "rshape": rs}
                    if not rec.get("resized"):
                        continue
                    stats.nontrivial.add(chash(cc))
                    f = static_vs_runtime(rec.get("static"), rec.get("rt"))
                    if f:
                        fails.append((cc, "%s [%s]" % (f, tag), {}))
                        continue
                    bad = [e for e in rec.get("events", []) + rec.get("resize_events", []) if e[0] in BAD_EVENTS]
                    if bad:
                        fails.append((cc, "event: %s (value %s, bound %s) [%s]" % (BAD_EVENTS[bad[0][0]], bad[0][1], bad[0][2], tag), {}))
                        continue
                    if len(rs) == len(mx) and all(1 <= a <= b for a, b in zip(rs, mx)):
                        sub = {"op": "pipe", "arrays": [arange_array(rs, start=1)], "stages": u["case"]["stages"]}
                        kind, val = refs.run_pipe(sub)
                        if kind == "ok":
                            for key in ("obs", "eval"):
                                g = e2.obs_matches(rec[key], val)
                                if g:
                                    fails.append((cc, "%s differs from the reference for this run-time shape: %s [%s]" % (key, g, tag), {}))
                                    break
        return fails
