"""C03 — rearranging views equal NumPy."""
import itertools

from hypothesis import strategies as st

from ..core import Prop
from .. import refs
from .common import small_shapes, crash_failure, prod, arange_array, pipe


def factorizations(n, maxdim):
    """all ordered factorizations of n into 1..maxdim positive factors"""
    out = []

    def rec(rem, acc):
        if len(acc) >= 1 and rem == 1 and acc:
            pass
        if len(acc) == maxdim:
            return
        for d in range(1, rem + 1):
            if rem % d == 0:
                a = acc + [d]
                if rem // d == 1:
                    out.append(a)
                    # allow trailing ones via further recursion
                    rec(1, a)
                else:
                    rec(rem // d, a)
    rec(n, [])
    # dedupe
    seen = set()
    res = []
    for f in out:
        t = tuple(f)
        if t not in seen and prod(f) == n:
            seen.add(t)
            res.append(f)
    return res


def args_for(op, shape, tier):
    d = len(shape)
    n = prod(shape)
    if op == "reshape":
        for f in factorizations(n, 4):
            yield {"shape": f}
            for i in range(len(f)):
                g = list(f)
                g[i] = -1
                yield {"shape": g}
    elif op in ("flatten", "squeeze", "atleast_1d", "atleast_2d"):
        yield {}
    elif op == "atleast_nd":
        for nd in range(0, 6):
            yield {"nd": nd}
    elif op == "transpose":
        yield {"axes": None}
        if d >= 1:
            for p in itertools.permutations(range(d)):
                yield {"axes": list(p)}
    elif op == "swapaxes":
        for a in range(-d, d):
            for b in range(-d, d):
                yield {"axis1": a, "axis2": b}
    elif op == "moveaxis":
        for a in range(-d, d):
            for b in range(-d, d):
                yield {"source": a, "destination": b}
        # axis lists of length 2..3 (distinct after normalisation)
        for k in (2, 3):
            if d < k:
                continue
            srcs = list(itertools.permutations(range(d), k))
            dsts = list(itertools.permutations(range(d), k))
            step = 1 if tier == "thorough" else 3
            cnt = 0
            for s in srcs:
                for t in dsts:
                    cnt += 1
                    if cnt % step:
                        continue
                    # mix negative spellings deterministically
                    s2 = [x - d if (i + cnt) % 2 else x for i, x in enumerate(s)]
                    t2 = [x - d if (i + cnt) % 3 == 0 else x for i, x in enumerate(t)]
                    yield {"source": s2, "destination": t2}
    elif op == "expand_dims":
        for a in range(-(d + 1), d + 1):
            yield {"axis": a}
        r = d + 2
        for a in range(-r, r):
            for b in range(-r, r):
                if (a % r) != (b % r):
                    yield {"axis": [a, b]}
    elif op == "flip":
        yield {"axis": None}
        for a in range(-d, d):
            yield {"axis": a}
        for k in range(1, d + 1):
            for sub in itertools.combinations(range(d), k):
                yield {"axis": list(sub)}
                if k >= 2:
                    yield {"axis": [x - d if i % 2 else x for i, x in enumerate(sub)]}


OPS = ["reshape", "flatten", "squeeze", "atleast_1d", "atleast_2d", "atleast_nd", "transpose", "swapaxes",
       "moveaxis", "expand_dims", "flip"]


class C03(Prop):
    id = "C03"
    servers = ["rearrange"]
    rule = ("case = one rearranging view (or a 2-stage inverse pair) on arange data, executed lazily (shape + every element) and "
            "through eval (inferred row/column-major result, supplied row/column-major output). Exhaustive: source shapes dim 0..4 "
            "extents 1..4 (1..3 in quick) x every valid argument of the op; random: dim<=6, extents<=9, int and float data. "
            "non-trivial = the reference result differs from the source in shape or element order; distinct = canonical JSON of the case")
    assumptions = ["NumPy is the reference (np.reshape/transpose/moveaxis/swapaxes/expand_dims/squeeze/atleast_*/flip)",
                   "atleast_nd reference = docstring (prepend ones)"]
    chunk = 100

    def exhaustive_space(self, tier):
        return "source shapes dim0..4 ext1..%d x all valid args of %d ops + transpose/flip inverse pairs" % (4 if tier == "thorough" else 3, len(OPS))

    def exhaustive(self, tier):
        emax = 4 if tier == "thorough" else 3
        for shape in small_shapes(1, 4, emax):
            d = len(shape)
            for op in OPS:
                for a in args_for(op, shape, tier):
                    yield pipe([arange_array(shape)], [(op, [0], a)], eval=True)
            # metamorphic inverse pairs executed by the library itself
            if 1 <= d <= 3:
                for p in itertools.permutations(range(d)):
                    inv = [0] * d
                    for i, x in enumerate(p):
                        inv[x] = i
                    yield dict(pipe([arange_array(shape)], [("transpose", [0], {"axes": list(p)}), ("transpose", [1], {"axes": inv})]), expect_identity=True)
                for k in range(1, d + 1):
                    for sub in itertools.combinations(range(d), k):
                        yield dict(pipe([arange_array(shape)], [("flip", [0], {"axis": list(sub)}), ("flip", [1], {"axis": list(sub)})]), expect_identity=True)

    def n_random(self, tier):
        return 8000 if tier == "quick" else 150000

    def strategy(self, tier):
        @st.composite
        def case(draw):
            d = draw(st.integers(1, 6))
            shape = []
            p = 1
            for _ in range(d):
                e = draw(st.integers(1, 9 if p * 9 <= 700 else max(1, 700 // p)))
                shape.append(e)
                p *= e
            op = draw(st.sampled_from(OPS))
            dt = draw(st.sampled_from(["i32", "f64"]))
            n = prod(shape)
            if op == "reshape":
                # construct a valid target: split prime factors into <=5 buckets
                k = draw(st.integers(1, 5))
                tgt = [1] * k
                m = n
                f = 2
                facs = []
                while m > 1:
                    while m % f == 0:
                        facs.append(f)
                        m //= f
                    f += 1
                for q in facs:
                    i = draw(st.integers(0, k - 1))
                    tgt[i] *= q
                if draw(st.booleans()):
                    tgt[draw(st.integers(0, k - 1))] = -1
                a = {"shape": tgt}
            elif op == "transpose":
                a = {"axes": draw(st.one_of(st.none(), st.permutations(list(range(d)))))} if d else {"axes": None}
            elif op == "swapaxes":
                if d == 0:
                    op, a = "flatten", {}
                else:
                    a = {"axis1": draw(st.integers(-d, d - 1)), "axis2": draw(st.integers(-d, d - 1))}
            elif op == "moveaxis":
                if d == 0:
                    op, a = "flatten", {}
                elif draw(st.booleans()):
                    a = {"source": draw(st.integers(-d, d - 1)), "destination": draw(st.integers(-d, d - 1))}
                else:
                    k = draw(st.integers(1, d))
                    s = draw(st.permutations(list(range(d))))[:k]
                    t = draw(st.permutations(list(range(d))))[:k]
                    s = [x - d if draw(st.booleans()) else x for x in s]
                    t = [x - d if draw(st.booleans()) else x for x in t]
                    a = {"source": s, "destination": t}
            elif op == "expand_dims":
                k = draw(st.integers(1, 3))
                r = d + k
                ax = draw(st.permutations(list(range(r))))[:k]
                ax = [x - r if draw(st.booleans()) else x for x in ax]
                a = {"axis": ax[0] if k == 1 and draw(st.booleans()) else ax}
            elif op == "flip":
                if d == 0:
                    a = {"axis": None}
                else:
                    k = draw(st.integers(0, d))
                    if k == 0:
                        a = {"axis": None}
                    else:
                        ax = draw(st.permutations(list(range(d))))[:k]
                        ax = [x - d if draw(st.booleans()) else x for x in ax]
                        a = {"axis": ax[0] if k == 1 and draw(st.booleans()) else ax}
            elif op == "atleast_nd":
                a = {"nd": draw(st.integers(0, 7))}
            else:
                a = {}
            return pipe([arange_array(shape, dt)], [(op, [0], a)], eval=True)
        return case()

    def nontrivial(self, case):
        kind, val = refs.run_pipe(case)
        if kind != "ok":
            return False
        src = refs.make_array(case["arrays"][0])
        return list(val.shape) != list(src.shape) or val.reshape(-1).tolist() != src.reshape(-1).tolist()

    def classes(self, case):
        s = case["stages"]
        out = ["op:" + s[0]["f"], "dim:%d" % len(case["arrays"][0]["shape"]), "dt:" + case["arrays"][0].get("dt", "i32")]
        a = s[0].get("a") or {}
        for k, v in a.items():
            vs = v if isinstance(v, list) else [v]
            if k != "shape" and any(isinstance(x, int) and x < 0 for x in vs):
                out.append("negative_axis")
                break
        if a.get("shape") and -1 in a["shape"]:
            out.append("reshape_minus1")
        if len(s) > 1:
            out.append("inverse_pair")
        return out

    def check(self, case, obs):
        cf = crash_failure(obs)
        if cf:
            return cf
        f = refs.check_pipe(case, obs)
        if f:
            return f
        if case.get("expect_identity") and obs.get("hv"):
            src = case["arrays"][0]
            if obs["shape"] != src["shape"] or obs["elems"] != src["data"]:
                return "inverse pair does not restore the array"
        return None
