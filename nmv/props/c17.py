"""C17 — neural-network routines equal their reference (PyTorch / NumPy) definitions.

Oracle = nmv/refs_nn.py (direct nested-loop definitions from the PyTorch documentation formulas).
Comparison: shape exactly; elements exactly for conv / linear / bilinear / max_pool (integer-valued f64 data,
no division anywhere) and within a relative tolerance (|got-ref| <= tol*max(1,|ref|)) otherwise:
tol = 1e-6 when the library computes in double, 1e-4 when its native result type is float (avg_pool2d always
computes in float; softmax on integer input).
"""
import itertools
import random

from hypothesis import strategies as st

from ..core import Prop
from .. import refs
from .. import refs_nn  # noqa: F401  (registers the references)
from ..refs_nn import conv_out_extent, pool_out_extent, pool_overhang, pool_drops_window
from .common import small_shapes, crash_failure, prod, pipe

EXACT_OPS = {"conv1d", "conv1d_bias", "conv2d_sn", "conv2d_si", "conv2d_sa", "conv2d_bias_sn", "conv2d_bias_si",
             "conv2d_bias_sa", "linear", "bilinear", "max_pool2d"}
TOL_F64 = 1e-6
TOL_F32 = 1e-4


# ---------------------------------------------------------------------------------------------
# data
# ---------------------------------------------------------------------------------------------
def lcg_data(n, seed, lo=-4, hi=5):
    """deterministic integer data in [lo, hi] (the seed is either an enumeration index or a Hypothesis draw)"""
    s = (seed * 2654435761 + 974711) & 0x7fffffff
    out = []
    for _ in range(n):
        s = (s * 1103515245 + 12345) & 0x7fffffff
        out.append(lo + (s >> 12) % (hi - lo + 1))
    return out


def farr(shape, seed, lo=-4, hi=5):
    return {"shape": list(shape), "data": lcg_data(prod(shape), seed, lo, hi), "dt": "f64"}


def iarr(shape, seed, lo=-4, hi=5):
    return {"shape": list(shape), "data": lcg_data(prod(shape), seed, lo, hi)}


def mix(i):
    """decorrelates variant choices from the enumeration index (the axes of a product have small periods)"""
    return ((i + 1) * 2654435761 & 0xffffffff) >> 9


def divisors(n):
    return [d for d in range(1, n + 1) if n % d == 0]


# ---------------------------------------------------------------------------------------------
# case builders (all sound by construction)
# ---------------------------------------------------------------------------------------------
def _kind(v):
    return "n" if v is None else ("i" if isinstance(v, int) else "a")


def conv_case(nd, N, Cin, Cout, G, spatial, K, stride, padding, dilation, bias, seed, groups_default=False, ev=False):
    """stride/padding/dilation already in their JSON spelling (None | int | [a,b])"""
    arrays = [farr([N, Cin] + list(spatial), seed), farr([Cout, Cin // G] + list(K), seed + 1, -3, 3)]
    if bias:
        arrays.append(farr([Cout], seed + 2, -9, 9))
    a = {"stride": stride, "padding": padding, "dilation": dilation, "groups": None if groups_default else G}
    if nd == 1:
        op = "conv1d_bias" if bias else "conv1d"
    else:
        op = ("conv2d_bias_s" if bias else "conv2d_s") + _kind(stride)
    return pipe(arrays, [(op, list(range(len(arrays))), a)], eval=ev)


def spell(v, default, bit_none, bit_arr=False, nd=1):
    """JSON spelling of a per-axis parameter tuple: None when it equals the default and bit_none,
    an int when all axes agree (unless bit_arr), else a list"""
    if all(e == default for e in v) and bit_none:
        return None
    if all(e == v[0] for e in v) and not (bit_arr and nd > 1):
        return int(v[0])
    return [int(e) for e in v]


def pool_case(op, prefix, H, W, k, s, ceil, seed, dt="i32", ev=False):
    arr = (iarr if dt == "i32" else farr)(list(prefix) + [H, W], seed, -9, 9)
    return pipe([arr], [(op, [0], {"kernel_size": list(k), "stride": list(s), "ceil_mode": bool(ceil)})], eval=ev)


def softmax_case(op, shape, axis, seed, dt, ev=False):
    arr = (iarr if dt == "i32" else farr)(shape, seed, -3, 4)
    # every 3rd case is translated far from the origin (softmax is translation invariant along the axis; the exponentials of the raw
    # values under- / overflow there, so this is where the max-subtraction of the implementation matters)
    off = (0, 0, -800, 0, 0, 800, 0, 0, -90, 0, 0, 90)[mix(seed) % 12]
    if off:
        arr = dict(arr, data=[v + off for v in arr["data"]])
    return pipe([arr], [(op, [0], {"axis": axis})], eval=ev)


def batch_norm_case(shape, eps, seed):
    C = shape[-3]
    arrays = [farr(shape, seed, -5, 5), farr([C], seed + 1, -2, 2), farr([C], seed + 2, 0, 5), farr([C], seed + 3, -3, 3),
              farr([C], seed + 4, -3, 3)]
    return pipe(arrays, [("batch_norm", [0, 1, 2, 3, 4], {"eps": eps})])


def layer_norm_case(shape, D, eps, seed):
    ns = shape[len(shape) - D:]
    arrays = [farr(shape, seed, -5, 5), farr(ns, seed + 1, -3, 3), farr(ns, seed + 2, -3, 3)]
    return pipe(arrays, [("layer_norm", [0, 1, 2], {"eps": eps})])


def instance_norm_case(shape, nd, eps, seed):
    C = shape[len(shape) - nd - 1]
    arrays = [farr(shape, seed, -5, 5), farr([C], seed + 1, -3, 3), farr([C], seed + 2, -3, 3)]
    return pipe(arrays, [("instance_norm", [0, 1, 2], {"nd": nd, "eps": eps})])


def group_norm_case(shape, G, eps, seed):
    C = shape[1]
    arrays = [farr(shape, seed, -5, 5), farr([C], seed + 1, -3, 3), farr([C], seed + 2, -3, 3)]
    return pipe(arrays, [("group_norm", [0, 1, 2], {"num_groups": G, "eps": eps})])


def linear_case(batch, nin, nout, bias, seed):
    """nout None -> 1-D weight"""
    arrays = [farr(list(batch) + [nin], seed), farr([nin] if nout is None else [nout, nin], seed + 1)]
    if bias:
        arrays.append(farr([nout], seed + 2, -9, 9))
    return pipe(arrays, [("linear", list(range(len(arrays))), {})])


def bilinear_case(batch, n1, n2, nout, bias, seed):
    arrays = [farr(list(batch) + [n1], seed), farr(list(batch) + [n2], seed + 1), farr([nout, n1, n2], seed + 2, -3, 3)]
    if bias:
        arrays.append(farr([nout], seed + 3, -9, 9))
    return pipe(arrays, [("bilinear", list(range(len(arrays))), {})])


def pairwise_case(sa, sb, ord_, eps, keep, seed):
    a = {"ord": None} if ord_ is None else {"ord": ord_, "eps": eps, "keepdims": keep}
    return pipe([farr(sa, seed, -6, 6), farr(sb, seed + 1, -6, 6)], [("pairwise_distance", [0, 1], a)])


def cosine_case(sa, sb, axis, eps, seed):
    return pipe([farr(sa, seed, -6, 6), farr(sb, seed + 1, -6, 6)], [("cosine_similarity", [0, 1], {"axis": axis, "eps": eps})])


# ---------------------------------------------------------------------------------------------
# enumerations
# ---------------------------------------------------------------------------------------------
def enum_conv1d(tier):
    """the quantifier's conv1d space: batch 1..2, Cin/Cout 1..4 with every common divisor as groups, L 1..7,
    K 1..3, stride 1..3, padding 0..2, dilation 1..2, bias on/off; all combinations with positive output size.
    quick keeps a deterministic pseudo-random 1/4 of the raw product (hash of the point index, so that different
    channel configurations keep different (L,K,s,p,d,bias) points)."""
    step = 1 if tier == "thorough" else 4
    idx = -1
    for N, Cin, Cout in itertools.product((1, 2), range(1, 5), range(1, 5)):
        for G in divisors(Cin):
            if Cout % G:
                continue
            for L, K, s, p, d, bias in itertools.product(range(1, 8), (1, 2, 3), (1, 2, 3), (0, 1, 2), (1, 2), (False, True)):
                idx += 1
                if (mix(idx) >> 11) % step:
                    continue
                if conv_out_extent(L, K, s, p, d) <= 0:
                    continue
                # spell default values as None on alternating points so that both argument types are used
                h = mix(idx)
                sv = spell((s,), 1, h & 1)
                pv = spell((p,), 0, h & 2)
                dv = spell((d,), 1, h & 4)
                gd = (G == 1 and sv is None and pv is None and dv is None)
                yield conv_case(1, N, Cin, Cout, G, [L], [K], sv, pv, dv, bias, idx, groups_default=gd, ev=((h >> 5) % 4 == 0))


def rand_conv2d(rnd, seed, ev=False):
    """one conv2d point drawn with `rnd` (random.Random-like: randint / random / choice)"""
    N = rnd.randint(1, 2)
    Cin = rnd.randint(1, 4)
    Cout = rnd.randint(1, 4)
    G = rnd.choice([g for g in divisors(Cin) if Cout % g == 0])
    K, s, p, d, sp = [], [], [], [], []
    same = rnd.random() < 0.3     # square parameters (lets the int spelling occur)
    for ax in range(2):
        if same and ax == 1:
            K.append(K[0]); s.append(s[0]); p.append(p[0]); d.append(d[0])
        else:
            K.append(rnd.randint(1, 3)); s.append(rnd.randint(1, 3)); p.append(rnd.randint(0, 2)); d.append(rnd.randint(1, 2))
        lo = max(1, d[ax] * (K[ax] - 1) + 1 - 2 * p[ax])   # smallest extent with a positive output size (<= 5)
        sp.append(rnd.randint(lo, 7))
    bits = rnd.randint(0, 63)
    sv = spell(s, 1, bits & 1, bits & 8, 2)
    pv = spell(p, 0, bits & 2, bits & 16, 2)
    dv = spell(d, 1, bits & 4, bits & 32, 2)
    return conv_case(2, N, Cin, Cout, G, sp, K, sv, pv, dv, rnd.random() < 0.5, seed, ev=ev)


def enum_conv2d(tier):
    rnd = random.Random(1700)
    n = 20000 if tier == "thorough" else 1400
    for i in range(n):
        yield rand_conv2d(rnd, i, ev=(i % 4 == 0))


def enum_pool(tier):
    """H,W 1..7 x kernel 1..min(3,extent) x stride 1..3 per axis x ceil_mode x {max,avg}; quick: every 3rd point"""
    step = 1 if tier == "thorough" else 3
    axis = [(n, k, s) for n in range(1, 8) for k in range(1, min(3, n) + 1) for s in (1, 2, 3)]
    prefixes = [(), (2,), (1, 2)]
    idx = -1
    for (H, kh, sh), (W, kw, sw), ceil, op in itertools.product(axis, axis, (False, True), ("max_pool2d", "avg_pool2d")):
        idx += 1
        if idx % step:
            continue
        h = mix(idx)
        yield pool_case(op, prefixes[h % 3], H, W, (kh, kw), (sh, sw), ceil, idx, dt=("i32" if (h >> 4) & 1 else "f64"), ev=((h >> 6) % 4 == 0))


def enum_softmax(tier):
    emax = 4 if tier == "thorough" else 3
    idx = 0
    for shape in itertools.chain(small_shapes(1, 3, emax), small_shapes(4, 4, 3)):
        d = len(shape)
        for axis in range(-d, d):
            for op in ("softmax", "softmin"):
                for dt in ("f64", "i32"):
                    idx += 1
                    # quick: integer input on every 3rd point; dim-4 sources (0.05 s each under ASan) on every 2nd point
                    if tier != "thorough" and ((dt == "i32" and mix(idx) % 3) or (d == 4 and (mix(idx) >> 5) % 2)):
                        continue
                    yield softmax_case(op, shape, axis, idx, dt, ev=(mix(idx) % 4 == 0))


EPS_CHOICES = (None, 1e-5, 1e-3)


def enum_norms(tier):
    idx = 0
    emax = 3
    # batch_norm: documented for (C,H,W) and (N,C,H,W)
    for shape in list(small_shapes(3, 3, emax)) + [[n] + s for n in (1, 2) for s in small_shapes(3, 3, emax)]:
        for eps in EPS_CHOICES:
            idx += 1
            yield batch_norm_case(shape, eps, idx)
    for shape in small_shapes(2, 4, emax):
        for D in range(1, len(shape)):
            for eps in EPS_CHOICES[:2]:
                idx += 1
                yield layer_norm_case(shape, D, eps, idx)
    for nd, dims in ((1, (2, 3)), (2, (3, 4))):
        for dim in dims:
            for shape in small_shapes(dim, dim, emax):
                for eps in EPS_CHOICES[:2]:
                    idx += 1
                    yield instance_norm_case(shape, nd, eps, idx)
    for dim in (2, 3, 4):
        for N in (1, 2):
            for C in range(1, 5):
                for G in divisors(C):
                    for rest in small_shapes(dim - 2, dim - 2, emax):
                        for eps in EPS_CHOICES[:2]:
                            idx += 1
                            # quick: dim-4 inputs (0.2 s each: every lazy element re-reduces its group) on every 2nd point
                            if tier != "thorough" and dim == 4 and mix(idx) % 2:
                                continue
                            yield group_norm_case([N, C] + rest, G, eps, idx)


def enum_linear(tier):
    idx = 0
    batches = [[]] + list(small_shapes(1, 2, 3))
    for batch in batches:
        for nin in range(1, 5):
            idx += 1
            yield linear_case(batch, nin, None, False, idx)
            for nout in (1, 2, 3):
                for bias in (False, True):
                    idx += 1
                    yield linear_case(batch, nin, nout, bias, idx)
    for batch in batches:
        for n1, n2, nout, bias in itertools.product((1, 2, 3), (1, 2, 3), (1, 2), (False, True)):
            idx += 1
            yield bilinear_case(batch, n1, n2, nout, bias, idx)
    # 4-D operands (three batch dims), as in the repository's bilinear case4a
    for batch in small_shapes(3, 3, 2):
        for n1, n2, nout, bias in ((1, 1, 1, False), (2, 3, 2, True), (3, 2, 1, False)):
            idx += 1
            yield bilinear_case(batch, n1, n2, nout, bias, idx)


def enum_dist(tier):
    idx = 0
    for shape in small_shapes(1, 3, 3):
        d = len(shape)
        variants = [(shape, shape), (shape, shape[-1:]), (shape[-1:], shape)]
        if d >= 2:
            variants.append((shape, [1] + shape[1:]))
        for sa, sb in variants:
            for ord_, eps, keep in ((None, None, None), (1, 1e-6, False), (2, 1e-6, True), (3, 1e-3, False), (2, 0.5, False)):
                idx += 1
                yield pairwise_case(sa, sb, ord_, eps, keep, idx)
        cvars = [(shape, shape)]
        if d >= 2:
            cvars += [(shape, shape[1:]), (shape, [1] + shape[1:])]
        for sa, sb in cvars:
            axes = list(range(-d, d)) + ([None] if d >= 2 else [])
            for axis in axes:
                for eps in ((None, 1e-8) if axis is not None else (None,)):
                    idx += 1
                    yield cosine_case(sa, sb, axis, eps, idx)


# ---------------------------------------------------------------------------------------------
# classification helpers
# ---------------------------------------------------------------------------------------------
def _tup(v, nd, default):
    if v is None:
        return (default,) * nd
    if isinstance(v, int):
        return (v,) * nd
    return tuple(v)


def family(op):
    if op.startswith("conv1d"):
        return "conv1d"
    if op.startswith("conv2d"):
        return "conv2d"
    return op


def conv_traits(case):
    s = case["stages"][0]
    a = s["a"]
    nd = 1 if s["f"].startswith("conv1d") else 2
    t = []
    if any(e > 1 for e in _tup(a["stride"], nd, 1)):
        t.append("stride>1")
    if any(e > 0 for e in _tup(a["padding"], nd, 0)):
        t.append("padding>0")
    if any(e > 1 for e in _tup(a["dilation"], nd, 1)):
        t.append("dilation>1")
    if (a["groups"] or 1) > 1:
        t.append("groups>1")
    return t


def pool_traits(case):
    s = case["stages"][0]
    a = s["a"]
    H, W = case["arrays"][0]["shape"][-2:]
    t = []
    if any(e > 1 for e in a["stride"]):
        t.append("stride>1")
    ext = (H, W)
    if a["ceil_mode"] and any(pool_overhang(ext[i], a["kernel_size"][i], a["stride"][i], True) for i in range(2)):
        t.append("ceil_overhang")
    if any(pool_drops_window(ext[i], a["kernel_size"][i], a["stride"][i], a["ceil_mode"]) for i in range(2)):
        t.append("ceil_window_would_start_outside")
    return t


def finding_of(case):
    """input class (not failure text) of the defects found so far; see the report / known_findings.json"""
    s = case["stages"][0]
    op, a = s["f"], s["a"]
    if op.startswith("conv"):
        if case["arrays"][0]["shape"][0] > 1:
            return "C17-conv-batch-gt1"
        G = a["groups"] or 1
        if G > 1 and case["arrays"][1]["shape"][0] // G > 1:
            return "C17-conv-groups-out-channel-order"
        d = a["dilation"]
        if isinstance(d, list) and d[0] != d[1]:
            return "C17-conv2d-dilation-pair-reversed"
    elif op == "bilinear":
        if any(e != 1 for e in case["arrays"][0]["shape"][1:-2]):
            return "C17-bilinear-middle-batch-dims"
    elif op.endswith("pool2d"):
        if "ceil_window_would_start_outside" in pool_traits(case):
            return "C17-pool-ceil-window-starts-outside"
        if op == "max_pool2d":
            r = refs_nn.pool2d(refs.make_array(case["arrays"][0]), a["kernel_size"], a["stride"], bool(a["ceil_mode"]), "max")
            if (r < 0).any():
                return "C17-max-pool-negative-window"
    return None


_KNOWN_IDS = None


def _known_ids():
    global _KNOWN_IDS
    if _KNOWN_IDS is None:
        import os
        from ..core import load_known
        _KNOWN_IDS = {e["id"] for e in load_known("C17") if e.get("status") == "known"}
        # debugging aid: NMV_C17_EXCLUDE=id1,id2 treats these finding classes as already recorded
        _KNOWN_IDS |= {x for x in os.environ.get("NMV_C17_EXCLUDE", "").split(",") if x}
    return _KNOWN_IDS


class C17(Prop):
    id = "C17"
    servers = ["nn"]
    rule = ("case = one nn routine on integer-valued data, executed lazily (shape + every element; every 4th enumerated case "
            "also through eval). conv1d: the quantifier's whole space (quick: a fixed pseudo-random 1/4 of it); conv2d: fixed-seed sample of the "
            "product space; pooling: H,W 1..7 x kernel 1..3 x stride 1..3 x ceil_mode (quick: every 3rd point); softmax/softmin: "
            "dims 1..4 x every axis; norms on dim 2..4 inputs; linear/bilinear/pairwise_distance/cosine_similarity. "
            "non-trivial: conv/pool = at least two of {stride>1, padding>0, dilation>1, groups>1, ceil-mode overhang}; softmax = "
            "axis extent > 1; norms = more than one element per statistic; linear-like = more than one input feature. "
            "distinct = canonical JSON of the case")
    assumptions = ["reference = PyTorch documentation formulas written as nested loops (nmv/refs_nn.py); PyTorch itself is not installed",
                   "avg_pool2d divides by the in-bounds element count (PyTorch with padding=0; documented by the repository's test data)",
                   "ceil_mode: a window that would start outside the input is dropped (PyTorch rule)",
                   "batch_norm channel axis = -3 ((N,C,H,W) / (C,H,W) as documented in the header); dim-2 inputs are outside its documented domain",
                   "float comparison tolerance: 1e-6 relative (double results), 1e-4 (float results); exact for conv/linear/bilinear/max_pool",
                   "input classes of findings recorded for C17 in known_findings.json (status known; ids = finding_of()) are excluded by "
                   "construction, their witnesses are replayed on every run"]
    chunk = 60

    # ---- exhaustive ----------------------------------------------------
    def exhaustive_space(self, tier):
        return ("conv1d: N1..2 x Cin,Cout 1..4 x groups|gcd x L1..7 x K1..3 x s1..3 x p0..2 x d1..2 x bias (%s); conv2d sample; "
                "pool2d H,W1..7 x k1..3 x s1..3 x ceil x {max,avg} (%s); softmax/softmin dims1..3 ext1..%d + dim4 ext1..3, all axes; norms dim2..4 ext1..3; "
                "linear/bilinear/pairwise_distance/cosine_similarity small shapes%s"
                % (("all points", "all points", 4, "") if tier == "thorough" else
                   ("a fixed 1/4 of the points", "every 3rd point", 3, " (quick: dim-4 softmax and dim-4 group_norm every 2nd point)")))

    def exhaustive(self, tier):
        def thin(g, k):
            # deterministic 1-in-k subsample (quick tier only)
            for i, c in enumerate(g):
                if tier == "thorough" or mix(i) % k == 0:
                    yield c
        gens = [enum_conv1d(tier), enum_conv2d(tier), enum_pool(tier), enum_softmax(tier), enum_norms(tier),
                enum_linear(tier), enum_dist(tier)]
        # interleave so that every chunk mixes cheap and expensive cases
        live = list(gens)
        while live:
            nxt = []
            for g in live:
                got = list(itertools.islice(g, 20))
                for c in got:
                    yield c
                if len(got) == 20:
                    nxt.append(g)
            live = nxt

    # ---- random ----------------------------------------------------------
    def n_random(self, tier):
        return 5600 if tier == "quick" else 50000

    def strategy(self, tier):
        class Draw:
            """random.Random-like facade over Hypothesis draws"""
            def __init__(self, draw):
                self.draw = draw

            def randint(self, a, b):
                return self.draw(st.integers(a, b))

            def random(self):
                return self.draw(st.integers(0, 99)) / 100.0

            def choice(self, xs):
                return self.draw(st.sampled_from(list(xs)))

        def shape(r, dmin, dmax, emax, cap=600):
            d = r.randint(dmin, dmax)
            out, p = [], 1
            for _ in range(d):
                e = r.randint(1, max(1, min(emax, cap // p)))
                out.append(e)
                p *= e
            return out

        @st.composite
        def case(draw):
            r = Draw(draw)
            seed = draw(st.integers(0, 2 ** 20))
            fam = draw(st.sampled_from(["conv1d", "conv1d", "conv2d", "conv2d", "pool", "pool", "softmax", "batch_norm", "layer_norm",
                                        "instance_norm", "group_norm", "linear", "bilinear", "pairwise", "cosine"]))
            eps = draw(st.sampled_from([None, 1e-5, 1e-3, 0.25]))
            if fam == "conv1d":
                N, Cin, Cout = r.randint(1, 2), r.randint(1, 4), r.randint(1, 4)
                G = r.choice([g for g in divisors(Cin) if Cout % g == 0])
                K, s, p, d = r.randint(1, 3), r.randint(1, 3), r.randint(0, 2), r.randint(1, 2)
                L = r.randint(max(1, d * (K - 1) + 1 - 2 * p), 9)
                bits = r.randint(0, 15)
                sv, pv, dv = spell((s,), 1, bits & 1), spell((p,), 0, bits & 2), spell((d,), 1, bits & 4)
                gd = G == 1 and sv is None and pv is None and dv is None
                return conv_case(1, N, Cin, Cout, G, [L], [K], sv, pv, dv, draw(st.booleans()), seed, groups_default=gd, ev=draw(st.booleans()))
            if fam == "conv2d":
                return rand_conv2d(r, seed, ev=(r.randint(0, 3) == 0))
            if fam == "pool":
                H, W = r.randint(1, 9), r.randint(1, 9)
                k = (r.randint(1, min(3, H)), r.randint(1, min(3, W)))
                s = (r.randint(1, 3), r.randint(1, 3))
                prefix = r.choice([(), (2,), (3,), (1, 2), (2, 2)])
                return pool_case(r.choice(["max_pool2d", "avg_pool2d"]), prefix, H, W, k, s, draw(st.booleans()), seed,
                                 dt=r.choice(["i32", "f64"]), ev=draw(st.booleans()))
            if fam == "softmax":
                sh = shape(r, 1, 4, 6, cap=200)
                return softmax_case(r.choice(["softmax", "softmin"]), sh, r.randint(-len(sh), len(sh) - 1), seed, r.choice(["i32", "f64"]),
                                    ev=draw(st.booleans()))
            if fam == "batch_norm":
                return batch_norm_case(shape(r, 3, 4, 4), eps, seed)
            if fam == "layer_norm":
                sh = shape(r, 2, 4, 4)
                return layer_norm_case(sh, r.randint(1, len(sh) - 1), eps, seed)
            if fam == "instance_norm":
                nd = r.randint(1, 2)
                dim = nd + r.randint(1, 2)
                return instance_norm_case(shape(r, dim, dim, 4), nd, eps, seed)
            if fam == "group_norm":
                C = r.randint(1, 6)
                G = r.choice(divisors(C))
                return group_norm_case([r.randint(1, 2), C] + (shape(r, 1, 2, 3) if draw(st.booleans()) else []), G, eps, seed)
            if fam == "linear":
                batch = shape(r, 1, 3, 4) if draw(st.booleans()) else []
                nin = r.randint(1, 6)
                if draw(st.integers(0, 3)) == 0:
                    return linear_case(batch, nin, None, False, seed)
                return linear_case(batch, nin, r.randint(1, 5), draw(st.booleans()), seed)
            if fam == "bilinear":
                batch = shape(r, 1, 3, 3) if draw(st.integers(0, 3)) else []
                return bilinear_case(batch, r.randint(1, 4), r.randint(1, 4), r.randint(1, 3), draw(st.booleans()), seed)
            if fam == "pairwise":
                sa = shape(r, 1, 3, 5)
                sb = r.choice([sa, sa[-1:], [1] * (len(sa) - 1) + sa[-1:]])
                if draw(st.booleans()):
                    sa, sb = sb, sa
                if draw(st.integers(0, 3)) == 0:
                    return pairwise_case(sa, sb, None, None, None, seed)
                return pairwise_case(sa, sb, r.randint(1, 3), r.choice([1e-6, 1e-3, 0.5]), draw(st.booleans()), seed)
            sa = shape(r, 1, 3, 5)
            d = len(sa)
            sb = r.choice([sa] + ([sa[1:], [1] + sa[1:]] if d >= 2 else []))
            axis = r.choice(list(range(-d, d)) + ([None] if d >= 2 else []))
            return cosine_case(sa, sb, axis, None if axis is None else r.choice([None, 1e-8]), seed)
        return case()

    # ---- classification ------------------------------------------------------
    def nontrivial(self, case):
        s = case["stages"][0]
        op = s["f"]
        a = s["a"]
        sh = case["arrays"][0]["shape"]
        if op.startswith("conv"):
            return len(conv_traits(case)) >= 2
        if op.endswith("pool2d"):
            t = pool_traits(case)
            return "stride>1" in t and "ceil_overhang" in t
        if op in ("softmax", "softmin"):
            return sh[a["axis"]] > 1
        if op == "batch_norm":
            return prod(sh) > 1
        if op == "layer_norm":
            return prod(case["arrays"][1]["shape"]) > 1
        if op == "instance_norm":
            return prod(sh[len(sh) - a["nd"]:]) > 1
        if op == "group_norm":
            return prod(sh[1:]) // a["num_groups"] > 1
        if op in ("linear", "bilinear", "pairwise_distance"):
            return sh[-1] > 1
        if op == "cosine_similarity":
            ax = 1 if a["axis"] is None else a["axis"]
            return sh[ax] > 1
        return True

    def classes(self, case):
        s = case["stages"][0]
        op = s["f"]
        a = s["a"]
        out = ["op:" + family(op), "dim:%d" % len(case["arrays"][0]["shape"])]
        if op.startswith("conv"):
            out += conv_traits(case)
            out.append("bias" if len(case["arrays"]) > 2 else "nobias")
            out.append("argkinds:s%sp%sd%s" % (_kind(a["stride"]), _kind(a["padding"]), _kind(a["dilation"])))
            if a["groups"] is None:
                out.append("groups_default")
        elif op.endswith("pool2d"):
            out += pool_traits(case)
            out.append("ceil_mode" if a["ceil_mode"] else "floor_mode")
            out.append("dt:" + case["arrays"][0].get("dt", "i32"))
        elif op in ("softmax", "softmin", "cosine_similarity"):
            if a.get("axis") is not None and a["axis"] < 0:
                out.append("negative_axis")
            if op != "cosine_similarity":
                out.append("dt:" + case["arrays"][0].get("dt", "i32"))
                m = max(abs(v) for v in case["arrays"][0]["data"])
                out.append("far_from_origin" if m > 700 else "offset_90" if m > 50 else "near_origin")
        if "eps" in a:
            out.append("eps_default" if a["eps"] is None else "eps_given")
        if case.get("eval"):
            out.append("eval")
        return out

    def features(self, case, failure):
        s = case["stages"][0]
        return {"finding": finding_of(case), "op": family(s["f"]), "crash": str(failure).startswith("server crashed"),
                "oob": str(failure).startswith("out-of-range"), "nothing": "returned Nothing" in str(failure),
                "shape_mismatch": str(failure).startswith("shape ")}

    def excluded(self, case):
        """generator-level exclusion of the input class of a finding, only once known_findings.json lists that
        finding for C17 with status "known" (its witness is still replayed on every run)"""
        if case.get("_witness"):
            return None
        f = finding_of(case)
        if f and f in _known_ids():
            return f
        return None

    # ---- oracle ------------------------------------------------------------
    def check(self, case, obs):
        cf = crash_failure(obs)
        if cf:
            return cf
        if "oob" in obs:
            return "out-of-range container access inside nmtools for arguments the reference accepts: %s" % obs["oob"][:200]
        op = case["stages"][0]["f"]
        if op in EXACT_OPS:
            tol = None
        else:
            tol = TOL_F32 if obs.get("rt") == "f32" else TOL_F64
        return refs.check_pipe(case, obs, tol=tol)
