"""C07 — element-wise functions apply the scalar operation to broadcast operands.

One case = one call of the real `view::<f>(a, b[, c])` (or `view::outer_<f>(a, b[, dtype])`) on statically
typed operands (dynamic-shape ndarray / lazy transpose view / plain scalar).  The operand element that feeds
each output element is decided HERE with NumPy broadcasting ("pairs" of flat operand indices); the server
applies the library's own scalar functor and an independent C++ reference to exactly those elements.
"""
import math
import random
import zlib

import numpy as np
from hypothesis import strategies as st

from ..core import Prop
from . import c07_spec as S
from .common import crash_failure, prod, small_shapes

NP = {"i8": np.int8, "i16": np.int16, "i32": np.int32, "i64": np.int64, "u8": np.uint8, "u16": np.uint16,
      "u32": np.uint32, "u64": np.uint64, "f32": np.float32, "f64": np.float64}


# ---------------------------------------------------------------------
# choosers: the same value generators run on random.Random (exhaustive tier, deterministic) and on
# Hypothesis draws (random tier)
# ---------------------------------------------------------------------
class RngCh:
    def __init__(self, seed):
        self.r = random.Random(seed)

    def pick(self, seq):
        return seq[self.r.randrange(len(seq))]

    def randint(self, lo, hi):
        return self.r.randint(lo, hi)

    def uniform(self, lo, hi):
        return self.r.uniform(lo, hi)

    def coin(self, p=0.5):
        return self.r.random() < p


class HypCh:
    def __init__(self, draw):
        self.draw = draw

    def pick(self, seq):
        return self.draw(st.sampled_from(list(seq)))

    def randint(self, lo, hi):
        return self.draw(st.integers(lo, hi))

    def uniform(self, lo, hi):
        return self.draw(st.floats(lo, hi, allow_nan=False, allow_infinity=False))

    def coin(self, p=0.5):
        return self.draw(st.integers(0, 99)) < int(p * 100)


# ---------------------------------------------------------------------
# value descriptors
# ---------------------------------------------------------------------
INT_POOL = [0, 1, -1, 2, -2, 3, 5, 7, -7, 10, 31, 32, 63, 64, 100, -100, 127, 128, -128, -129, 255, 256, 1000, -1000,
            32767, 32768, -32768, 65535, 65536, 46340, 46341, 2 ** 31 - 1, 2 ** 31, -2 ** 31, 2 ** 32 - 1, 2 ** 32,
            2 ** 53, 2 ** 53 + 1, 2 ** 63 - 1, -2 ** 63, 2 ** 63, 2 ** 64 - 1, 16777217, -16777217]


def f32r(v):
    return float(np.float32(v))


FLT_BASE = [0.0, -0.0, 1.0, -1.0, 0.5, -0.5, 1.5, -1.5, 2.5, -2.5, 2.0, -2.0, 3.0, -3.0, 0.1, -0.1, 0.75, 1e-3, 6.0, 10.0,
            -20.0, 20.5, 100.25, -100.25, 0.9999, -0.9999, 1.0001, 3.141592653589793, -1.5707963267948966]
FLT_BIG = {"f32": [1e10, -1e10, 3.4028234663852886e+38, -3.4028234663852886e+38, 1.1754943508222875e-38, 1e-45, -1e-45, 16777216.0, 2147483648.0],
           "f64": [1e10, -1e10, 1e300, -1e300, 1.7976931348623157e308, -1.7976931348623157e308, 2.2250738585072014e-308, 5e-324, -5e-324,
                   9007199254740992.0, 1e19]}
FLT_SPECIAL = [float("inf"), float("-inf"), float("nan")]


class IntD:
    """integers in [lo, hi] minus `excl`"""

    def __init__(self, lo, hi, excl=()):
        self.lo, self.hi, self.excl = lo, hi, set(excl)
        self.pool = sorted({v for v in INT_POOL + [lo, lo + 1, hi, hi - 1, (lo + hi) // 2] if lo <= v <= hi and v not in self.excl})
        if not self.pool:
            self.pool = [v for v in range(lo, hi + 1) if v not in self.excl][:8]

    def sample(self, ch):
        if ch.coin(0.5):
            return ch.pick(self.pool)
        span = min(self.hi - self.lo, ch.pick([8, 300, 70000, self.hi - self.lo]))
        c = ch.pick([0, self.lo, self.hi]) if self.lo <= 0 <= self.hi else ch.pick([self.lo, self.hi])
        lo = max(self.lo, c - span)
        hi = min(self.hi, c + span)
        v = ch.randint(lo, hi)
        if v in self.excl:
            return ch.pick(self.pool)
        return v


class FltD:
    """floats of type t; flags: nan, inf, big (huge/tiny magnitudes), bound (|x| <= bound), lo/hi interval"""

    def __init__(self, t, nan=True, inf=True, big=True, bound=None, lo=None, hi=None, grid=None):
        self.t = t
        pool = list(FLT_BASE)
        if big and bound is None:
            pool += FLT_BIG[t]
        if inf and bound is None and lo is None and hi is None:
            pool += FLT_SPECIAL[:2]
        if nan and lo is None and hi is None:
            pool += FLT_SPECIAL[2:]
        self.bound = bound
        self.lo = lo if lo is not None else (-bound if bound is not None else -50.0)
        self.hi = hi if hi is not None else (bound if bound is not None else 50.0)
        self.grid = grid

        def ok(v):
            if v != v or v in (float("inf"), float("-inf")):
                return True
            if bound is not None and abs(v) > bound:
                return False
            if lo is not None and v < lo:
                return False
            if hi is not None and v > hi:
                return False
            return True
        self.pool = [v for v in pool if ok(v)]
        if grid:
            self.pool = [v for v in self.pool if v == v and abs(v) != float("inf") and (v / grid) == int(v / grid)]
        if not self.pool:
            self.pool = [self._fix((self.lo + self.hi) / 2)]

    def _fix(self, v):
        if self.grid:
            v = round(v / self.grid) * self.grid
            v = min(max(v, self.lo), self.hi)
        if self.t == "f32":
            v = f32r(v)
            # rounding to f32 may step over an interval end
            if v < self.lo:
                v = float(np.nextafter(np.float32(v), np.float32(np.inf)))
            if v > self.hi:
                v = float(np.nextafter(np.float32(v), np.float32(-np.inf)))
        return v

    def sample(self, ch):
        if ch.coin(0.5):
            v = ch.pick(self.pool)
            return f32r(v) if self.t == "f32" and v == v else v
        if ch.coin(0.3):
            return self._fix(float(ch.randint(int(math.ceil(self.lo)), int(math.floor(self.hi))))) if math.ceil(self.lo) <= math.floor(self.hi) else self._fix(self.lo)
        return self._fix(ch.uniform(self.lo, self.hi))


def full(t, **kw):
    if S.is_float(t):
        return FltD(t, **kw)
    lo, hi = S.irange(t)
    return IntD(lo, hi)


def clampd(t, lo, hi, excl=()):
    a, b = S.irange(t)
    return IntD(max(a, lo), min(b, hi), excl)


def small(t, lo=-10, hi=10, excl=()):
    if S.is_float(t):
        return FltD(t, nan=False, inf=False, big=False, lo=float(lo), hi=float(hi), grid=0.25)
    return clampd(t, lo, hi, excl)


def isqrt_bound(w):
    return math.isqrt((1 << (w - 1)) - 1)


def domains(kind, op, ts, ch, dtype=None):
    """list of value descriptors, one per operand, inside the op's defined domain (no C++ UB in library or reference)"""
    if kind == "U":
        t = ts[0]
        dom = S.UNARY[op][2]
        if S.is_float(t):
            if dom == "finite":
                return [FltD(t, nan=False, inf=False, big=False, bound=1e6)]
            return [FltD(t)]
        rt = S.promote(t)
        w = S.WIDTH[rt]
        if dom == "finite":
            return [clampd(t, -3600, 3600)]
        if dom == "neg" and S.is_signed(rt):
            return [clampd(t, -(2 ** (w - 1) - 1), 2 ** (w - 1) - 1)]
        if dom == "sq" and S.is_signed(rt):
            b = isqrt_bound(w)
            return [clampd(t, -b, b)]
        if dom == "recip":
            lo, hi = S.irange(t)
            return [IntD(lo, hi, excl=[0])]
        return [full(t)]
    if kind.startswith("A"):
        return [FltD(ts[0], nan=False, inf=False, big=False, bound=100.0)]
    if kind == "T":
        if op == "clip":
            t = ts[0]
            if S.is_float(t):
                m = FltD(t, nan=False, inf=False, big=False, bound=50.0).sample(ch)
                return [FltD(t, nan=False, inf=False, big=False, bound=100.0),
                        FltD(t, nan=False, inf=False, big=False, lo=-100.0, hi=m), FltD(t, nan=False, inf=False, big=False, lo=m, hi=100.0)]
            lo, hi = S.irange(t)
            m = IntD(lo, hi).sample(ch)
            return [IntD(lo, hi), IntD(lo, m), IntD(m, hi)]
        # where
        tc = ts[0]
        c = FltD(tc, nan=False, inf=False, big=False, lo=-1.0, hi=1.0, grid=0.5) if S.is_float(tc) else clampd(tc, -1, 2)
        return [c, full(ts[1]), full(ts[2])]
    # binary
    ta, tb = ts
    dom = S.BINARY[op][2]
    if dtype is not None and dtype not in ("f64",):
        # explicit result dtype: keep every exact result inside the range of the narrowest target (i8) so that the
        # float->int / int->int conversions of library and reference are defined
        if op in ("left_shift", "right_shift"):
            return [small(ta, 0, 15), small(tb, 0, 3)]
        if op == "power":
            return [small(ta, 1, 4), small(tb, 0, 3)]
        if op == "fmod":
            return [small(ta), small(tb, 1, 10)]
        if op == "multiply":
            return [small(ta), small(tb)]
        return [small(ta, -40, 40), small(tb, -40, 40)]
    rt = S.arith_type(ta, tb)
    if dom == "add":
        if not S.is_float(rt) and S.is_signed(rt):
            b = 2 ** (S.WIDTH[rt] - 2) - 1
            return [clampd(ta, -b, b), clampd(tb, -b, b)]
        return [full(ta), full(tb)]
    if dom == "mul":
        if not S.is_float(rt) and S.is_signed(rt):
            b = isqrt_bound(S.WIDTH[rt])
            return [clampd(ta, -b, b), clampd(tb, -b, b)]
        return [full(ta), full(tb)]
    if dom == "div":
        if S.is_float(rt):
            return [full(ta), full(tb)]
        alo, ahi = S.irange(ta)
        blo, bhi = S.irange(tb)
        if S.is_signed(rt):
            rlo = -(2 ** (S.WIDTH[rt] - 1))
            alo = max(alo, rlo + 1)
        return [IntD(alo, ahi), IntD(blo, bhi, excl=[0])]
    if dom == "lshift":
        rt = S.promote(ta)
        w = S.WIDTH[rt]
        _, bhi = S.irange(tb)
        smax = min(ch.pick([0, 1, 2, 3, 7, 8, 15, 16, 30, 31, 32, 62, 63]), w - 1, bhi)
        if S.is_signed(rt):
            amax = ((1 << (w - 1)) - 1) >> smax
            return [clampd(ta, 0, amax), clampd(tb, 0, smax)]
        return [full(ta), clampd(tb, 0, smax)]
    if dom == "rshift":
        w = S.WIDTH[S.promote(ta)]
        return [full(ta), clampd(tb, 0, w - 1)]
    if dom == "ldexp":
        return [full(ta), clampd(tb, -70, 70)]
    if dom == "nonan":
        return [full(ta, nan=False) if S.is_float(ta) else full(ta), full(tb, nan=False) if S.is_float(tb) else full(tb)]
    return [full(ta), full(tb)]


def enc(t, v):
    """JSON encoding of a value of element type t (u64 above 2^63-1 travels as a string)"""
    if t == "u64" and v > 2 ** 63 - 1:
        return str(v)
    return v


def gen_operand(t, shape, form, desc, ch):
    n = prod(shape)
    vals = [desc.sample(ch) for _ in range(n)]
    if form == "scalar":
        return {"scalar": enc(t, vals[0])}
    return {"shape": list(shape), "data": [enc(t, v) for v in vals], "form": form}


# activation parameters (values exactly representable in f32)
ACT_PARAMS = {
    "elu": [[0.25], [0.5], [1.0], [1.5], [2.0]],
    "celu": [[0.25], [0.5], [1.0], [1.5], [2.0]],
    "hardshrink": [[0.0], [0.25], [0.5], [1.0], [2.5]],
    "softshrink": [[0.0], [0.25], [0.5], [1.0], [2.5]],
    "leaky_relu": [[f32r(0.01)], [0.25], [-0.5], [0.0], [1.0], [2.0]],
    "prelu": [[0.25], [f32r(0.1)], [-0.5], [0.0], [1.0]],
    "hardtanh": [[-1.0, 1.0], [-2.0, 0.5], [0.0, 6.0], [-0.25, 0.25], [-100.0, 100.0]],
    "softplus": [[1.0, 20.0], [0.5, 20.0], [2.0, 10.0], [0.25, 5.0], [1.0, 1.0]],
}


# ---------------------------------------------------------------------
# broadcasting (NumPy decides which operand element feeds which output element)
# ---------------------------------------------------------------------
def op_shape(o):
    return () if "scalar" in o else tuple(o["shape"])


def bcast_pairs(shapes, outer=False):
    idx = [np.arange(prod(s), dtype=np.int64).reshape(s) for s in shapes]
    if outer:
        a, b = idx
        a = a.reshape(tuple(shapes[0]) + (1,) * len(shapes[1]))
        bs = np.broadcast_arrays(a, b)
    else:
        bs = np.broadcast_arrays(*idx)
    return np.stack([x.reshape(-1) for x in bs], axis=1).tolist(), list(bs[0].shape)


def broadcastable(*shapes):
    try:
        np.broadcast_shapes(*shapes)
        return True
    except ValueError:
        return False


# ---------------------------------------------------------------------
# comparisons
# ---------------------------------------------------------------------
def is_ft(t):
    return t in ("f32", "f64", "f80")


def same_bits(a, b, flt):
    if flt:
        a, b = float(a), float(b)
        if a != a or b != b:
            return a != a and b != b
        return a == b and math.copysign(1.0, a) == math.copysign(1.0, b)
    return a == b


def same_value(a, b, flt):
    if flt:
        a, b = float(a), float(b)
        if a != a or b != b:
            return a != a and b != b
    return a == b


def ulp_dist(a, b, t):
    a, b = float(a), float(b)
    if a != a or b != b:
        return 0 if (a != a and b != b) else float("inf")
    if a == b:
        return 0
    if math.isinf(a) or math.isinf(b):
        return float("inf")
    if t == "f32":
        x = np.array([a, b], dtype=np.float32).view(np.int32).astype(np.int64)
        m = np.int64(-2 ** 31)
    else:
        x = np.array([a, b], dtype=np.float64).view(np.int64)
        m = np.int64(-2 ** 63)
    x = np.where(x < 0, m - x, x)
    return abs(int(x[0]) - int(x[1]))


def first_diff(xs, ys, eq):
    for i, (x, y) in enumerate(zip(xs, ys)):
        if not eq(x, y):
            return i
    return None


# ---------------------------------------------------------------------
# the property
# ---------------------------------------------------------------------
P_BIN = [((2, 3), (3,)), ((2, 1, 3), (3, 1)), ((3,), (2, 1, 3)), ((2, 3), (2, 3)), ((1,), (2, 2)), ((3, 1, 2), (1, 2, 1))]
P_UN = [(4,), (2, 3), (2, 1, 3)]
P_TER = [((2, 3), (2, 3), (2, 3)), ((3,), (2, 1), (2, 3)), ((2, 1, 3), (3,), (2, 1)), ((1, 3), (2, 1, 1), (3,))]
P_OUT = [((2, 3), (3,)), ((2,), (3, 2)), ((2, 1, 2), (2, 2))]


def _entries():
    es = S.entries()
    return sorted(es, key=lambda e: (e["kind"], e["op"], e["types"]))


def family(kind, op):
    if kind == "B":
        return S.BINARY[op][0]
    if kind == "U":
        return S.UNARY[op][0]
    if kind == "T":
        return "ternary"
    return "activation"


def cmp_class(kind, op):
    if kind == "B":
        return S.BINARY[op][1]
    if kind == "U":
        return S.UNARY[op][1]
    if kind == "T":
        return "value"
    return "approx"


def common_t(ta, tb):
    """std::common_type / type of `c ? a : b`"""
    return ta if ta == tb else S.arith_type(ta, tb)


def model_type(kind, op, ts):
    """result type of the C++ scalar operation derived from the usual arithmetic conversions (third, Python-side
    derivation; None = no model)"""
    fam = family(kind, op)
    flt = lambda t: "f32" if t == "f32" else "f64"   # <cmath>: float stays float, everything else -> double
    if kind == "B":
        ta, tb = ts
        if fam in ("cmp",) or op in ("logical_and", "logical_or", "logical_xor"):
            return "bool"
        if fam in ("arith", "bitwise"):
            return S.arith_type(ta, tb)
        if fam == "shift":
            return S.promote(ta)
        if op in ("maximum", "minimum"):
            return common_t(ta, tb)
        if op == "ldexp":
            return flt(ta)
        return "f32" if (ta, tb) == ("f32", "f32") else "f64"
    if kind == "U":
        t = ts[0]
        if fam in ("classify",) or op == "logical_not":
            return "bool"
        if op in ("invert", "negative", "positive", "square", "reciprocal"):
            return S.promote(t)
        if fam == "angle":
            return t if S.is_float(t) else "f64"
        return flt(t)
    if kind == "T":
        return ts[0] if op == "clip" else common_t(ts[1], ts[2])
    return ts[0]


def nm_common(a, b):
    """nmtools' own meta::common_type (read from meta/bits/transform/common_type.hpp; used ONLY to delimit the input class
    of the recorded finding F_WHERE, never as an oracle): int+float -> the float type, otherwise the larger type (ties:
    the right one), made signed when either side is signed"""
    if S.is_float(a) != S.is_float(b):
        return a if S.is_float(a) else b
    r = a if S.WIDTH[a] > S.WIDTH[b] else b
    if not S.is_float(r) and (S.is_signed(a) or S.is_signed(b)) and not S.is_signed(r):
        r = "i%d" % S.WIDTH[r]
    return r


def where_view_type(ts):
    return nm_common(nm_common(ts[0], ts[1]), ts[2])


F_SCALAR = "C07-wider-scalar-truncated"
F_XOR = "C07-logical-xor-int"
F_WHERE = "C07-where-cond-type"
F_ANGLE = "C07-angle-int-truncated"


CANARIES = [
    {"k": "B", "f": "maximum", "ts": ["i32", "f64"], "a": {"shape": [1], "data": [1], "form": "array"}, "b": {"scalar": 2.5}},
    {"k": "B", "f": "power", "ts": ["i32", "f64"], "a": {"shape": [1], "data": [63], "form": "array"}, "b": {"scalar": 2.5}},
    {"k": "T", "f": "where", "ts": ["i32", "i32", "f64"], "a": {"shape": [1], "data": [0], "form": "array"},
     "b": {"shape": [1], "data": [1], "form": "array"}, "c": {"scalar": 2.5}},
    {"k": "B", "f": "logical_xor", "ts": ["i32", "i32"], "a": {"scalar": 1}, "b": {"scalar": 0}},
    {"k": "T", "f": "where", "ts": ["i32", "i8", "i8"], "a": {"shape": [1], "data": [1], "form": "array"},
     "b": {"shape": [1], "data": [1], "form": "array"}, "c": {"shape": [1], "data": [2], "form": "array"}},
    {"k": "U", "f": "deg2rad", "ts": ["i32"], "a": {"shape": [2], "data": [180, 90], "form": "array"}},
]


def build_case(e, forms, shapes, ch, outer=False, dtype=None, params=None, default=False):
    kind, op, ts = e["kind"], e["op"], e["types"]
    case = {"k": kind, "f": op, "ts": list(ts)}
    nop = {"B": 2, "U": 1, "T": 3}.get(kind, 1)
    ds = domains(kind, op, ts, ch, dtype if outer else None)
    for name, t, f, shp, d in zip("abc", ts[:nop], forms, shapes, ds):
        case[name] = gen_operand(t, () if f == "scalar" else shp, f, d, ch)
    if outer:
        case["outer"] = True
        if dtype:
            case["dtype"] = dtype
    if kind in ("A1", "A2"):
        case["p"] = list(params)
        if default:
            case["default"] = True
    if kind == "T" and op == "clip":
        case["noview"] = True
    return case


class C07(Prop):
    id = "C07"
    servers = ["ufunc"]
    chunk = 150
    rule = ("case = (op, static element types, operand forms {dynamic ndarray, lazy transpose view, plain scalar}, operand shapes, "
            "values inside the op's C++-defined domain[, outer, dtype][, activation parameters]); the real view::<op> is "
            "evaluated lazily (has-value, element type, shape, every element) and compared with the library's own scalar functor "
            "and an independent C++ reference applied to the operand elements that NumPy broadcasting designates. "
            "Exhaustive: every compiled (op x types x form) x fixed broadcast patterns, plus all broadcastable shape pairs "
            "dim 0..3 extents 1..3 for add/less/maximum (+outer_add dim 1..2, where-triples dim 0..2 extents 1..2); random: dim<=4, "
            "extents<=5 (sampled up to 9), pools with type extremes / specials. non-trivial = operands of different shape, or mixed element types, or a "
            "lazy-view operand; distinct = canonical JSON of the case")
    assumptions = [
        "scalar semantics = C++ (usual arithmetic conversions / <cmath>), as implemented by the library's own functor; an independent "
        "reference written with operators and std:: functions in the same static types must agree (exact, or <= 4 ulp for <cmath>/activations)",
        "NumPy (np.broadcast_arrays on index arrays) decides the broadcast shape and the operand element feeding each output element",
        "inputs avoid C++ UB: no signed overflow, no integer division by zero, shift counts in [0,width) and non-negative shifted values, "
        "no NaN for maximum/minimum/clip/activations (the header's `t > u ? t : u` convention for NaN differs from NumPy and is not judged)",
        "activations: reference = PyTorch documentation formula in the input element type; float inputs |x| <= 100",
        "view::clip and the variadic view::ufunc(op,a,b,c) do not compile on this tree (rejected programs): only clip_t (scalar functor) is checked",
        "integer scalar next to integer array for fmod/hypot/arctan2/fmax/fmin/ldexp is rejected at compile time (ambiguous <cmath> overload): not generated",
    ]

    # ---- exhaustive ----------------------------------------------------
    def exhaustive_space(self, tier):
        return ("every compiled (op x element types x operand form) of %d ops x fixed broadcast patterns; all broadcastable shape pairs dim0..3 "
                "ext1..3 for add(i32,i32)/less(f64,f64)/maximum(i32,f64) incl. view operands; outer_add pairs dim1..2; where triples dim0..2 ext1..2"
                % (len(S.BINARY) + len(S.UNARY) + 2 + len(S.ACTIVATIONS)))

    def _ch(self, *key):
        return RngCh(zlib.crc32(repr(key).encode()))

    def exhaustive(self, tier):
        npat = {"quick": 3, "thorough": 6}[tier]
        # minimal in-domain cases of every defect class found so far come first, so that each class is among the
        # first reported violations (they are ordinary cases of the property, not exemptions)
        yield from CANARIES
        for e in _entries():
            kind, op, ts, mask = e["kind"], e["op"], e["types"], e["mask"]
            if kind == "B":
                for fi, (fa, fb) in enumerate(S.forms_of_mask_b(mask)):
                    for pi in range(npat):
                        sa, sb = P_BIN[(pi + fi) % len(P_BIN)]
                        yield build_case(e, (fa, fb), (sa, sb), self._ch("B", op, ts, fa, fb, pi))
                for dt in S.outer_of_mask(mask):
                    for pi in range(npat):
                        sa, sb = P_OUT[pi % len(P_OUT)]
                        yield build_case(e, ("array", "array"), (sa, sb), self._ch("O", op, ts, dt, pi), outer=True, dtype=dt)
            elif kind == "U":
                for fi, f in enumerate(S.forms_of_mask_u(mask)):
                    for pi in range(npat):
                        yield build_case(e, (f,), (P_UN[(pi + fi) % len(P_UN)],), self._ch("U", op, ts, f, pi))
            elif kind == "T":
                if op == "clip":
                    for pi in range(npat * 2):
                        yield build_case(e, ("array",) * 3, P_TER[pi % len(P_TER)], self._ch("T", op, ts, pi))
                    continue
                for fi, fs in enumerate(S.forms_of_mask_t(mask)):
                    for pi in range(npat):
                        yield build_case(e, fs, P_TER[(pi + fi) % len(P_TER)], self._ch("T", op, ts, fs, pi))
            else:
                plist = ACT_PARAMS.get(op, [[]])
                for fi, f in enumerate(S.forms_of_mask_u(mask)):
                    for pi in range(npat):
                        ps = plist[(pi + fi) % len(plist)]
                        yield build_case(e, (f,), (P_UN[(pi + fi) % len(P_UN)],), self._ch("A", op, ts, f, pi), params=ps)
                for f in S.forms_of_mask_u(mask, S.ACT_BIT_DEFAULT):
                    dflt = [f32r(x) for x in S.ACTIVATIONS[op][1]]
                    yield build_case(e, (f,), (P_UN[1],), self._ch("AD", op, ts, f), params=dflt, default=True)
        # shape-exhaustive part
        ents = {(e["kind"], e["op"], tuple(e["types"])): e for e in _entries()}
        emax = 3
        shapes = [tuple(s) for s in small_shapes(0, 3, emax)]
        reps = [(("B", "add", ("i32", "i32")), [("array", "array"), ("view", "view"), ("array", "view")]),
                (("B", "less", ("f64", "f64")), [("array", "array"), ("view", "array")]),
                (("B", "maximum", ("i32", "f64")), [("array", "array")])]
        for sa in shapes:
            for sb in shapes:
                if not broadcastable(sa, sb):
                    continue
                for key, formsl in reps:
                    e = ents[key]
                    for (fa, fb) in formsl:
                        fa2 = "scalar" if not sa else fa
                        fb2 = "scalar" if not sb else fb
                        if (fa2, fb2) != (fa, fb) and (fa, fb) != formsl[0]:
                            continue   # scalar variants once per op
                        yield build_case(e, (fa2, fb2), (sa, sb), self._ch("X", key, fa, fb, sa, sb))
        e = ents[("B", "add", ("i32", "i32"))]
        oshapes = [tuple(s) for s in small_shapes(1, 2, emax)]
        for sa in oshapes:
            for sb in oshapes:
                yield build_case(e, ("array", "array"), (sa, sb), self._ch("XO", sa, sb), outer=True)
        e = ents[("T", "where", ("i32", "f64", "f64"))]
        tshapes = [tuple(s) for s in small_shapes(0, 2, 2)]
        tforms = set(S.forms_of_mask_t(e["mask"]))
        for sc in tshapes:
            for sx in tshapes:
                for sy in tshapes:
                    if not broadcastable(sc, sx, sy):
                        continue
                    fs = tuple("scalar" if not s else "array" for s in (sc, sx, sy))
                    if fs not in tforms:
                        continue
                    yield build_case(e, fs, (sc, sx, sy), self._ch("XT", sc, sx, sy))

    # ---- random ---------------------------------------------------------
    def n_random(self, tier):
        return 60000 if tier == "quick" else 600000

    def strategy(self, tier):
        ents = _entries()
        by_kind = {}
        for e in ents:
            by_kind.setdefault("A" if e["kind"].startswith("A") else e["kind"], []).append(e)
        kinds = ["B", "B", "B", "B", "U", "U", "T", "A"]

        def rand_shapes(draw, n, emax=5, dmax=4):
            """n mutually broadcastable shapes: draw the result shape, then per operand drop leading axes / set extents to 1"""
            d = draw(st.integers(1, dmax))
            emax = draw(st.sampled_from([emax, emax, emax, 9]))   # "plus sampled larger"
            res = []
            p = 1
            for _ in range(d):
                x = draw(st.integers(1, emax if p * emax <= 400 else max(1, 400 // p)))
                res.append(x)
                p *= x
            out = []
            for _ in range(n):
                k = draw(st.integers(1, d))
                s = res[d - k:]
                s = [1 if draw(st.integers(0, 3)) == 0 else x for x in s]
                out.append(tuple(s))
            return out

        @st.composite
        def case(draw):
            ch = HypCh(draw)
            kind = draw(st.sampled_from(kinds))
            e = draw(st.sampled_from(by_kind[kind]))
            k, op, mask = e["kind"], e["op"], e["mask"]
            if k == "B":
                outs = S.outer_of_mask(mask)
                fl = S.forms_of_mask_b(mask)
                if outs and (not fl or draw(st.integers(0, 3)) == 0):
                    dt = draw(st.sampled_from(outs))
                    d1 = draw(st.integers(1, 3))
                    d2 = draw(st.integers(1, 3))
                    sa = tuple(draw(st.integers(1, 3)) for _ in range(d1))
                    sb = tuple(draw(st.integers(1, 3)) for _ in range(d2))
                    return build_case(e, ("array", "array"), (sa, sb), ch, outer=True, dtype=dt)
                fa, fb = draw(st.sampled_from(fl))
                sa, sb = rand_shapes(draw, 2)
                return build_case(e, (fa, fb), (sa, sb), ch)
            if k == "U":
                f = draw(st.sampled_from(S.forms_of_mask_u(mask)))
                (s,) = rand_shapes(draw, 1)
                return build_case(e, (f,), (s,), ch)
            if k == "T":
                if op == "clip":
                    return build_case(e, ("array",) * 3, rand_shapes(draw, 3, emax=3, dmax=3), ch)
                fs = draw(st.sampled_from(S.forms_of_mask_t(mask)))
                return build_case(e, fs, rand_shapes(draw, 3, emax=4, dmax=3), ch)
            plist = ACT_PARAMS.get(op, [[]])
            dforms = S.forms_of_mask_u(mask, S.ACT_BIT_DEFAULT)
            (s,) = rand_shapes(draw, 1)
            if dforms and draw(st.integers(0, 4)) == 0:
                return build_case(e, (draw(st.sampled_from(dforms)),), (s,), ch, params=[f32r(x) for x in S.ACTIVATIONS[op][1]], default=True)
            f = draw(st.sampled_from(S.forms_of_mask_u(mask)))
            return build_case(e, (f,), (s,), ch, params=draw(st.sampled_from(plist)))
        return case()

    # ---- plumbing -------------------------------------------------------
    def _operands(self, case):
        return [case[n] for n in "abc" if n in case]

    def request(self, case):
        req = {k: v for k, v in case.items() if not k.startswith("_")}
        req["op"] = "uf"
        shapes = [op_shape(o) for o in self._operands(case)]
        req["pairs"], _ = bcast_pairs(shapes, outer=bool(case.get("outer")))
        return req

    def nontrivial(self, case):
        ops = self._operands(case)
        shapes = {op_shape(o) for o in ops}
        return len(shapes) > 1 or len(set(case["ts"])) > 1 or any(o.get("form") == "view" for o in ops)

    def classes(self, case):
        ops = self._operands(case)
        forms = ["scalar" if "scalar" in o else o.get("form", "array") for o in ops]
        shapes = [op_shape(o) for o in ops]
        out = ["fam:" + family(case["k"], case["f"]), "op:" + case["f"], "ts:" + ",".join(case["ts"]), "forms:" + ",".join(forms)]
        if case.get("outer"):
            out.append("outer")
            out.append("dtype:%s" % case.get("dtype"))
        elif len(ops) > 1:
            arr = [s for s in shapes if s]
            out.append("bcast:" + ("all-scalar" if not arr else "same-shape" if len(set(shapes)) == 1 else
                                    "rank-diff" if len({len(s) for s in arr}) > 1 else "scalar-mix" if len(arr) < len(shapes) else "size1-axes"))
        if case.get("default"):
            out.append("act-default-params")
        return out

    _known_ids = None

    def _known(self):
        if C07._known_ids is None:
            from .. import core
            C07._known_ids = {e["id"] for e in core.load_known("C07") if e.get("status") == "known"}
        return C07._known_ids

    def _mixed_scalar(self, case):
        """input class of F_SCALAR: maximum/minimum/power/where with a scalar value operand whose element type differs
        from the element type of the array operand it meets"""
        f = case["f"]
        if case["k"] == "B" and f in ("maximum", "minimum", "power"):
            a, b = case["a"], case["b"]
            return (("scalar" in a) != ("scalar" in b)) and case["ts"][0] != case["ts"][1]
        if case["k"] == "T" and f == "where":
            x, y = case["b"], case["c"]
            return (("scalar" in x) != ("scalar" in y)) and case["ts"][1] != case["ts"][2]
        return False

    def finding_of(self, case, failure):
        tag = str(failure).split(":")[0]
        if tag == "element" and self._mixed_scalar(case):
            return F_SCALAR
        if tag == "functor-type" and case["f"] == "logical_xor":
            return F_XOR
        if tag in ("functor-type", "functor-value") and family(case["k"], case["f"]) == "angle" and not S.is_float(case["ts"][0]):
            return F_ANGLE
        if tag == "element-type" and case["f"] == "where" and where_view_type(case["ts"]) != common_t(case["ts"][1], case["ts"][2]):
            return F_WHERE
        return None

    def features(self, case, failure):
        return {"f": case["f"], "k": case["k"], "ts": ",".join(case["ts"]), "what": str(failure).split(":")[0],
                "finding": self.finding_of(case, failure),
                "forms": ",".join("scalar" if "scalar" in o else o.get("form", "array") for o in self._operands(case))}

    def excluded(self, case):
        """generator-level exclusion of the input class of a finding recorded as known in known_findings.json (its
        witness is still replayed every run); without a recorded entry nothing is excluded"""
        ids = self._known()
        if not ids or case.get("_witness"):
            return None
        if F_SCALAR in ids and self._mixed_scalar(case):
            return F_SCALAR
        if F_ANGLE in ids and family(case["k"], case["f"]) == "angle" and not S.is_float(case["ts"][0]):
            return F_ANGLE
        if F_WHERE in ids and case["f"] == "where" and where_view_type(case["ts"]) != common_t(case["ts"][1], case["ts"][2]):
            return F_WHERE
        return None

    # ---- oracle ---------------------------------------------------------
    def check(self, case, obs):
        cf = crash_failure(obs)
        if cf:
            return cf
        if "error" in obs:
            return "HARNESS-ERROR server: " + str(obs["error"])
        kind, op = case["k"], case["f"]
        shapes = [op_shape(o) for o in self._operands(case)]
        outer = bool(case.get("outer"))
        pairs, eshape = bcast_pairs(shapes, outer=outer)
        lib, ref = obs.get("sc_lib"), obs.get("sc_ref")
        tl, tr = obs.get("sc_t_lib"), obs.get("sc_t_ref")
        if lib is None or ref is None or len(lib) != len(pairs) or len(ref) != len(pairs):
            return "HARNESS-ERROR scalar evaluations missing"
        # 1. library scalar functor vs independent reference
        cls = cmp_class(kind, op)
        fl, fr = is_ft(tl), is_ft(tr)
        if cls == "exact":
            i = first_diff(lib, ref, lambda x, y: same_bits(x, y, fl or fr))
        elif cls == "value":
            i = first_diff(lib, ref, lambda x, y: same_value(x, y, fl or fr))
        else:
            tt = "f32" if "f32" in (tl, tr) else "f64"
            i = first_diff(lib, ref, lambda x, y: ulp_dist(x, y, tt) <= 4 if (fl or fr) else x == y)
        if i is not None:
            return "functor-value: scalar functor %s(%s) = %r (%s) but reference gives %r (%s) [%s]" % (
                op, ", ".join(repr(self._elem(o, k)) for o, k in zip(self._operands(case), pairs[i])), lib[i], tl, ref[i], tr, cls)
        mt = model_type(kind, op, case["ts"])
        if case.get("dtype"):
            mt = case["dtype"]
        if mt is not None and tr != mt:
            return "HARNESS-ERROR reference expression of %s on (%s) has type %s, the conversion model says %s" % (op, ",".join(case["ts"]), tr, mt)
        # logical_xor: `bool ^ bool` is int in C++ while `bool != bool` is bool; both are legitimate spellings of the scalar
        # operation, so its result type is not judged against the reference expression (the view must still have the functor's type)
        if tl != tr and op != "logical_xor":
            return "functor-type: scalar functor of %s on (%s) yields %s, C++ reference expression yields %s" % (op, ",".join(case["ts"]), tl, tr)
        if case.get("noview"):
            return None
        # 2. the lazy view
        if not obs.get("hv"):
            return "no-value: view::%s returned no value for broadcastable operands %s" % (op, shapes)
        if obs["shape"] != eshape:
            return "shape: %s != expected %s for operand shapes %s%s" % (obs["shape"], eshape, shapes, " (outer)" if outer else "")
        if obs.get("size") != prod(eshape):
            return "shape: size() = %s != %s" % (obs.get("size"), prod(eshape))
        if "dim" in obs and obs["dim"] != len(eshape):
            return "shape: dim() = %s != %s" % (obs["dim"], len(eshape))
        el = obs["elems"]
        if len(el) != len(pairs):
            return "shape: element count %d != %d" % (len(el), len(pairs))
        t = obs["t"]
        ft = is_ft(t) or fl
        if cls == "value":
            # maximum/minimum/fmax/fmin/where: the sign of a zero result is unspecified (std::fmin(0.0,-0.0) may return
            # either, and the inlined and the libm variant differ), so +0 == -0 here; everything else is compared bitwise
            i = first_diff(el, lib, lambda x, y: same_value(x, y, ft))
        else:
            i = first_diff(el, lib, lambda x, y: same_bits(x, y, ft))
        if i is not None:
            multi = np.unravel_index(i, eshape) if eshape else ()
            return "element: %s (flat %d): view gives %r, %s(%s) on operand elements %s is %r" % (
                list(int(x) for x in multi), i, el[i], op, ", ".join(repr(self._elem(o, k)) for o, k in zip(self._operands(case), pairs[i])), pairs[i], lib[i])
        want_t = case.get("dtype") or tl
        if t != want_t:
            return "element-type: view has %s, expected %s (%s)" % (t, want_t, "requested dtype" if case.get("dtype") else "type of the scalar operation on (%s)" % ",".join(case["ts"]))
        return None

    @staticmethod
    def _elem(o, k):
        if "scalar" in o:
            return o["scalar"]
        return o["data"][k]
