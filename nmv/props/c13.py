"""C13 — the per-thread device kernel body reproduces host evaluation for any launch geometry.

Generated programs (E2 progen): a view composition over dynamic leaves is built on the host; the program prints the host
evaluation and then, for every schedule read from stdin, runs the library's kernel body (harness/pgk/pgk.hpp: create_mutable_array +
functional::apply + assign_result, operands rebuilt as device_array from (pointer, shape, dim)) once per listed thread, in the listed
order, into a guarded sentinel-filled buffer, and prints the buffer. The HARNESS owns the schedule.
"""
import hashlib
import math
import os
import random
import time
from concurrent.futures import ThreadPoolExecutor

import numpy as np

from .. import build, e2, progen
from ..core import chash

G = 8            # guard elements (must equal pgk::G)
MAX_OUT = 64     # output elements
MAX_MID = 96     # elements of an intermediate value
MAX_DIM = 5
INT_BOUND = 2 ** 30
JOBS = 8

UFUNC1 = {"negative": np.negative, "square": np.square, "fabs": np.abs, "tanh": np.tanh, "exp": np.exp, "sin": np.sin}
UFUNC2 = {"add": np.add, "subtract": np.subtract, "multiply": np.multiply, "maximum": np.maximum, "minimum": np.minimum, "divide": np.divide}
ACTIV = {"relu": lambda x: np.maximum(x, 0), "sigmoid": lambda x: 1 / (1 + np.exp(-x)), "relu6": lambda x: np.minimum(np.maximum(x, 0), 6)}
# activations that carry run-time state (their parameter must survive the trip through the functor): always generated with a non-default value
PACTIV = {"leaky_relu": (lambda x, p: np.where(x >= 0, x, x * p[0]), [[0.25], [0.5], [2.0]]),
          "hardtanh": (lambda x, p: np.clip(x, p[0], p[1]), [[-0.5, 2.0], [-3.0, 0.5]]),
          "softshrink": (lambda x, p: np.where(x > p[0], x - p[0], np.where(x < -p[0], x + p[0], 0 * x)), [[1.5], [0.25]])}
for _n, (_f, _ps) in PACTIV.items():
    ACTIV[_n] = (lambda f, ps: (lambda x: f(x, ps[0])))(_f, _ps)
FLOAT_ONLY = {"tanh", "exp", "sin", "divide", "sigmoid", "softmax", "mean"}
BROADCASTING = set(UFUNC2) | {"broadcast_to", "matmul", "where"}
REDUCING = {"sum", "prod", "mean", "softmax", "matmul", "cumsum", "cumprod"}

# operations offered to the random composer; PROBE_ONLY ops are rendered as depth-1 programs in every run (so that their status is
# measured), but not composed: functional::get_function_composition / get_function_operands does not compile for them (rejected)
ALL_OPS = ["transpose", "reshape", "flatten", "expand_dims", "squeeze", "flip", "tile", "repeat", "broadcast_to", "moveaxis", "pad", "roll", "take",
           "concatenate", "matmul", "sum", "prod", "mean", "cumsum", "cumprod", "softmax", "where", "stack"] + sorted(UFUNC1) + sorted(UFUNC2) + sorted(ACTIV)
PROBE_ONLY = {"pad", "take"}  # pad: static_assert(arity == n_operands) in functional::apply; take: no get_function_t (GET_FUNCTION_UNSUPPORTED)
RT_KEEPDIMS_PROBE = {"op": "pipe", "arrays": [{"shape": [2, 3], "data": [1, 2, 3, 4, 5, 6]}], "stages": [{"f": "sum", "in": [0], "a": {"axis": 1, "keepdims": True}}]}
QUICK_UFUNC_PROBES = {"negative", "tanh", "relu", "add", "divide", "maximum", "leaky_relu", "hardtanh", "softshrink"}
MULTI = set(UFUNC2) | {"concatenate", "matmul", "where", "stack"}
F_DANGLING = "C13-ufunc-view-operand-dangling-reference"
F_ORDER = "C13-composition-view-operand-order"


def _prod(s):
    p = 1
    for e in s:
        p *= int(e)
    return p


def factorizations(n, maxd=3):
    out = [[n]]
    if maxd >= 2:
        for a in range(1, n + 1):
            if n % a == 0:
                out.append([a, n // a])
                if maxd >= 3:
                    m = n // a
                    for b in range(1, m + 1):
                        if m % b == 0:
                            out.append([a, b, m // b])
    return out


# ---------------------------------------------------------------------------------------------
# program generation (plain seeded RNG; the NumPy value is used for shapes and to keep int arithmetic inside i32)
# ---------------------------------------------------------------------------------------------
class Builder:
    def __init__(self, rnd, dt):
        self.rnd, self.dt = rnd, dt
        self.arrays, self.avals = [], []
        self.stages, self.svals = [], []

    def leaf(self, shape, lo=-3, hi=4, nonzero=False, dt=None):
        dt = dt or self.dt
        n = _prod(shape)
        if dt == "f64":
            data = [round(self.rnd.uniform(lo, hi), 2) for _ in range(n)]
            if nonzero:
                data = [(abs(v) + 0.5) for v in data]
        else:
            data = [self.rnd.randint(lo, hi) for _ in range(n)]
            if nonzero:
                data = [abs(v) + 1 for v in data]
        arr = {"shape": [int(e) for e in shape], "data": data}
        if dt != "i32":
            arr["dt"] = dt
        self.arrays.append(arr)
        self.avals.append(np.array(data, dtype=np.float64 if dt == "f64" else np.int64).reshape(shape))
        return ("a", len(self.arrays) - 1)

    def val(self, ref):
        return self.avals[ref[1]] if ref[0] == "a" else self.svals[ref[1]]

    def push(self, f, ins, a, value):
        self.stages.append({"f": f, "in": ins, "a": a})
        self.svals.append(value)
        return ("s", len(self.stages) - 1)

    def case(self):
        na = len(self.arrays)
        stages = [{"f": s["f"], "in": [(r[1] if r[0] == "a" else na + r[1]) for r in s["in"]], "a": s["a"]} for s in self.stages]
        return {"op": "pipe", "arrays": self.arrays, "stages": stages}


def _bshape(rnd, shape):
    """a shape that broadcasts with `shape` to `shape`"""
    d = len(shape)
    k = rnd.randint(1, d)
    s = list(shape[d - k:])
    for i in range(len(s)):
        if rnd.random() < 0.35:
            s[i] = 1
    return s


def gen_stage(b, op, src):
    """append one stage applying `op` to value `src`; returns the new ref or None when the op does not apply"""
    rnd = b.rnd
    x = b.val(src)
    dd = x.ndim
    ins = [src]
    a = {}
    if op in FLOAT_ONLY and x.dtype != np.float64:
        return None
    if op == "transpose":
        p = list(range(dd)); rnd.shuffle(p)
        a = {"axes": rnd.choice([p, p, None])}
        r = np.transpose(x, a["axes"])
    elif op == "reshape":
        a = {"shape": rnd.choice(factorizations(x.size, 3))}
        r = x.reshape(a["shape"])
    elif op == "flatten":
        r = x.reshape(-1)
    elif op == "expand_dims":
        a = {"axis": rnd.randint(-(dd + 1), dd)}
        r = np.expand_dims(x, a["axis"])
    elif op == "squeeze":
        if 1 not in x.shape or all(e == 1 for e in x.shape):
            return None
        r = np.squeeze(x)
    elif op == "flip":
        a = {"axis": rnd.choice([None] + list(range(-dd, dd)))}
        r = np.flip(x, a["axis"])
    elif op == "tile":
        a = {"reps": [rnd.randint(1, 2) for _ in range(rnd.randint(1, min(dd + 1, 4)))]}
        r = np.tile(x, a["reps"])
    elif op == "repeat":
        a = {"repeats": rnd.randint(1, 3), "axis": rnd.choice([None] + list(range(dd)))}
        r = np.repeat(x, a["repeats"], a["axis"])
    elif op == "broadcast_to":
        a = {"shape": [rnd.randint(1, 3) for _ in range(rnd.randint(0, 1))] + [(e if e != 1 else rnd.randint(1, 3)) for e in x.shape]}
        r = np.broadcast_to(x, a["shape"])
    elif op == "moveaxis":
        a = {"source": rnd.randint(-dd, dd - 1), "destination": rnd.randint(-dd, dd - 1)}
        r = np.moveaxis(x, a["source"], a["destination"])
    elif op == "pad":
        pw = [rnd.randint(0, 1) for _ in range(2 * dd)]
        a = {"pad_width": pw, "value": rnd.randint(-2, 2)}
        r = np.pad(x, [(pw[i], pw[dd + i]) for i in range(dd)], constant_values=a["value"])
    elif op == "roll":
        ax = rnd.choice([None] + list(range(dd)))
        ext = x.size if ax is None else x.shape[ax]
        a = {"shift": rnd.randint(-(ext - 1), ext - 1), "axis": ax}  # |shift| < extent: larger shifts are C04-roll-shift-exceeds-extent (host)
        r = np.roll(x, a["shift"], ax)
    elif op == "take":
        ax = rnd.randint(0, dd - 1)
        a = {"indices": [rnd.randint(0, x.shape[ax] - 1) for _ in range(rnd.randint(1, 3))], "axis": ax}
        r = np.take(x, a["indices"], ax)
    elif op in UFUNC1:
        r = UFUNC1[op](x)
    elif op in PACTIV:
        a = {"params": rnd.choice(PACTIV[op][1])}
        r = PACTIV[op][0](x, a["params"])
    elif op in ACTIV:
        r = ACTIV[op](x)
    elif op in UFUNC2:
        mode = rnd.random()
        if mode < 0.2 and op != "divide":
            other = src
        else:
            other = b.leaf(_bshape(rnd, list(x.shape)), nonzero=(op == "divide"))
        ins = [src, other] if rnd.random() < 0.7 or op == "divide" else [other, src]
        r = UFUNC2[op](b.val(ins[0]), b.val(ins[1]))
    elif op == "concatenate":
        ax = rnd.randint(0, dd - 1)
        s = list(x.shape); s[ax] = rnd.randint(1, 2)
        other = b.leaf(s) if rnd.random() < 0.8 else src
        ins = [src, other] if rnd.random() < 0.7 else [other, src]
        a = {"axis": ax}
        r = np.concatenate((b.val(ins[0]), b.val(ins[1])), ax)
    elif op == "stack":
        other = b.leaf(list(x.shape)) if rnd.random() < 0.8 else src
        ins = [src, other]
        a = {"axis": rnd.randint(0, dd)}
        r = np.stack((x, b.val(other)), a["axis"])
    elif op == "matmul":
        if dd < 2:
            return None
        if rnd.random() < 0.7:
            other = b.leaf([x.shape[-1], rnd.randint(1, 3)], lo=-2, hi=2)
            ins = [src, other]
        else:
            other = b.leaf([rnd.randint(1, 3), x.shape[-2]], lo=-2, hi=2)
            ins = [other, src]
        r = np.matmul(b.val(ins[0]), b.val(ins[1]))
    elif op in ("sum", "prod", "mean"):
        if rnd.random() < 0.7 or dd == 1:
            ax = rnd.randint(-dd, dd - 1)
        else:
            ax = sorted(rnd.sample(range(dd), rnd.randint(1, dd)))
        # a run-time bool keepdims makes the view an either<> of two view types: not a device-supported program (see RT_KEEPDIMS_PROBE)
        kd = rnd.choice([None, "ct_true", "ct_false"])
        a = {"axis": ax, "keepdims": kd}
        npf = {"sum": np.sum, "prod": np.prod, "mean": np.mean}[op]
        r = npf(x, axis=tuple(ax) if isinstance(ax, list) else ax, keepdims=kd in ("ct_true", True))
    elif op in ("cumsum", "cumprod"):
        a = {"axis": rnd.randint(0, dd - 1)}
        r = (np.cumsum if op == "cumsum" else np.cumprod)(x, a["axis"])
    elif op == "softmax":
        a = {"axis": rnd.randint(-dd, dd - 1)}
        e = np.exp(x - np.max(x, axis=a["axis"], keepdims=True))
        r = e / np.sum(e, axis=a["axis"], keepdims=True)
    elif op == "where":
        c = b.leaf(_bshape(rnd, list(x.shape)), lo=0, hi=1, dt="i32")
        y = b.leaf(_bshape(rnd, list(x.shape)))
        ins = [c, src, y]
        r = np.where(b.val(c) != 0, x, b.val(y))
    else:
        raise KeyError(op)
    r = np.asarray(r)
    if r.ndim == 0 or r.ndim > MAX_DIM or r.size == 0 or r.size > MAX_MID:
        return None
    if not np.all(np.isfinite(r.astype(np.float64))) or np.max(np.abs(r.astype(np.float64))) >= INT_BOUND:
        return None
    return b.push(op, ins, a, r)


def gen_program(rnd, ops, depth=None, first_op=None):
    dt = rnd.choice(["i32", "i32", "f64"])
    if first_op in FLOAT_ONLY:
        dt = "f64"
    for _ in range(50):
        b = Builder(rnd, dt)
        d = rnd.randint(1, 4)
        shape = [rnd.randint(1, 4) for _ in range(d)]
        while _prod(shape) > 36:
            shape[rnd.randrange(d)] = 1
        cur = b.leaf(shape)
        want = depth or rnd.choice([1, 2, 2, 3, 3])
        tries = 0
        while len(b.stages) < want and tries < 40:
            tries += 1
            op = first_op if (first_op and not b.stages) else rnd.choice(ops)
            narr, nst = len(b.arrays), len(b.stages)
            nxt = gen_stage(b, op, cur)
            if nxt is None:
                del b.arrays[narr:], b.avals[narr:]
                continue
            cur = nxt
        if len(b.stages) == want and b.svals[-1].size <= MAX_OUT:
            return b.case()
    return None


# ---------------------------------------------------------------------------------------------
# rendering
# ---------------------------------------------------------------------------------------------
def _finc(*names):
    return ["nmtools/array/functional/%s.hpp" % n for n in names]


def _r_unary_ufunc(name):
    def r(x, a, k, pre, u):
        return "view::%s(%s)" % (name, x[0]), None, ["nmtools/array/array/ufuncs/%s.hpp" % name]
    return r


def _r_activation(name):
    def r(x, a, k, pre, u):
        ps = "".join(",%r" % float(v) for v in (a.get("params") or []))
        return "view::%s(%s%s)" % (name, x[0], ps), None, ["nmtools/array/array/activations/%s.hpp" % name]
    return r


def _axis_expr(ax, k, pre, u):
    if ax is None:
        return "nm::None"
    if isinstance(ax, int):
        return progen.render_scalar(ax, k.get("axis", "int"))
    return progen.render_idx(ax, k.get("axis", "arr"), "ax" + u, pre)


def r_repeat(x, a, k, pre, u):
    return "view::repeat(%s,(int)%d,%s)" % (x[0], a["repeats"], _axis_expr(a["axis"], k, pre, u)), None, progen._inc("repeat")


def r_pad(x, a, k, pre, u):
    e = progen.render_idx(a["pad_width"], k.get("pad_width", "arr"), "pw" + u, pre)
    return (None if e is None else "view::pad(%s,%s,%d)" % (x[0], e, a["value"])), None, progen._inc("pad")


def r_roll(x, a, k, pre, u):
    if a["axis"] is None:
        return "view::roll(%s,(int)%d)" % (x[0], a["shift"]), None, progen._inc("roll")
    return "view::roll(%s,(int)%d,%s)" % (x[0], a["shift"], _axis_expr(a["axis"], k, pre, u)), None, progen._inc("roll")


def r_take(x, a, k, pre, u):
    e = progen.render_idx(a["indices"], k.get("indices", "arr"), "ti" + u, pre)
    return (None if e is None else "view::take(%s,%s,%s)" % (x[0], e, _axis_expr(a["axis"], k, pre, u))), None, progen._inc("take")


def r_mean(x, a, k, pre, u):
    e = _axis_expr(a["axis"], k, pre, u)
    kde = {None: None, "ct_false": "nm::False", "ct_true": "nm::True", True: "true", False: "false"}[a.get("keepdims")]
    if e is None:
        return None, None, []
    if kde is None:
        return "view::mean(%s,%s)" % (x[0], e), None, progen._inc("mean")
    return "view::mean(%s,%s,nm::None,%s)" % (x[0], e, kde), None, progen._inc("mean")


def _r_accumulate(name):
    def r(x, a, k, pre, u):
        return "view::%s(%s,%s)" % (name, x[0], _axis_expr(a["axis"], k, pre, u)), None, ["nmtools/array/view/%s.hpp" % name]
    return r


def r_softmax(x, a, k, pre, u):
    return "view::softmax(%s,%s)" % (x[0], _axis_expr(a["axis"], k, pre, u)), None, progen._inc("softmax")


def r_where(x, a, k, pre, u):
    return "view::where(%s,%s,%s)" % (x[0], x[1], x[2]), None, progen._inc("where")


def r_stack(x, a, k, pre, u):
    return "view::stack(%s,%s,%s)" % (x[0], x[1], _axis_expr(a["axis"], k, pre, u)), None, progen._inc("stack")


RENDER = dict((k, v) for k, v in progen.RENDER.items() if v is not None)
RENDER.update({"matmul": progen.r_matmul, "minimum": progen._binary("minimum"), "divide": progen._binary("divide"),
               "repeat": r_repeat, "pad": r_pad, "roll": r_roll, "take": r_take, "mean": r_mean, "cumsum": _r_accumulate("cumsum"),
               "cumprod": _r_accumulate("cumprod"), "softmax": r_softmax, "where": r_where, "stack": r_stack})
for _n in UFUNC1:
    RENDER[_n] = _r_unary_ufunc(_n)
for _n in ACTIV:
    RENDER[_n] = _r_activation(_n)


_FDIR = os.path.join(build.REPO, "include", "nmtools", "array", "functional")


def functional_includes(op):
    """what cuda/evaluator.hpp includes (functional.hpp) plus the op's own functional header when the library has one"""
    rel = ("ufuncs/" + op) if (op in UFUNC1 or op in UFUNC2) else ("activations/" + op) if op in ACTIV else op
    out = ["nmtools/array/functional.hpp"]
    if os.path.exists(os.path.join(_FDIR, rel + ".hpp")):
        out += _finc(rel)
    return out


def first_error(err):
    ls = [l for l in err.splitlines() if "error:" in l]
    return (ls[0] if ls else (err.splitlines() or ["?"])[0])[-300:]


_PGKH = []


def _pgk_hash():
    if not _PGKH:
        _PGKH.append(hashlib.sha256(open(os.path.join(build.HARNESS, "pgk", "pgk.hpp"), "rb").read()).hexdigest()[:16])
    return _PGKH[0]


def attr_kinds(case, rnd=None):
    """attribute container kinds per stage (anchor: run-time containers)"""
    out = []
    for s in case["stages"]:
        d = {}
        for key, v in (s.get("a") or {}).items():
            if isinstance(v, list):
                d[key] = rnd.choice(["arr", "vec", "sv", "ct"]) if rnd else "arr"
            elif isinstance(v, int) and not isinstance(v, bool) and key in ("axis", "source", "destination"):
                d[key] = rnd.choice(["int", "int", "ct"]) if rnd else "int"
        out.append(d)
    return out


def render_program(case, kinds):
    """full translation unit for one program, or None"""
    pre, incs, names = [], set(), []
    for i, arr in enumerate(case["arrays"]):
        names.append(progen.render_leaf(i, arr, "ds_db", pre))
    exprs = list(names)
    for si, s in enumerate(case["stages"]):
        f = RENDER.get(s["f"])
        if f is None:
            return None
        ve, _, inc = f([exprs[j] for j in s["in"]], s.get("a") or {}, kinds[si] if si < len(kinds) else {}, pre, "%d" % si)
        if ve is None:
            return None
        incs.update(inc)
        incs.update(functional_includes(s["f"]))
        pre.append("auto v%d = %s;" % (si, ve))
        exprs.append("v%d" % si)
    # the hooks of -DNMTOOLS_VERIF in base_ndarray_t::operator() call len() on the buffer, which a raw-pointer buffer (device_array) does not have
    head = "#undef NMTOOLS_VERIF\n// pgk.hpp %s\n#include \"pgk/pgk.hpp\"\n" % _pgk_hash() + "".join('#include "%s"\n' % i for i in sorted(incs))
    body = "\n        ".join(pre)
    return head + "int main(){\n    auto sched_ = pgk::read_schedules();\n    {\n        %s\n        pgk::run(\"p\", %s, sched_);\n    }\n    return 0;\n}\n" % (body, exprs[-1])


# ---------------------------------------------------------------------------------------------
# schedules
# ---------------------------------------------------------------------------------------------
ORDERS = ["asc", "desc", "interleaved", "random"]


def make_schedule(rnd, N, bs=None, grid=None, order=None, dup=None, partial=None, only_oob=False):
    if bs is None:
        bs = rnd.choice([1, 2, 3, 4, 7, 8, 16, 31, 32, 33] + [rnd.randint(1, 33)] * 6)
    gmin = -(-N // bs)
    gmax = max(gmin, -(-2 * N // bs))
    if grid is None:
        grid = rnd.choice([gmin, gmin, gmax, rnd.randint(gmin, gmax)])
    order = order or rnd.choice(ORDERS)
    threads = [(t, b) for b in range(grid) for t in range(bs)]
    if order == "desc":
        threads.reverse()
    elif order == "interleaved":
        threads = [(t, b) for t in range(bs) for b in range(grid)]
    elif order == "random":
        rnd.shuffle(threads)
    if only_oob:
        threads = [(t, b) for t, b in threads if b * bs + t >= N]
    ndup = 0
    if dup is None:
        dup = rnd.random() < 0.3
    if dup and threads:
        ndup = rnd.randint(1, max(1, len(threads) // 4))
        for _ in range(ndup):
            threads.insert(rnd.randint(0, len(threads)), rnd.choice(threads))
    if partial is None:
        partial = rnd.random() < 0.25
    if partial and threads:
        threads = threads[:rnd.randint(0, len(threads) - 1)]
    return {"bs": bs, "grid": grid, "order": order, "dup": bool(dup and ndup), "partial": bool(partial), "only_oob": bool(only_oob), "threads": [list(t) for t in threads]}


def make_schedules(rnd, N, count):
    out = [make_schedule(rnd, N, bs=32, grid=-(-N // 32), order="asc", dup=False, partial=False),
           make_schedule(rnd, N, bs=1, grid=N, order="desc", dup=False, partial=False),
           make_schedule(rnd, N, bs=33, order="asc", dup=False, partial=False, only_oob=True),
           make_schedule(rnd, N, bs=32, grid=2 * -(-N // 32), order="random", dup=False, partial=False)]
    while len(out) < count:
        out.append(make_schedule(rnd, N, only_oob=rnd.random() < 0.04))
    return out[:count]


def sched_line(s):
    return "%d %d %s" % (s["bs"], len(s["threads"]), " ".join("%d %d" % (t, b) for t, b in s["threads"]))


def sched_over(s, N):
    return s["bs"] * s["grid"] > N


def _key(v):
    if isinstance(v, float):
        return "nan" if math.isnan(v) else v.hex()
    return v


def judge_schedule(ref_keys, skey, N, s, buf):
    """None or failure text: exact expected buffer for this schedule"""
    if len(buf) != N + 2 * G:
        return "buffer record has %d elements, expected %d" % (len(buf), N + 2 * G)
    executed = set()
    for t, b in s["threads"]:
        executed.add(b * s["bs"] + t)
    keys = [_key(v) for v in buf]
    for i in range(G):
        if keys[i] != skey:
            return "guard element %d BEFORE the output was overwritten with %r" % (i - G, buf[i])
        if keys[G + N + i] != skey:
            return "guard element N+%d AFTER the output (N=%d) was overwritten with %r" % (i, N, buf[G + N + i])
    for i in range(N):
        got = keys[G + i]
        if i in executed:
            if got != ref_keys[i]:
                if got == skey:
                    return "output[%d] was not written although thread with global id %d ran (host value %r)" % (i, i, ref_keys[i])
                return "output[%d] = %r after thread %d ran, host evaluation has %r" % (i, buf[G + i], i, ref_keys[i])
        elif got != skey:
            return "output[%d] was written (%r) although no thread with global id %d ran (executed ids: %s)" % (i, buf[G + i], i, sorted(executed)[:12])
    return None


# ---------------------------------------------------------------------------------------------
class C13(e2.ProgenProp):
    id = "C13"
    engines = ["seeded program + schedule generation, compile (g++ ASan+UBSan) + run (E2 progen, kernel body simulated on the host)"]
    rule = ("case = (program, schedule). program = a view composition of depth 1..3 over the operations that have a functor (rearranging, broadcasting, "
            "ufuncs, reductions/accumulations, matmul, pad/roll/take, softmax, ...) over dynamic row-major int / double leaves of dim 1..4 (output <= 64 elements). "
            "The generated program evaluates the view on the host (na::eval) and then executes the library's kernel body - create_mutable_array + "
            "functional::apply(get_function_composition(view), device_array operands rebuilt from (pointer, shape, dim)) + assign_result - once per thread "
            "of a schedule chosen by the harness: block size 1..33, grid from exactly covering N to 2x over-provisioned, order ascending / descending / "
            "interleaved by block / random permutation, optional duplicated threads, optional prefix (partial) or only-out-of-range threads; output buffer with "
            "8 sentinel guard elements on both sides. Oracle (exact, bit-identical): every position whose global id was executed holds the host value, every "
            "other position and both guards still hold the sentinel; the program does not crash under ASan+UBSan. non-trivial = (over-provisioned grid or order "
            "not ascending) and (depth >= 2 or a broadcasting / reducing stage); distinct = (program, schedule)")
    assumptions = ["the host evaluation na::eval(view) is the reference (its agreement with NumPy is the subject of C03..C08/C16)",
                   "programs whose composition does not compile (view or get_function_composition unsupported) are outside the device-supported space (counted as rejected)",
                   "the kernel entry of cuda/hip/sycl is the three statements reproduced in harness/pgk/pgk.hpp; thread ids are 1-d (y = z = 0) as in those kernels"]

    def exhaustive_space(self, tier):
        return None

    # ---- known findings ----------------------------------------------------------------------
    _known_ids = None

    def _is_known(self, fid):
        if fid is None or os.environ.get("NMV_NO_EXCLUDE"):
            return False
        if C13._known_ids is None:
            from ..core import load_known
            C13._known_ids = {e["id"] for e in load_known("C13") if e.get("status") == "known"}
            C13._known_ids |= {x for x in os.environ.get("NMV_C13_EXCLUDE", "").split(",") if x}
        return fid in C13._known_ids

    @staticmethod
    def _findings(case):
        """ids of the finding input classes that contain this program (classes are properties of the program DAG only)"""
        na = len(case.get("arrays", []))
        stages = case.get("stages", [])
        out = []
        for s in stages:
            f = s["f"]
            views = [j for j, i in enumerate(s["in"]) if i >= na]
            # a ufunc node whose operand is a broadcast_to view of another VIEW: every operand of an n-ary ufunc is wrapped in broadcast_to (mean =
            # divide(sum(x), n) and softmax are such nodes by definition); for a unary ufunc an explicit broadcast_to stage over a stage result
            if f in ("mean", "softmax") or (f in UFUNC2 and views):
                out.append(F_DANGLING)
            if (f in UFUNC1 or f in ACTIV) and views:
                src = stages[s["in"][0] - na]
                if src["f"] == "broadcast_to" and src["in"][0] >= na:
                    out.append(F_DANGLING)
            # a multi-operand node with a view operand that is not the first operand (where / stack wrap every operand in a view; softmax =
            # exp(x - max) / sum(exp(x - max)) has view operands on both sides)
            if f in ("where", "stack", "softmax") or (f in MULTI and any(j >= 1 for j in views)):
                out.append(F_ORDER)
        return sorted(set(out), key=out.index)

    def _finding(self, case, sched=None):
        """the first KNOWN finding class containing this program, else the first class, else None"""
        fs = self._findings(case)
        for x in fs:
            if self._is_known(x):
                return x
        return fs[0] if fs else None

    def features(self, case, failure):
        return {"finding": self._finding(case.get("case") or {}, case.get("schedule"))}

    # ---- suite ----------------------------------------------------------------------------------
    def programs(self, tier, seed):
        rnd = random.Random(7919 * (seed + 1) + (1 if tier == "thorough" else 0))
        th = tier == "thorough"
        composable = [o for o in ALL_OPS if o not in PROBE_ONLY]
        progs = []
        seen = set()

        excluded = {}

        def add(c, tag):
            if c is None:
                return
            h = chash(c)
            if h in seen:
                return
            seen.add(h)
            fid = self._finding(c)
            if self._is_known(fid):
                excluded[fid] = excluded.get(fid, 0) + 1
                return
            progs.append((c, tag))
        self._excluded_programs = excluded
        add(RT_KEEPDIMS_PROBE, "probe")
        # every op once at depth 1: measures which ops the functional layer supports (quick: one representative of the ufunc families,
        # which share one get_function_t specialisation)
        probes = ALL_OPS if th else [o for o in ALL_OPS if not (o in UFUNC1 or o in UFUNC2 or o in ACTIV) or o in QUICK_UFUNC_PROBES]
        for op in probes:
            add(gen_program(rnd, composable, depth=1, first_op=op), "probe")
        for c in e2.fixed_view_cases()[23:]:  # the fixed depth-2/3 compositions shared with C09/C11
            add(c, "fixed")
        n = 400 if th else 60
        guard = 0
        while len(progs) < n and guard < 50 * n:
            guard += 1
            d = rnd.choice([2, 2, 3, 3, 1])
            add(gen_program(rnd, composable, depth=d), "random")
        return progs, rnd

    def extra_phases(self, ctx):
        tier, seed, stats, info = ctx["tier"], ctx["seed"], ctx["stats"], ctx["info"]
        t0 = time.time()
        th = tier == "thorough"
        progs, rnd = self.programs(tier, seed)
        nsched = 300 if th else 100
        units = []
        for fid, cnt in self._excluded_programs.items():
            stats.rejected["excluded_by_known_finding:" + fid] = stats.rejected.get("excluded_by_known_finding:" + fid, 0) + cnt
        for pi, (case, tag) in enumerate(progs):
            kinds = attr_kinds(case, rnd if (tag == "random" and pi % 2) else None)
            text = render_program(case, kinds)
            if text is None:
                stats.rejected["not_renderable"] = stats.rejected.get("not_renderable", 0) + 1
                continue
            units.append({"case": case, "tag": tag, "kinds": kinds, "text": text})
        res = progen.compile_many([(u["text"], "gcc") for u in units], jobs=JOBS)
        info["programs"] = len(units)
        info["compile_s"] = round(time.time() - t0, 1)
        fails = []
        nrej = 0
        rejected_ops = {}
        runnable = []
        for u, (path, err) in zip(units, res):
            ops = [s["f"] for s in u["case"]["stages"]]
            if path is None:
                nrej += 1
                stats.rejected["rejected_compile"] = stats.rejected.get("rejected_compile", 0) + 1
                stats.classes["program:rejected_compile"] = stats.classes.get("program:rejected_compile", 0) + 1
                if u["tag"] == "probe":
                    rejected_ops[ops[0] + ("[run-time bool keepdims]" if u["case"] is RT_KEEPDIMS_PROBE else "")] = first_error(err)
                else:
                    k = "rejected_composition:" + ">".join(ops)
                    info.setdefault("rejected_compositions", {})[k] = first_error(err)
                continue
            u["path"] = path
            runnable.append(u)
        info["rejected_ops_depth1"] = rejected_ops
        if units and nrej > len(units) * 0.5:
            fails.append(({"_harness": True}, "HARNESS-ERROR more than half of the programs were rejected by the compiler (%d of %d)" % (nrej, len(units)), {}))

        def run(u):
            return self._run_unit(u, nsched, seed)
        with ThreadPoolExecutor(JOBS) as pool:
            outs = list(pool.map(run, runnable))
        for u, out in zip(runnable, outs):
            self._account(u, out, stats, fails)
        info["run_s"] = round(time.time() - t0 - info["compile_s"], 1)
        return fails

    # ---- one program --------------------------------------------------------------------------
    def _probe_N(self, u):
        """output size and header from a run without schedules"""
        r, _ = progen.run_bin(u["path"], "")
        return r

    def _run_unit(self, u, nsched, seed, schedules=None, filter_known=True):
        r0 = self._probe_N(u)
        if r0.get("_timeout"):
            return {"status": "timeout"}
        recs = (r0.get("recs") or {}).get("p", [])
        hdr = recs[0] if recs and recs[0].get("hdr") else None
        if hdr is None:
            return {"status": "crash_host", "crash": r0.get("crash")}
        if hdr.get("hv") is False or hdr.get("num"):
            return {"status": "no_array_result", "hdr": hdr}
        prep = [x for x in recs if x.get("prep")]
        if not prep:
            return {"status": "crash_prepare", "hdr": hdr, "crash": r0.get("crash")}
        hdr["n_operands"] = prep[0].get("n_operands", 0)
        N = hdr["N"]
        excluded = 0
        if schedules is None:
            srnd = random.Random(int(chash(u["case"]), 16) ^ (seed * 2654435761))
            allsch = make_schedules(srnd, N, nsched)
            schedules = [s for s in allsch if not (filter_known and self._is_known(self._finding(u["case"], s)))]
            excluded = len(allsch) - len(schedules)
        r, _ = progen.run_bin(u["path"], "".join(sched_line(s) + "\n" for s in schedules), timeout=600)
        if r.get("_timeout"):
            return {"status": "timeout"}
        recs = (r.get("recs") or {}).get("p", [])
        return {"status": "ran", "hdr": hdr, "N": N, "schedules": schedules, "recs": [x for x in recs if "k" in x], "crash": r.get("crash"), "excluded": excluded}

    def _judge_unit(self, u, out):
        """list of (schedule or None, failure text); sets out['judged'] (indices of the schedules that were compared)"""
        res = []
        if out["status"] == "timeout":
            return [(None, "HARNESS-ERROR program timed out")]
        if out["status"] == "crash_host":
            return [(None, "HARNESS-ERROR program failed before the kernel simulation (host view / eval): %s" % (out.get("crash"),))]
        if out["status"] == "no_array_result":
            return []
        if out["status"] == "crash_prepare":
            return [(None, "preparing the launch on the host (functional::get_function_composition / get_function_operands, as cuda/evaluator.hpp:33-36 does) crashed: %s" % (out.get("crash"),))]
        hdr, N, schedules = out["hdr"], out["N"], out["schedules"]
        ref = hdr["ref"]
        if ref.get("hv") is not True or len(ref.get("elems", [])) != N or N != _prod(ref["shape"]):
            return [(None, "HARNESS-ERROR host reference incomplete: %s" % str(ref)[:200])]
        ref_keys = [_key(v) for v in ref["elems"]]
        skey = _key(hdr["sentinel"])
        if skey in ref_keys:
            out["status"] = "sentinel_collision"
            return []
        by_k = {x["k"]: x for x in out["recs"]}
        out["judged"] = []
        for k, s in enumerate(schedules):
            rec = by_k.get(k)
            if rec is None:
                if out.get("crash"):
                    res.append((s, "program crashed while executing this schedule: %s" % (out["crash"],)))
                else:
                    res.append((s, "HARNESS-ERROR no record for schedule %d" % k))
                break
            f = judge_schedule(ref_keys, skey, N, s, rec["buf"])
            out["judged"].append(k)
            if f:
                res.append((s, "%s [N=%d block_size=%d grid=%d order=%s dup=%s partial=%s]" % (f, N, s["bs"], s["grid"], s["order"], s["dup"], s["partial"])))
        return res

    def _account(self, u, out, stats, fails):
        case = u["case"]
        ops = [s["f"] for s in case["stages"]]
        depth = len(ops)
        rich = depth >= 2 or _broadcast_or_reduce(case)
        fs = self._judge_unit(u, out)
        key = "program:" + out["status"]
        stats.classes[key] = stats.classes.get(key, 0) + 1
        if out["status"] in ("no_array_result", "sentinel_collision"):
            stats.rejected[out["status"]] = stats.rejected.get(out["status"], 0) + 1
        if out.get("excluded"):
            k = "excluded_schedules_by_known_finding"
            stats.rejected[k] = stats.rejected.get(k, 0) + out["excluded"]
        if out["status"] == "ran":
            N = out["N"]
            pc = ["depth:%d" % depth, "dtype:" + hdrt(out["hdr"]), "operands:%d" % out["hdr"].get("n_operands", 0), "outdim:%d" % len(out["hdr"]["ref"]["shape"])] + ["op:" + o for o in sorted(set(ops))]
            for cl in pc:
                stats.classes["programs|" + cl] = stats.classes.get("programs|" + cl, 0) + 1
            h = chash(case)
            for k in out.get("judged", []):
                s = out["schedules"][k]
                stats.evaluations += 1
                over = sched_over(s, N)
                if rich and (over or s["order"] != "asc"):
                    stats.nontrivial.add(chash([h, sched_line(s)]))
                for cl in ("order:" + s["order"], "over:" + ("yes" if over else "no"), "dup:" + ("yes" if s["dup"] else "no"),
                           "partial:" + ("yes" if s["partial"] else "no"), "only_oob:" + ("yes" if s["only_oob"] else "no"), "depth:%d" % depth,
                           "bs:" + ("1" if s["bs"] == 1 else "2-31" if s["bs"] < 32 else str(s["bs"]))):
                    stats.classes[cl] = stats.classes.get(cl, 0) + 1
                for o in set(ops):
                    stats.classes["op:" + o] = stats.classes.get("op:" + o, 0) + 1
            if len(stats.samples) < 8 and out.get("judged") and int(h, 16) % 5 == 0:
                s = out["schedules"][min(5, len(out["schedules"]) - 1)]
                stats.samples.append({"case": case, "kinds": u["kinds"], "N": N, "schedule": {k: v for k, v in s.items() if k != "threads"}, "threads": s["threads"][:12], "ref": e2._trim(out["hdr"]["ref"], 300)})
        nper = 0
        for s, f in fs:
            if f.startswith("HARNESS-ERROR"):
                fails.append(({"_harness": True, "case": case}, f, {}))
                continue
            if nper >= 3:
                break
            nper += 1
            fails.append(({"_external": True, "case": case, "kinds": u["kinds"], "schedule": s}, "%s [ops %s]" % (f, ">".join(ops)), {}))

    # ---- replay -----------------------------------------------------------------------------------
    def replay_external(self, case):
        if "case" not in case:
            return []
        kinds = case.get("kinds") or attr_kinds(case["case"])
        text = render_program(case["case"], kinds)
        if text is None:
            return []
        path, err = progen.compile_tu(text, "gcc")
        if path is None:
            return []
        u = {"case": case["case"], "kinds": kinds, "path": path}
        sch = [case["schedule"]] if case.get("schedule") else None
        out = self._run_unit(u, 100, 0, schedules=sch, filter_known=False)
        return [(dict(case, schedule=s) if s else case, f, {}) for s, f in self._judge_unit(u, out) if not f.startswith("HARNESS-ERROR")][:1]


def _broadcast_or_reduce(case):
    """a reducing stage, an explicit broadcast, or a multi-operand stage whose leaf operands have different shapes"""
    na = len(case["arrays"])
    for s in case["stages"]:
        if s["f"] in REDUCING or s["f"] == "broadcast_to":
            return True
        if s["f"] in BROADCASTING:
            shapes = [tuple(case["arrays"][i]["shape"]) for i in s["in"] if i < na]
            if len(set(shapes)) > 1 or len(shapes) < len(s["in"]):
                return True
    return False


def hdrt(hdr):
    return hdr["ref"].get("t") or ("f64" if isinstance(hdr.get("sentinel"), float) else "int")
