"""C08 — reductions and accumulations fold exactly the addressed elements, in order."""
import itertools

from hypothesis import strategies as st

from ..core import Prop
from .. import refs, refs_reduce  # noqa: F401  (registers references)
from .common import small_shapes, crash_failure, prod, pipe

FULL = ["reduce_add", "reduce_multiply", "sum", "prod"]                    # every axis form, dtype, initial, keepdims form
MINMAX = ["reduce_maximum", "reduce_minimum", "reduce_fmax", "reduce_fmin", "amax", "amin"]
LOGICAL = ["reduce_logical_and", "reduce_logical_or", "reduce_logical_xor"]
SINGLE_AXIS = ["reduce_subtract", "reduce_left_shift", "reduce_right_shift"]
ACCUM = ["accumulate_add", "accumulate_multiply", "accumulate_subtract", "accumulate_maximum", "accumulate_minimum", "cumsum", "cumprod"]
STATS = ["mean", "var", "stddev", "vector_norm"]


def data_for(op, shape, dt="i32", variant=0):
    n = prod(shape)
    if "multiply" in op or op in ("prod", "cumprod"):
        cyc = [1, 2, 1, -1, 3, 1]
        vals = [cyc[(i + variant) % 6] for i in range(n)]
    elif "right_shift" in op:
        cyc = [17, 1, 2, 9, 3, 1]
        vals = [cyc[(i + variant) % 6] for i in range(n)]
    elif "shift" in op:
        vals = [(i * 5 + variant) % 3 for i in range(n)]
    elif "logical" in op:
        vals = [((i * 3 + variant) % 5) % 2 * (i % 3 + 1) for i in range(n)]
    else:
        vals = [((i * 7 + variant * 3) % 11) - 5 for i in range(n)]
    a = {"shape": list(shape), "data": vals}
    if dt == "f64":
        a["dt"] = "f64"
        a["data"] = [v + (0.5 if op in STATS else 0.0) for v in vals]
    return a


def axis_forms(d, thorough):
    """every non-empty subset of axes as positive / negative / mixed / unsorted lists, single ints, None"""
    yield None
    for a in range(-d, d):
        yield a
    for r in range(1, d + 1):
        for sub in itertools.combinations(range(d), r):
            yield list(sub)
            yield [x - d for x in sub]
            if r >= 2:
                yield [x - d if i % 2 else x for i, x in enumerate(sub)]
                yield list(reversed(sub))
                if thorough and r >= 3:
                    yield [sub[1], sub[2] - d, sub[0]]


KEEP = [None, "ct_false", "ct_true", True, False]


class C08(Prop):
    id = "C08"
    servers = ["reduce"]
    chunk = 100
    rule = ("case = one reduction / accumulation / named composition (sum, prod, amax, amin, mean, var, stddev, cumsum, cumprod, vector_norm, trace) "
            "with an axis form (None, positive/negative int, sorted/unsorted/mixed-sign list), keepdims form (absent, compile-time True/False, run-time bool), "
            "optional initial and dtype, on order-sensitive integer (or half-integer float) data; lazily read + four eval paths. Reference: explicit left fold "
            "in increasing C order of the reduced coordinates over Python integers (exact), NumPy float64 with tolerance for mean/var/stddev/norm. "
            "non-trivial = some reduced extent > 1 and dim >= 2, or accumulate over an extent > 1; distinct = canonical JSON")
    assumptions = ["fold order = increasing C order of the reduced coordinates (statement of C08); for commutative ops this equals NumPy's reduce",
                   "mean/var/stddev/vector_norm: NumPy float64 reference, relative tolerance 1e-5 (vector_norm uses a float exponent 1.f/ord)",
                   "values chosen so that no integer overflow / invalid shift occurs in either the library or the reference"]

    def exhaustive_space(self, tier):
        return "shapes dim1..4 ext1..%d x op families x all axis forms x keepdims forms x initial x dtype (rotated where the product is large)" % (4 if tier == "thorough" else 3)

    def exhaustive(self, tier):
        th = tier == "thorough"
        shapes = list(small_shapes(1, 3, 3)) + (list(small_shapes(4, 4, 2)) if not th else list(small_shapes(4, 4, 3)) + [[4, 1, 4], [2, 4], [4, 4]])
        rot = 0
        for shape in shapes:
            d = len(shape)
            n = prod(shape)
            for ax in axis_forms(d, th):
                for op in FULL:
                    if ("multiply" in op or op == "prod") and n > 20:
                        continue
                    for kd in KEEP:
                        rot += 1
                        combos = [(None, None), (3, None), (None, "i64"), (None, "f64"), (2, "i64")]
                        ini, dty = combos[rot % len(combos)] if not th else (None, None)
                        for (i2, d2) in ([(ini, dty)] if not th else combos):
                            yield pipe([data_for(op, shape, variant=rot % 4)], [(op, [0], {"axis": ax, "dtype": d2, "initial": i2, "keepdims": kd})], eval=(rot % 3 == 0))
                for op in MINMAX:
                    rot += 1
                    kd = KEEP[rot % 5]
                    if kd in ("ct_true",) and op in ("reduce_fmax", "reduce_fmin", "amax", "amin"):
                        kd = True
                    yield pipe([data_for(op, shape, "f64" if rot % 4 == 0 else "i32", rot % 4)], [(op, [0], {"axis": ax, "dtype": None, "initial": (1 if rot % 3 == 0 else None), "keepdims": kd})], eval=(rot % 3 == 0))
                for op in LOGICAL:
                    yield pipe([data_for(op, shape, variant=rot % 4)], [(op, [0], {"axis": ax})])
                for op in STATS:
                    rot += 1
                    kd = KEEP[rot % 5]
                    a = {"axis": ax, "dtype": None, "keepdims": kd}
                    if op in ("var", "stddev"):
                        a["ddof"] = rot % 2
                    if op == "vector_norm":
                        a = {"axis": ax, "keepdims": kd if kd is not None else "ct_false", "ord": 1 + rot % 3}
                    yield pipe([data_for(op, shape, "f64" if rot % 3 else "i32", rot % 4)], [(op, [0], a)], eval=(rot % 4 == 0))
            for ax in range(-d, d):
                for op in SINGLE_AXIS:
                    rot += 1
                    if "shift" in op and shape[ax] > 3:
                        continue
                    yield pipe([data_for(op, shape, variant=rot % 4)], [(op, [0], {"axis": ax, "dtype": None, "initial": (2 if rot % 3 == 0 else None), "keepdims": KEEP[rot % 5] if KEEP[rot % 5] != "ct_true" or "subtract" in op else True})], eval=(rot % 3 == 0))
                for op in ACCUM:
                    rot += 1
                    if ("multiply" in op or op == "cumprod") and n > 20:
                        continue
                    dt = None if op in ("accumulate_maximum", "accumulate_minimum") else [None, "i64", "f64"][rot % 3]
                    yield pipe([data_for(op, shape, variant=rot % 4)], [(op, [0], {"axis": ax, "dtype": dt})], eval=(rot % 3 == 0))
            if d >= 2:
                for a1 in range(-d, d):
                    for a2 in range(-d, d):
                        if a1 % d == a2 % d:
                            continue
                        for off in range(-(shape[a1] - 1), shape[a2]):      # negative offsets since fix 76379df
                            rot += 1
                            yield pipe([data_for("trace", shape, variant=rot % 4)], [("trace", [0], {"offset": off, "axis1": a1, "axis2": a2, "dtype": "i64" if rot % 2 else None})], eval=(rot % 3 == 0))

    def n_random(self, tier):
        return 4000 if tier == "quick" else 80000

    def strategy(self, tier):
        @st.composite
        def case(draw):
            d = draw(st.integers(1, 4))
            shape = []
            p = 1
            for _ in range(d):
                e = draw(st.integers(1, max(1, min(6, 120 // p))))
                shape.append(e)
                p *= e
            fam = draw(st.sampled_from(["full", "full", "minmax", "stats", "accum", "single"]))
            forms = list(axis_forms(d, True))
            ax = forms[draw(st.integers(0, len(forms) - 1))]
            kd = draw(st.sampled_from(KEEP))
            v = draw(st.integers(0, 3))
            if fam == "full":
                op = draw(st.sampled_from(FULL))
                if ("multiply" in op or op == "prod") and p > 20:
                    op = "sum"
                return pipe([data_for(op, shape, variant=v)], [(op, [0], {"axis": ax, "dtype": draw(st.sampled_from([None, "i64", "f64"])), "initial": draw(st.sampled_from([None, 1, 3])), "keepdims": kd})], eval=draw(st.booleans()))
            if fam == "minmax":
                op = draw(st.sampled_from(MINMAX))
                if kd == "ct_true" and op not in ("reduce_maximum", "reduce_minimum"):
                    kd = True
                return pipe([data_for(op, shape, draw(st.sampled_from(["i32", "f64"])), v)], [(op, [0], {"axis": ax, "dtype": None, "initial": draw(st.sampled_from([None, 0])), "keepdims": kd})])
            if fam == "stats":
                op = draw(st.sampled_from(STATS))
                a = {"axis": ax, "dtype": None, "keepdims": kd}
                if op in ("var", "stddev"):
                    a["ddof"] = draw(st.integers(0, 1))
                if op == "vector_norm":
                    a = {"axis": ax, "keepdims": kd if kd is not None else "ct_false", "ord": draw(st.integers(1, 3))}
                return pipe([data_for(op, shape, "f64", v)], [(op, [0], a)])
            axi = draw(st.integers(-d, d - 1))
            if fam == "accum":
                op = draw(st.sampled_from(ACCUM))
                if ("multiply" in op or op == "cumprod") and p > 20:
                    op = "cumsum"
                dt = None if op in ("accumulate_maximum", "accumulate_minimum") else draw(st.sampled_from([None, "i64", "f64"]))
                return pipe([data_for(op, shape, variant=v)], [(op, [0], {"axis": axi, "dtype": dt})], eval=draw(st.booleans()))
            op = "reduce_subtract"
            return pipe([data_for(op, shape, variant=v)], [(op, [0], {"axis": axi, "dtype": draw(st.sampled_from([None, "i64"])), "initial": draw(st.sampled_from([None, 5])), "keepdims": kd})])
        return case()

    def _finding(self, case):
        s = case["stages"][0]
        if s["f"] == "trace" and s["a"]["offset"] < 0:
            return "C08-trace-negative-offset"
        if s["f"] in ACCUM and s["a"]["axis"] < 0:
            return "C08-accumulate-negative-axis"
        return None

    def excluded(self, case):
        return None if case.get("_witness") else self._finding(case)

    def features(self, case, failure):
        return {"finding": self._finding(case)}

    def nontrivial(self, case):
        s = case["stages"][0]
        shape = case["arrays"][0]["shape"]
        a = s["a"]
        if len(shape) < 2 and not s["f"].startswith(("accumulate", "cum")):
            return False
        ax = a.get("axis", a.get("axis1"))
        if ax is None:
            return prod(shape) > 1
        axl = ax if isinstance(ax, list) else [ax]
        return any(shape[x] > 1 for x in axl)

    def classes(self, case):
        s = case["stages"][0]
        a = s["a"]
        out = ["op:" + s["f"], "dim:%d" % len(case["arrays"][0]["shape"])]
        ax = a.get("axis")
        if "axis" in a:
            if ax is None:
                out.append("axis:None")
            elif isinstance(ax, int):
                out.append("axis:int-" + ("neg" if ax < 0 else "pos"))
            else:
                out.append("axis:list%d" % len(ax) + ("-unsorted" if ax != sorted(ax) else "") + ("-neg" if any(x < 0 for x in ax) else ""))
        if "keepdims" in a:
            out.append("keepdims:%s" % a["keepdims"])
        if a.get("initial") is not None:
            out.append("initial")
        if a.get("dtype"):
            out.append("dtype:" + a["dtype"])
        return out

    def check(self, case, obs):
        cf = crash_failure(obs)
        if cf:
            return cf
        if "oob" in obs:
            return "out-of-range container access inside the library: " + obs["oob"][:120]
        f = case["stages"][0]["f"]
        tol = 1e-5 if f in STATS else None
        r = refs.check_pipe(case, obs, tol=tol)
        if r:
            return r
        a = case["stages"][0]["a"]
        want = a.get("dtype")
        if want and obs.get("hv") and f not in STATS and obs.get("rt") != want:
            return "result element type %s, requested dtype %s" % (obs.get("rt"), want)
        return None
