"""Helpers shared by property modules."""
import itertools


def small_shapes(dmin, dmax, emax, emin=1):
    for d in range(dmin, dmax + 1):
        for t in itertools.product(range(emin, emax + 1), repeat=d):
            yield list(t)


def crash_failure(obs):
    c = obs.get("crash")
    if not c:
        return None
    return "server crashed: rc=%s signal=%s %s" % (c.get("rc"), c.get("signal"), (c.get("summary") or c.get("stderr_tail", ""))[:500])


def prod(shape):
    p = 1
    for e in shape:
        p *= e
    return p


def arange_array(shape, dt="i32", start=0):
    n = prod(shape)
    a = {"shape": list(shape), "data": list(range(start, start + n))}
    if dt != "i32":
        a["dt"] = dt
    return a


def pipe(arrays, stages, eval=False, mode=None, **kw):
    c = {"op": "pipe", "arrays": arrays, "stages": [{"f": f, "in": list(i), "a": a} for f, i, a in stages]}
    if eval:
        c["eval"] = True
    if mode:
        c["mode"] = mode
    c.update(kw)
    return c
