"""C06 — broadcasting follows NumPy's rules and is symmetric, associative, idempotent."""
import itertools

from hypothesis import strategies as st

from ..core import Prop
from .. import refs
from .common import small_shapes, crash_failure, prod, arange_array, pipe

KPAIRS = [("vec", "vec"), ("sv", "sv"), ("vec", "sv"), ("sv", "vec"), ("arr", "arr"), ("arr", "vec"), ("vec", "arr"),
          ("uarr", "sv"), ("uvec", "uarr"), ("veci", "vec"), ("arr", "uvec")]


def fix_kind(kind, shape):
    if len(shape) == 0:
        return "none"
    if kind in ("arr", "uarr") and not (1 <= len(shape) <= 4):
        return "vec"
    return kind


def obs_shape(o):
    """normalised library answer: None (failure) | list"""
    if o.get("hv") is False:
        return None
    if o.get("kind") == "none":
        return []
    return o.get("elems")


class C06(Prop):
    id = "C06"
    servers = ["broadcast"]
    chunk = 400
    rule = ("case = broadcast_shape of 2..5 shapes (any container kinds, scalars as None), a law instance over (a,b,c) evaluated on the "
            "library's own answers, or broadcast_to / broadcast_arrays on arange data read at every index and through eval. Exhaustive: "
            "all ordered pairs of shapes dim 0..4 extents 1..4 (compatible and incompatible), triples dim 0..3 extents 1..3 (thorough; dim 0..2 in quick), "
            "every (source dim1..3, target dim1..4) pair with extents 1..3; random: dims up to 8, 2..5 operands. "
            "non-trivial = operands differ in rank, or some axis is stretched (1 vs >1), or the combination is incompatible; distinct = canonical JSON")
    assumptions = ["np.broadcast_shapes / np.broadcast_to / np.broadcast_arrays are the reference",
                   "a rank-0 operand is given as None (the library's scalar shape)"]

    def exhaustive_space(self, tier):
        return "ordered shape pairs dim0..4 ext1..4 (116281) x rotating container-kind pairs; law triples; broadcast_to (source,target) pairs; broadcast_arrays pairs"

    def exhaustive(self, tier):
        shapes = list(small_shapes(0, 4, 4))
        rot = 0
        for a in shapes:
            for b in shapes:
                ka, kb = KPAIRS[rot % len(KPAIRS)]
                rot += 1
                yield {"op": "bshape2", "kinds": [fix_kind(ka, a), fix_kind(kb, b)], "shapes": [a or None, b or None]}
        tri = list(small_shapes(0, 3 if tier == "thorough" else 2, 3))
        for a in tri:
            for b in tri:
                for c in tri:
                    yield {"op": "blaw", "a": a, "b": b, "c": c}
                    if len(a) and len(b) and len(c):
                        yield {"op": "bshapeN", "kind": ["vec", "sv", "mixed"][(len(a) + len(b) + prod(c)) % 3], "shapes": [a, b, c]}
        srcs = list(small_shapes(1, 3, 3))
        tgts = list(small_shapes(1, 4, 3))
        step = 1 if tier == "thorough" else 5
        k = 0
        for s in srcs:
            for t in tgts:
                ok = refs.broadcast_shapes([s, t]) == t
                k += 1
                if not ok and k % (step * 4):
                    continue
                if ok and k % step and prod(t) > 8:
                    continue
                yield pipe([arange_array(s)], [("broadcast_to" if k % 2 else "broadcast_to_i", [0], {"shape": t})], eval=True)
        pairs = list(small_shapes(1, 3, 3))
        k = 0
        for a in pairs:
            for b in pairs:
                k += 1
                if tier != "thorough" and k % 3:
                    continue
                yield pipe([arange_array(a), arange_array(b, start=100)], [("broadcast_arrays2", [0, 1], {"k": k % 2})], eval=True)
        tri2 = list(small_shapes(1, 2, 3))
        k = 0
        for a in tri2:
            for b in tri2:
                for c in tri2:
                    k += 1
                    if tier != "thorough" and k % 4:
                        continue
                    yield pipe([arange_array(a), arange_array(b, start=100), arange_array(c, start=200)],
                               [("broadcast_arrays3", [0, 1, 2], {"k": k % 3})], eval=True)

    def n_random(self, tier):
        return 20000 if tier == "quick" else 300000

    def strategy(self, tier):
        @st.composite
        def case(draw):
            n = draw(st.integers(2, 5))
            d = draw(st.integers(1, 8))
            common = [draw(st.integers(1, 6)) for _ in range(d)]
            shapes = []
            for _ in range(n):
                k = draw(st.integers(1, d))
                s = common[d - k:]
                s = [1 if draw(st.integers(0, 3)) == 0 else e for e in s]
                shapes.append(s)
            if draw(st.integers(0, 2)) == 0:
                # perturb one extent: usually makes the combination incompatible
                i = draw(st.integers(0, n - 1))
                j = draw(st.integers(0, len(shapes[i]) - 1))
                shapes[i] = list(shapes[i])
                shapes[i][j] = draw(st.integers(2, 7))
            if n == 2:
                ka, kb = draw(st.sampled_from(KPAIRS))
                return {"op": "bshape2", "kinds": [fix_kind(ka, shapes[0]), fix_kind(kb, shapes[1])], "shapes": shapes}
            kind = draw(st.sampled_from(["vec", "sv", "mixed"])) if n == 3 else draw(st.sampled_from(["vec", "sv"]))
            if kind == "sv" and any(len(s) > 8 for s in shapes):
                kind = "vec"
            return {"op": "bshapeN", "kind": kind, "shapes": shapes}
        return case()

    def _shapes(self, case):
        if case["op"] in ("bshape2", "bshapeN"):
            return [s or [] for s in case["shapes"]]
        if case["op"] == "blaw":
            return [case["a"], case["b"], case["c"]]
        s = case["stages"][0]
        out = [a["shape"] for a in case["arrays"]]
        if "shape" in s["a"]:
            out.append(s["a"]["shape"])
        return out

    def nontrivial(self, case):
        ss = self._shapes(case)
        if len(set(len(s) for s in ss)) > 1:
            return True
        if refs.broadcast_shapes(ss) is None:
            return True
        return any(len(set(col)) > 1 for col in zip(*ss))

    def classes(self, case):
        ss = self._shapes(case)
        out = ["op:" + (case["op"] if case["op"] != "pipe" else case["stages"][0]["f"]), "n:%d" % len(ss)]
        out.append("compatible" if refs.broadcast_shapes(ss) is not None else "incompatible")
        if case["op"] == "bshape2":
            out.append("kinds:" + "/".join(case["kinds"]))
        if max(len(s) for s in ss) > 4:
            out.append("dim>4")
        return out

    def check(self, case, obs):
        cf = crash_failure(obs)
        if cf:
            return cf
        if "error" in obs:
            return "HARNESS-ERROR server: " + obs["error"]
        op = case["op"]
        if op in ("bshape2", "bshapeN"):
            exp = refs.broadcast_shapes(self._shapes(case))
            got = obs_shape(obs)
            if got != exp:
                return "broadcast_shape%s = %s, NumPy: %s" % (self._shapes(case), got, exp)
            return None
        if op == "blaw":
            a, b, c = case["a"], case["b"], case["c"]
            B = refs.broadcast_shapes
            g = {k: obs_shape(v) for k, v in obs.items() if isinstance(v, dict)}
            exp = {"ab": B([a, b]), "ba": B([b, a]), "abc": B([a, b, c]), "aa": a, "a_none": a, "none_a": a}
            exp["ab_c"] = exp["abc"] if exp["ab"] is not None else None
            exp["a_bc"] = exp["abc"] if B([b, c]) is not None else None
            exp["a_ab"] = exp["ab"]
            for k, e in exp.items():
                if g.get(k) != e:
                    return "law %s on a=%s b=%s c=%s: library %s, expected %s" % (k, a, b, c, g.get(k), e)
            if g["ab"] != g["ba"]:
                return "not symmetric"
            if g["ab_c"] != g["a_bc"] and B([a, b]) is not None and B([b, c]) is not None:
                return "not associative"
            return None
        return refs.check_pipe(case, obs)

    # ---- E3: coverage-guided fuzzing of the index functions (libFuzzer target with the oracle inside) ----
    engines = ["hypothesis+sanitized-cpp-server", "libFuzzer (E3, harness/fuzz_index.cpp)"]

    def extra_phases(self, ctx):
        from .. import fuzz
        return fuzz.fuzz_phase(self, "c06", ctx)

    def replay_external(self, case):
        from .. import fuzz
        return fuzz.replay("c06", case) if case.get("fuzz") else []
