"""C15 — invalid arguments are reported as Nothing, never as garbage or a crash."""
import itertools

import numpy as np
from hypothesis import strategies as st

from ..core import Prop
from .. import refs, refs_reduce, pipegen  # noqa: F401
from .common import small_shapes, crash_failure, prod, arange_array, pipe

try:
    from .. import refs_linalg  # noqa: F401
    HAVE_LINALG = True
except Exception:  # pragma: no cover
    HAVE_LINALG = False


def arg_space(op, shape, thorough):
    """argument space of a run-time-checked operation INCLUDING the invalid part"""
    d = len(shape)
    ax_rng = list(range(-d - 2, d + 2))
    if op == "reshape":
        for L in (1, 2, 3):
            for t in itertools.product(range(-2, 5), repeat=L):
                yield {"shape": list(t)}
    elif op == "transpose":
        for L in range(max(1, d - 1), d + 2):
            for t in itertools.product(range(-d - 1, d + 1), repeat=L):
                yield {"axes": list(t)}
    elif op in ("swapaxes",):
        for a in ax_rng:
            for b in ax_rng:
                yield {"axis1": a, "axis2": b}
    elif op == "moveaxis":
        for a in ax_rng:
            for b in ax_rng:
                yield {"source": a, "destination": b}
        for s in itertools.product(range(-d, d + 1), repeat=2):
            for t in itertools.product(range(-d, d + 1), repeat=2):
                if thorough or (s[0] + 2 * t[1]) % 3 == 0:
                    yield {"source": list(s), "destination": list(t)}
    elif op == "expand_dims":
        for a in range(-d - 3, d + 3):
            yield {"axis": a}
        for t in itertools.product(range(-d - 3, d + 3), repeat=2):
            yield {"axis": list(t)}
    elif op == "flip":
        for a in ax_rng:
            yield {"axis": a}
        for t in itertools.product(ax_rng, repeat=2):
            yield {"axis": list(t)}
    elif op == "sum":
        for a in ax_rng:
            yield {"axis": a, "dtype": None, "initial": None, "keepdims": None}
        for t in itertools.product(ax_rng, repeat=2):
            yield {"axis": list(t), "dtype": None, "initial": None, "keepdims": True}
    elif op == "broadcast_to_i":
        for L in range(1, d + 2):
            for t in itertools.product(range(-1, 4), repeat=L):
                yield {"shape": list(t)}
    elif op == "tile":
        for L in (1, 2, d + 1):
            for t in itertools.product(range(-1, 3), repeat=L):
                yield {"reps": list(t)}
    elif op == "repeat":
        for r in range(-1, 3):
            yield {"repeats": r, "axis": None}
            for a in range(0, d + 2):
                yield {"repeats": r, "axis": a}
        for a in range(0, d):
            for L in (shape[a] - 1, shape[a], shape[a] + 1):
                if L >= 1:
                    yield {"repeats": [1 + (i % 2) for i in range(L)], "axis": a}
    elif op == "pad":
        for L in (2 * d - 1, 2 * d, 2 * d + 1):
            if L >= 1:
                for t in itertools.product(range(-1, 2), repeat=L):
                    if thorough or L <= 4 or sum(t) % 3 == 0:
                        yield {"pad_width": list(t), "value": 0}
    elif op == "roll":
        for a in ax_rng:
            yield {"shift": 1, "axis": a}
        for t in itertools.product(range(-d - 1, d + 1), repeat=2):
            yield {"shift": [1, -1], "axis": list(t)}
            yield {"shift": [1], "axis": list(t)}
    elif op == "resize":
        for L in (d - 1, d, d + 1):
            if L >= 1:
                for t in itertools.product(range(-1, 4), repeat=L):
                    if thorough or L <= 2 or sum(t) % 2 == 0:
                        yield {"shape": list(t)}
    elif op == "atleast_nd":
        for nd in range(0, 6):
            yield {"nd": nd}


UNARY_OPS = ["reshape", "transpose", "swapaxes", "moveaxis", "expand_dims", "flip", "sum", "broadcast_to_i", "tile", "repeat",
             "pad", "roll", "resize", "atleast_nd"]


def binary_space(thorough):
    shapes = list(small_shapes(1, 3, 3 if thorough else 2))
    for a in shapes:
        for b in shapes:
            for ax in range(0, len(a) + 1):
                yield "concatenate", a, b, {"axis": ax}
                if len(a) == len(b):
                    yield "stack", a, b, {"axis": ax}
            yield "concatenate", a, b, {"axis": None}
            for op in ("add", "multiply", "hstack", "vstack"):
                yield op, a, b, {}
            if HAVE_LINALG:
                for op in ("matmulv2", "dot", "inner", "vecdot"):
                    yield op, a, b, {}
                for n in range(0, 3):
                    yield "tensordot", a, b, {"axes": n}


def maybe_space(thorough):
    """cases for the statically nested maybe-typed pipelines (server 'maybe')"""
    shp_args = [[6], [2, 3], [3, 2], [-1, 2], [3, -1], [4], [0, -1], [-1, -1], [2, 2], [1, 6], [6, 1], [2, -3]]
    for src in ([2, 3], [6], [3, 2, 1]):
        arr = arange_array(src, start=1)
        for s in shp_args:
            for axes in ([1, 0], [0, 1], [0, 0], [2, 0], [0], [1, 0, 2], [-1, -2]):
                yield {"op": "mp_reshape_transpose", "arrays": [arr], "s1": {"shape": s}, "s2": {"axes": axes}}
                yield {"op": "mp_eval_reshape_transpose", "arrays": [arr], "s1": {"shape": s}, "s2": {"axes": axes}}
            for w in ([0, 0, 0, 0], [1, 0, 0, 1], [1, 1], [0, 1, 1, 0, 0, 0], [-1, 0, 0, 0]):
                for ax in (-3, -1, 0, 1, 2):
                    yield {"op": "mp_reshape_pad_roll", "arrays": [arr], "s1": {"shape": s}, "s2": {"pad_width": w}, "s3": {"shift": 1, "axis": ax}}
            for s2 in shp_args:
                if thorough or (len(s) + len(s2)) % 2 == 0:
                    yield {"op": "mp_reshape_add", "arrays": [arr, arange_array(src, start=50)], "s1": {"shape": s}, "s2": {"shape": s2}}
                    yield {"op": "mp_reshape_matmul", "arrays": [arr, arange_array(src, start=50)], "s1": {"shape": s}, "s2": {"shape": s2}}
        for tgt in ([2, 3], [3, 2, 3], [2, 2], [3], [1, 2, 3], [6], [2, 1, 3], [3, 2, 1], [2, 3, 2, 1], [0, 3]):
            for ax in (-4, -3, -2, -1, 0, 1, 2, 3):
                yield {"op": "mp_broadcast_sum", "arrays": [arr], "s1": {"shape": tgt}, "s2": {"axis": ax}}
            for axes in ([1, 0], [0, 1], [0, 0], [1, 0, 2], [2, 1, 0], [0]):
                yield {"op": "mp_broadcast_multiply_transpose", "arrays": [arr, arange_array([3, 2], start=50)], "s1": {"shape": tgt}, "s2": {"axes": axes}}
        d = len(src)
        for a in range(-d - 1, d + 1):
            for b in range(-d - 1, d + 1):
                for reps in ([2], [1, 2], [0, 1], [2, 1, 1, 1], [-1]):
                    yield {"op": "mp_moveaxis_tile_flatten", "arrays": [arr], "s1": {"source": a, "destination": b}, "s2": {"reps": reps}}
        for axl in ([0], [0, 1], [0, 0], [d + 2], [-1], [1, 3], [-d - 2]):
            for a in range(-d - 2, d + 2):
                for b in (0, 1, -1, d + 1):
                    yield {"op": "mp_eval_expand_moveaxis", "arrays": [arr], "s1": {"axis": axl}, "s2": {"source": a, "destination": b}}
        for axes in ([1, 0], [0, 1], [0, 0], [1, 0, 2], [2, 0, 1], [0], [2]):
            for bshape in ([2, 3], [3, 2], [3, 3], [1, 3], [2], [3, 2, 1], [1, 2, 3]):
                for ax in (0, 1, 2, 3):
                    yield {"op": "mp_transpose_concatenate", "arrays": [arr, arange_array(bshape, start=50)], "s1": {"axes": axes}, "s2": {"axis": ax}}


MP_STAGES = {
    "mp_reshape_transpose": [("reshape", [0], "s1"), ("transpose", [-1], "s2")],
    "mp_eval_reshape_transpose": [("reshape", [0], "s1"), ("transpose", [-1], "s2")],
    "mp_broadcast_sum": [("broadcast_to", [0], "s1"), ("sum", [-1], "s2")],
    "mp_reshape_add": [("reshape", [0], "s1"), ("reshape", [1], "s2"), ("add", [-2, -1], None)],
    "mp_reshape_matmul": [("reshape", [0], "s1"), ("reshape", [1], "s2"), ("matmulv2", [-2, -1], None)],
    "mp_moveaxis_tile_flatten": [("moveaxis", [0], "s1"), ("tile", [-1], "s2"), ("flatten", [-1], None)],
    "mp_eval_expand_moveaxis": [("expand_dims", [0], "s1"), ("moveaxis", [-1], "s2")],
    "mp_transpose_concatenate": [("transpose", [0], "s1"), ("concatenate", [-1, 1], "s2")],
    "mp_reshape_pad_roll": [("reshape", [0], "s1"), ("pad", [-1], "s2"), ("roll", [-1], "s3")],
    "mp_broadcast_multiply_transpose": [("broadcast_to", [0], "s1"), ("transpose", [1], "s2"), ("multiply", [-2, -1], None)],
}


def mp_as_pipe(case):
    """the same composition as a reference pipeline (for refs.run_pipe)"""
    n = len(case["arrays"])
    stages = []
    for f, ins, key in MP_STAGES[case["op"]]:
        a = dict(case[key]) if key else {}
        if f == "sum":
            a = {"axis": a["axis"], "dtype": None, "initial": None, "keepdims": None}
        if f == "pad":
            a["value"] = 0
        cur = n + len(stages)
        stages.append({"f": f, "in": [i if i >= 0 else cur + i for i in ins], "a": a})
    return {"op": "pipe", "arrays": case["arrays"], "stages": stages}


def _contracted_pairs(op, sa, sb, args):
    if op in ("inner", "vecdot"):
        return [(sa[-1], sb[-1])]
    if op == "matmulv2":
        return [(sa[-1], sb[-2] if len(sb) >= 2 else sb[-1])]
    if op == "tensordot":
        n = args.get("axes", 0)
        if isinstance(n, int) and n <= len(sa) and n <= len(sb):
            return list(zip(sa[len(sa) - n:], sb[:n]))
    return []


def err_vocab(stage_op, args, msg, in_shapes=()):
    """normalised class of the reason the reference rejects a stage"""
    m = msg.lower()
    if stage_op in ("inner", "vecdot", "matmulv2", "tensordot") and len(in_shapes) == 2 and "out of range" not in m:
        if stage_op == "tensordot" and isinstance(args.get("axes"), int) and (args["axes"] > len(in_shapes[0]) or args["axes"] > len(in_shapes[1])):
            return "axis_out_of_bounds"
        pairs = _contracted_pairs(stage_op, list(in_shapes[0]), list(in_shapes[1]), args)
        bad = [(x, y) for x, y in pairs if x != y]
        if bad and all(1 in (x, y) for x, y in bad):
            return "contracted_extent_1_vs_n"
        return "shape_mismatch"
    if stage_op == "reshape" and "non-positive" in m:
        sh = args.get("shape", [])
        return "zero_extent_with_minus1" if (0 in sh and -1 in sh) else "nonpositive_extent"
    if stage_op.startswith("broadcast_to") and "non-positive" in m:
        return "negative_extent" if any(e < 0 for e in args.get("shape", [])) else "zero_extent"
    if "repeated axis" in m or "duplicate axis" in m:
        return "repeated_axis"
    if "out of bounds" in m or "out of range" in m:
        return "axis_out_of_bounds"
    if "axes don't match" in m:
        return "axes_dont_match"
    if "non-positive" in m:
        return "nonpositive"
    if "pad width" in m or "resize shape" in m:
        return "wrong_length"
    if "only specify one unknown" in m:
        return "several_minus1"
    if "cannot reshape" in m:
        return "count_mismatch"
    return "shape_mismatch"


def invalid_class(pc):
    """(stage index, stage op, error class) of the first stage the reference rejects, else None"""
    vals = [refs.make_array(a) for a in pc["arrays"]]
    for si, s in enumerate(pc["stages"]):
        try:
            vals.append(np.asarray(refs.REFS[s["f"]]([vals[i] for i in s["in"]], s.get("a") or {})))
        except refs.Invalid as e:
            return si, s["f"], err_vocab(s["f"], s.get("a") or {}, str(e), [vals[i].shape for i in s["in"]])
        except refs.OutOfDomain:
            return None
    return None


class C15(Prop):
    id = "C15"
    servers = ["views", "maybe"]
    chunk = 150
    rule = ("case = (a) one run-time-checked operation with an argument set from its full small space INCLUDING the invalid part (shape-valued arguments "
            "with entries -2..4, axes in [-dim-2, dim+1] with duplicates, wrong lengths, mismatching operand shapes), (b) a statically nested 2-3 stage "
            "composition whose intermediates are maybe-typed (server 'maybe', real dynamic arrays), any stage possibly invalid, incl. evaluation of the "
            "composition. Oracle: has_value == False <=> the NumPy reference raises at some stage (cases whose reference result has a zero extent are "
            "outside the domain); a present value equals NumPy's; the server must survive (signal / sanitizer report = violation). "
            "non-trivial = the reference rejects the arguments, or a non-final stage fails; distinct = canonical JSON")
    assumptions = ["NumPy's ValueError/AxisError/TypeError/IndexError define 'invalid'", "zero-size reference results are outside the library's domain and not judged",
                   "members of known-finding classes of C04 (e.g. negative axis in concatenate/stack/repeat) are excluded"]

    def server_of(self, case):
        return "maybe" if case["op"].startswith("mp_") else "views"

    def exhaustive_space(self, tier):
        return "14 unary checked ops x full invalid-including argument space over source shapes dim1..3; operand-shape pairs for joins/matmul/dot/tensordot; 10 nested maybe-typed compositions"

    def exhaustive(self, tier):
        th = tier == "thorough"
        shapes = [[2], [3], [2, 3], [1, 3], [2, 1, 2], [3, 2, 2]] + ([[4], [2, 2], [3, 1], [1, 1, 1], [2, 3, 1]] if th else [])
        for shape in shapes:
            for op in UNARY_OPS:
                args = list(arg_space(op, shape, th))
                step = 1 if (th or len(args) <= 150) else max(1, len(args) // 150)
                for a in args[::step]:
                    yield pipe([arange_array(shape, start=1)], [(op, [0], a)])
        for op, a, b, args in binary_space(th):
            yield pipe([arange_array(a, start=1), arange_array(b, start=50)], [(op, [0, 1], args)])
        yield from maybe_space(th)

    def n_random(self, tier):
        return 6000 if tier == "quick" else 100000

    def strategy(self, tier):
        @st.composite
        def case(draw):
            d = draw(st.integers(1, 3))
            shape = [draw(st.integers(1, 3)) for _ in range(d)]
            op = draw(st.sampled_from(UNARY_OPS))
            args = list(arg_space(op, shape, True))
            a = args[draw(st.integers(0, len(args) - 1))]
            return pipe([arange_array(shape, start=1)], [(op, [0], a)])
        return case()

    def _pipe(self, case):
        return mp_as_pipe(case) if case["op"].startswith("mp_") else case

    def _stage_classes(self, pc):
        """for every stage whose inputs the reference can produce: None (valid), "ood", or (op, error class)"""
        vals = [refs.make_array(a) for a in pc["arrays"]]
        out = []
        for s in pc["stages"]:
            ins = [vals[i] for i in s["in"]]
            if any(v is None for v in ins):
                vals.append(None)
                out.append("skipped")
                continue
            try:
                r = np.asarray(refs.REFS[s["f"]](ins, s.get("a") or {}))
                vals.append(r if r.size else None)
                out.append(None if r.size else "ood")
            except refs.Invalid as e:
                vals.append(None)
                out.append((s["f"], err_vocab(s["f"], s.get("a") or {}, str(e), [v.shape for v in ins])))
            except refs.OutOfDomain:
                vals.append(None)
                out.append("ood")
        return out, vals

    def excluded(self, case):
        if case.get("_witness"):
            return None
        pc = self._pipe(case)
        classes, vals = self._stage_classes(pc)
        from ..core import match_known
        for s, c, in zip(pc["stages"], classes):
            ins = [vals[i] for i in s["in"]] if c != "skipped" else None
            if ins is not None:
                try:
                    kc = pipegen.known_class(s, [list(v.shape) for v in ins])
                except Exception:
                    kc = None
                if kc:
                    return kc
            if isinstance(c, tuple):
                feats = {"stage_op": c[0], "errclass": c[1]}
                for e in self._known_entries():
                    if match_known(e, feats):
                        return e["id"]
        return None

    _known = None

    def _known_entries(self):
        if C15._known is None:
            from ..core import load_known
            C15._known = [e for e in load_known(self.id) if e.get("status") == "known"]
        return C15._known

    def features(self, case, failure):
        pc = self._pipe(case)
        ic = invalid_class(pc)
        f = {"top": case["op"] if case["op"].startswith("mp_") else pc["stages"][0]["f"], "ref_valid": ic is None}
        if ic:
            f["stage_op"], f["errclass"] = ic[1], ic[2]
        return f

    def nontrivial(self, case):
        kind, val = refs.run_pipe(self._pipe(case))
        return kind == "invalid"

    def classes(self, case):
        pc = self._pipe(case)
        kind, val = refs.run_pipe(pc)
        out = ["op:" + (case["op"] if case["op"].startswith("mp_") else pc["stages"][0]["f"]), "ref:" + kind]
        if kind == "invalid" and len(pc["stages"]) > 1:
            out.append("fails_at_stage:%d" % val)
        return out

    def check(self, case, obs):
        pc = self._pipe(case)
        classes, _ = self._stage_classes(pc)
        if "ood" in classes:
            return None
        cf = crash_failure(obs)
        if cf:
            return cf   # some stage is outside the judged domain (zero-size result, no agreed reference)
        if "oob" in obs:
            return "out-of-range container access inside the library instead of Nothing: " + obs["oob"][:120]
        if "error" in obs:
            return "HARNESS-ERROR server: " + obs["error"]
        f = refs.check_pipe(pc, obs)
        return f
