"""C10 — eager evaluation returns exactly the lazy view; composition is unobservable."""
import itertools

import numpy as np
from hypothesis import strategies as st

from ..core import Prop
from .. import refs, pipegen
from . import c03, c04
from .common import crash_failure, prod, arange_array

FLOAT_TOL_OPS = {"mean", "var", "stddev", "vector_norm", "linspace"}


def chain_cases(thorough):
    """deterministic depth-2 (and some depth-3) chains over the rearranging / selecting catalogue"""
    shapes = [[2, 3], [3, 1, 2], [4], [2, 2, 2]] + ([[1, 4], [3, 2, 1, 2]] if thorough else [])
    ops1 = ["transpose", "reshape", "flip", "moveaxis", "expand_dims", "tile", "repeat", "roll", "pad", "take", "sliding_window", "expand", "squeeze"]
    ops2 = ["transpose", "reshape", "flip", "tile", "roll", "take", "flatten", "swapaxes", "repeat", "pad", "diagflat"]
    n1 = 8 if thorough else 4
    n2 = 5 if thorough else 3
    for shape in shapes:
        src = np.arange(1, prod(shape) + 1).reshape(shape)
        for o1 in ops1:
            a1s = list(c03.args_for(o1, shape, "quick")) if o1 in c03.OPS else list(c04.args_unary(o1, shape, False))
            a1s = [a for a in a1s if not pipegen.known_class({"f": o1, "a": a}, [shape])]
            for a1 in a1s[:: max(1, len(a1s) // n1)][:n1]:
                try:
                    r1 = np.asarray(refs.REFS[o1]([src], a1))
                except (refs.Invalid, refs.OutOfDomain):
                    continue
                if r1.size == 0 or r1.size > 200 or r1.ndim == 0:
                    continue
                s1 = list(r1.shape)
                for o2 in ops2:
                    a2s = list(c03.args_for(o2, s1, "quick")) if o2 in c03.OPS else list(c04.args_unary(o2, s1, False))
                    a2s = [a for a in a2s if not pipegen.known_class({"f": o2, "a": a}, [s1])]
                    for a2 in a2s[:: max(1, len(a2s) // n2)][:n2]:
                        stages = [{"f": o1, "in": [0], "a": a1}, {"f": o2, "in": [1], "a": a2}]
                        yield {"op": "pipe2", "arrays": [arange_array(shape, start=1)], "stages": stages}
                        # a binary tree: combine the second stage with the first one
                        try:
                            r2 = np.asarray(refs.REFS[o2]([r1], a2))
                        except (refs.Invalid, refs.OutOfDomain):
                            continue
                        if r2.shape == r1.shape and r2.size <= 200:
                            yield {"op": "pipe2", "arrays": [arange_array(shape, start=1)],
                                   "stages": stages + [{"f": "subtract", "in": [2, 1], "a": {}}]}


class C10(Prop):
    id = "C10"
    servers = ["views"]
    chunk = 60
    rule = ("case = a pipeline (chain or binary tree, depth 1..3) of views over small arrays, executed (a) as ONE lazy composition whose every stage "
            "is also evaluated through eval into an inferred row-major result, an inferred column-major result, a supplied row-major and a supplied "
            "column-major output (sentinel pre-filled), (b) staged: every stage materialised to a concrete array before the next one. Oracle: "
            "lazy == staged exactly, every eval path == lazy element-wise, == NumPy reference (tolerance only for float statistics), no early-return event. "
            "non-trivial = depth >= 2; distinct = canonical JSON")
    assumptions = ["type-erased operands: static result-type inference of genuinely nested view types is exercised by C09/C11 programs, not here",
                   "members of the known-finding input classes of C04/C05/C08 are not composed into pipelines"]

    def exhaustive_space(self, tier):
        return "depth-2 chains + binary trees over 13 x 11 ops with sampled arguments on 4 (quick) / 6 (thorough) source shapes"

    def exhaustive(self, tier):
        yield from chain_cases(tier == "thorough")

    def n_random(self, tier):
        return 8000 if tier == "quick" else 150000

    def strategy(self, tier):
        return pipegen.pipelines(max_depth=3).map(lambda c: dict(c, op="pipe2"))

    # ---- E2 part: genuinely nested static view types (generated programs shared with C09 / C11) ----
    engines = ["hypothesis+sanitized-cpp-server", "generated programs (E2 progen)"]

    def extra_phases(self, ctx):
        from .. import e2
        from ..core import chash, load_known
        stats = ctx["stats"]
        known = {e["id"] for e in load_known("C10") if e.get("status") == "known"}
        units = e2.drop_known_units("C10", e2.view_suite(ctx["tier"], ctx["seed"]), stats)
        results = e2.run_units(units)
        ctx["info"]["progen_units"] = len(units)
        fails = []
        seen_crash = set()
        for r in sorted(results, key=lambda r: (r["u"], r["r"])):
            u = units[r["u"]]
            key = "e2-rendering:" + r["status"]
            stats.classes[key] = stats.classes.get(key, 0) + 1
            if r["status"] == "rejected_compile":
                stats.rejected["rejected_compile"] = stats.rejected.get("rejected_compile", 0) + 1
            if r["status"] == "crash" and (r["u"], "crash") not in seen_crash:
                # the program died while building / evaluating this composition (later renderings of the same program have no record either:
                # only the first one is reported)
                seen_crash.add((r["u"], "crash"))
                lks, aks = u["renderings"][r["r"]]
                fails.append(({"_external": True, "case": u["case"], "kinds": [lks, aks], "cfg": u.get("cfg", "gcc"), "path": "crash"},
                              "program crashed while the lazy view / its evaluation was computed: %s [leaf=%s attr=%s cfg=%s]" % (str(r.get("crash"))[:300], lks, aks, u.get("cfg", "gcc")), {}))
            if r["status"] != "ok":
                continue
            rec = r["rec"]
            lks, aks = u["renderings"][r["r"]]
            stats.evaluations += 1
            if len(u["case"]["stages"]) >= 2 or any(k != "ds_db" for k in lks):
                stats.nontrivial.add(chash({"c": u["case"], "k": [lks, aks], "cfg": u.get("cfg")}))
            obs = rec["obs"]
            if obs.get("hv") is False:
                continue
            clipped = any(k.startswith("ls_") for k in lks) or any(v == "cl" for d in aks for v in d.values())
            for key in ("eval", "eval_col"):
                if key not in rec:
                    continue
                if key == "eval_col" and clipped and "C10-column-major-eval-clipped-shape" in known:
                    stats.rejected["excluded_by_known_finding:C10-column-major-eval-clipped-shape"] = stats.rejected.get("excluded_by_known_finding:C10-column-major-eval-clipped-shape", 0) + 1
                    continue
                ev = rec[key]
                if ev.get("shape") != obs.get("shape") or ev.get("elems") != obs.get("elems"):
                    fails.append(({"_external": True, "case": u["case"], "kinds": [lks, aks], "cfg": u.get("cfg", "gcc"), "path": key},
                                  "%s of a statically nested view differs from the lazy view: shape %s elems %s vs lazy shape %s elems %s [leaf=%s attr=%s cfg=%s]" % (
                                      key, ev.get("shape"), str(ev.get("elems"))[:80], obs.get("shape"), str(obs.get("elems"))[:80], lks, aks, u.get("cfg", "gcc")), {}))
                    break
        return fails

    def replay_external(self, case):
        from .. import e2
        unit = {"case": case["case"], "renderings": [tuple(case["kinds"])], "cfg": case.get("cfg", "gcc")}
        out = []
        for r in e2.run_units([unit]):
            if r["status"] == "crash":
                out.append((case, "program crashed: %s" % str(r.get("crash"))[:200], {}))
            if r["status"] != "ok":
                continue
            rec = r["rec"]
            for key in ("eval", "eval_col"):
                if key in rec and (rec[key].get("shape") != rec["obs"].get("shape") or rec[key].get("elems") != rec["obs"].get("elems")):
                    out.append((case, "%s differs from the lazy view" % key, {}))
                    break
        return out

    def features(self, case, failure):
        from .. import e2
        if case.get("_external"):
            lks, aks = case.get("kinds") or ([], [])
            clipped = any(k.startswith("ls_") for k in lks) or any(v == "cl" for d in aks for v in d.values())
            return {"path": case.get("path") or ("eval_col" if "eval_col" in str(failure) else "eval"), "uses_clipped": clipped,
                    "nostl_either": e2.nostl_either_class({"cfg": case.get("cfg"), "case": case.get("case") or {"stages": []}})}
        return {}

    def nontrivial(self, case):
        return len(case["stages"]) >= 2

    def classes(self, case):
        out = ["depth:%d" % len(case["stages"])]
        for s in case["stages"]:
            out.append("op:" + s["f"])
        if any(len(s["in"]) > 1 and len(set(s["in"])) > 1 for s in case["stages"]):
            out.append("tree")
        if case["arrays"][0].get("dt") == "f64":
            out.append("f64")
        return out

    def check(self, case, obs):
        cf = crash_failure(obs)
        if cf:
            return cf
        if "oob" in obs:
            return "out-of-range container access inside the library: " + obs["oob"][:120]
        if "error" in obs:
            return "HARNESS-ERROR server: " + obs["error"]
        lazy, staged = obs["lazy"], obs["staged"]
        if lazy.get("hv") != staged.get("hv"):
            return "lazy has_value=%s but staged has_value=%s" % (lazy.get("hv"), staged.get("hv"))
        tol = 1e-5 if any(s["f"] in FLOAT_TOL_OPS for s in case["stages"]) else None
        f = refs.check_pipe(case, lazy, tol=tol)
        if f:
            return "lazy: " + f
        if lazy.get("hv"):
            if lazy["shape"] != staged["shape"]:
                return "lazy shape %s != staged shape %s" % (lazy["shape"], staged["shape"])
            g = refs.compare_values(lazy["elems"], np.array(staged["elems"]), None, tol=None)
            if g and not (len(lazy["elems"]) == len(staged["elems"]) and all((a == b) or (a != a and b != b) for a, b in zip(lazy["elems"], staged["elems"]))):
                return "lazy composition differs from staged evaluation: " + g
            if lazy.get("eval_paths", 0) < 1:
                return "HARNESS-ERROR eval paths not exercised"
        for e in obs.get("events", []):
            if e[0] == 6:
                return "evaluator returned early (output/view shape mismatch event) although outputs were built with the view's shape"
        return None
