"""C19 — the STL-free containers behave like their standard counterparts over any history."""
import copy

from hypothesis import strategies as st

from ..core import Prop
from .common import crash_failure

SEQ_TYPES = {"vector_int": None, "vector_double": None, "static_vector4": 4, "static_vector8": 8, "small_vector6": None, "small_vector6_stl": None}
SMALL_TYPES = ("small_vector6", "small_vector6_stl")   # utl::either<utl::static_vector,utl::vector> resp. std::variant<utl::static_vector,std::vector>
DIM = 6
ARRAY_TYPES = {"array4": 4, "array3d": 3}
MAYBE_TYPES = ["maybe_int", "maybe_double", "maybe_vec"]
EITHER_TYPES = ["either_int_double", "either_int_vec", "either_vec_svec"]
TUPLE_TYPES = ["tuple", "tuplev2"]
ALL_TYPES = list(SEQ_TYPES) + list(ARRAY_TYPES) + MAYBE_TYPES + EITHER_TYPES + TUPLE_TYPES
U = None  # unspecified element


def is_float(t):
    return "double" in t or t in ("static_vector8", "array3d")


# ------------------------------------------------------------------ model
def apply(t, state, step):
    """model transition; state = [slot0, slot1]; returns new state (deep-copied)"""
    s = copy.deepcopy(state)
    op, k = step[0], step[1]
    if t == "small_vector6_stl":
        return apply_small_stl(s, step)
    if t in SEQ_TYPES:
        cap = SEQ_TYPES[t]
        if op == "new":
            kind = step[2]
            if kind == "default":
                s[k] = []
            elif kind == "sized":
                s[k] = [U] * step[3]
            elif kind == "values":
                s[k] = list(step[3])
            elif kind == "copy":
                s[k] = list(s[step[3]])
        elif op == "assign":
            s[k] = list(s[step[2]])
        elif op == "push":
            if cap is None or len(s[k]) + 1 <= cap:
                s[k].append(step[2])
        elif op == "resize":
            n = step[2]
            if cap is None or n <= cap:
                cur = s[k]
                s[k] = cur[:n] + [U] * max(0, n - len(cur))
        elif op in ("write", "write_at"):
            s[k][step[2]] = step[3]
        elif op == "destroy":
            s[k] = None
    elif t in ARRAY_TYPES:
        n = ARRAY_TYPES[t]
        if op == "new":
            kind = step[2]
            if kind == "values":
                v = list(step[3])[:n]
                s[k] = v + [0] * (n - len(v))
            elif kind == "copy":
                s[k] = list(s[step[3]])
            else:
                s[k] = [0] * n
        elif op == "assign":
            s[k] = list(s[step[2]])
        elif op in ("write", "write_at"):
            s[k][step[2]] = step[3]
        elif op == "destroy":
            s[k] = None
    elif t in MAYBE_TYPES:
        if op == "new":
            kind = step[2]
            s[k] = ("none",) if kind in ("default", "none") else (("value", copy.deepcopy(step[3])) if kind == "value" else copy.deepcopy(s[step[3]]))
        elif op == "assign":
            s[k] = copy.deepcopy(s[step[2]])
        elif op == "assign_val":
            s[k] = ("value", copy.deepcopy(step[2]))
        elif op == "assign_none":
            s[k] = ("none",)
        elif op == "destroy":
            s[k] = None
    elif t in EITHER_TYPES:
        if op == "new":
            kind = step[2]
            if kind == "default":
                s[k] = (0, default_left(t))
            elif kind == "left":
                s[k] = (0, copy.deepcopy(step[3]))
            elif kind == "right":
                s[k] = (1, copy.deepcopy(step[3]))
            else:
                s[k] = copy.deepcopy(s[step[3]])
        elif op == "assign":
            s[k] = copy.deepcopy(s[step[2]])
        elif op == "assign_left":
            s[k] = (0, copy.deepcopy(step[2]))
        elif op == "assign_right":
            s[k] = (1, copy.deepcopy(step[2]))
        elif op == "destroy":
            s[k] = None
    else:  # tuples
        if op == "new":
            kind = step[2]
            s[k] = list(step[3]) if kind == "values" else (list(s[step[3]]) if kind == "copy" else [0, 0.0, 0])
        elif op == "assign":
            s[k] = list(s[step[2]])
        elif op == "write":
            s[k][step[2]] = step[3]
        elif op == "destroy":
            s[k] = None
    return s


class SV(list):
    """model of small_vector<int, 6, std::variant, utl::static_vector, std::vector>: the element list plus which buffer is active.
    Elements created by growth are unspecified (U) in the static buffer (utl::static_vector::resize only moves its size) and 0 in the
    heap buffer (std::vector value-initialises; a spill builds a value-initialised std::vector and copies the old size() elements)."""
    heap = False


def apply_small_stl(s, step):
    op, k = step[0], step[1]

    def grow(cur, n):
        out = SV(cur[:n])
        out.heap = cur.heap
        if n > len(cur):
            if not cur.heap and n > DIM:
                out.heap = True
            out.extend([0 if out.heap else U] * (n - len(cur)))
        return out
    if op == "new":
        kind = step[2]
        if kind == "default":
            s[k] = SV()
        elif kind == "sized":
            n = step[3]
            s[k] = SV([0 if n >= DIM else U] * n)
            s[k].heap = n >= DIM          # small_vector(N): static only if N < DIM
        elif kind == "values":
            s[k] = SV(step[3])
        elif kind == "copy":
            s[k] = copy.deepcopy(s[step[3]])
    elif op == "assign":
        s[k] = copy.deepcopy(s[step[2]])
    elif op == "push":
        cur = s[k]
        if len(cur) == DIM:
            s[k] = grow(cur, DIM + 1)
            s[k][DIM] = step[2]
        else:
            cur.append(step[2])
    elif op == "resize":
        s[k] = grow(s[k], step[2])
    elif op in ("write", "write_at"):
        s[k][step[2]] = step[3]
    elif op == "destroy":
        s[k] = None
    return s


def default_left(t):
    return [] if t == "either_vec_svec" else 0


def left_val(t, k):
    return [k, k + 1][: 1 + k % 2] if t == "either_vec_svec" else k


def right_val(t, k):
    if t == "either_int_double":
        return k + 0.5
    return [k, k + 2, k + 4][: 1 + k % 3]


def maybe_val(t, k):
    return [k, k + 1, k + 2][: k % 4] if t == "maybe_vec" else (k + 0.5 if t == "maybe_double" else k)


def next_steps(t, state, small=True, k0=7):
    """all valid next steps from this model state (small parameter sets)"""
    out = []
    live = [i for i in (0, 1) if state[i] is not None]
    dead = [i for i in (0, 1) if state[i] is None]
    v = k0 + (0.5 if is_float(t) else 0)
    for k in dead[:1] if small else dead:
        if t in SEQ_TYPES:
            cap = SEQ_TYPES[t]
            out.append(["new", k, "default"])
            if True:
                for n in (((0, 2, DIM) if t in SMALL_TYPES else (0, 2)) if small else ((0, 1, 3, DIM, 9) if t in SMALL_TYPES else (0, 1, 3, (cap or 9)))):
                    if cap is None or n <= cap:
                        out.append(["new", k, "sized", n])
            out.append(["new", k, "values", [v, v + 1, v + 2][: 2 + (k0 % 2)]])
        elif t in ARRAY_TYPES:
            out.append(["new", k, "values", [v, v + 1, v + 2, v + 3][: ARRAY_TYPES[t]]])
            out.append(["new", k, "default"])
        elif t in MAYBE_TYPES:
            out += [["new", k, "none"], ["new", k, "default"], ["new", k, "value", maybe_val(t, k0)]]
        elif t in EITHER_TYPES:
            out += [["new", k, "default"], ["new", k, "left", left_val(t, k0)], ["new", k, "right", right_val(t, k0)]]
        else:
            out += [["new", k, "values", [k0, k0 + 0.5, k0 + 1]], ["new", k, "default"]]
        for j in live:
            out.append(["new", k, "copy", j])
    for k in live:
        for j in live:
            out.append(["assign", k, j])
        out.append(["destroy", k])
        if t in SEQ_TYPES:
            cap = SEQ_TYPES[t]
            n = len(state[k])
            out.append(["push", k, v])
            for m in sorted(set([0, max(0, n - 1), n + 1] + ([cap + 1] if cap else []) + ([DIM, DIM + 1] if t in SMALL_TYPES else []) + ([] if small else [n + 5, 2]))):
                out.append(["resize", k, m])
            if n:
                out.append(["write", k, n - 1, v + 3])
                if not small:
                    out.append(["write_at", k, 0, v + 4])
        elif t in ARRAY_TYPES:
            out.append(["write", k, ARRAY_TYPES[t] - 1, v + 3])
            out.append(["write_at", k, 0, v + 4])
        elif t in MAYBE_TYPES:
            out += [["assign_val", k, maybe_val(t, k0 + 1)], ["assign_none", k]]
        elif t in EITHER_TYPES:
            out += [["assign_left", k, left_val(t, k0 + 1)], ["assign_right", k, right_val(t, k0 + 1)]]
        else:
            out.append(["write", k, k0 % 3, k0 + 9])
    return out


def enumerate_histories(t, length, cap_count=None):
    """all step sequences of exactly `length` valid steps (depth-first, deterministic)"""
    count = [0]

    def rec(state, steps, depth):
        if cap_count and count[0] >= cap_count:
            return
        if depth == length:
            count[0] += 1
            yield list(steps)
            return
        for i, st_ in enumerate(next_steps(t, state, small=True, k0=7 + depth)):
            yield from rec(apply(t, state, st_), steps + [st_], depth + 1)
    yield from rec([None, None], [], 0)


INTERESTING = ("shrink_grow", "copy_then_mutate", "assign_diff_size", "self_assign", "cross_threshold", "refused", "switch_alternative", "reassign_value")


def history_classes(t, steps):
    out = set()
    state = [None, None]
    copied = set()
    shrunk = set()
    for s in steps:
        op, k = s[0], s[1]
        if op == "assign" and s[2] == k:
            out.add("self_assign")
        if op == "assign" and s[2] != k and t in SEQ_TYPES and len(state[k]) != len(state[s[2]]):
            out.add("assign_diff_size")
        if op == "new" and s[2] == "copy":
            copied.add(s[3]); copied.add(k)
        if op in ("write", "write_at", "push", "resize", "assign_val", "assign_none", "assign_left", "assign_right") and k in copied:
            out.add("copy_then_mutate")
        if t in SEQ_TYPES and op == "resize":
            if s[2] < len(state[k]):
                shrunk.add(k)
            elif s[2] > len(state[k]) and k in shrunk:
                out.add("shrink_grow")
            cap = SEQ_TYPES[t]
            if cap and s[2] > cap:
                out.add("refused")
        if t in SEQ_TYPES and op == "push":
            cap = SEQ_TYPES[t]
            if cap and len(state[k]) + 1 > cap:
                out.add("refused")
            if t in SMALL_TYPES and len(state[k]) == 6:
                out.add("cross_threshold")
        if t in SMALL_TYPES and op == "resize" and (len(state[k]) <= 6) != (s[2] <= 6):
            out.add("cross_threshold")
        if t in EITHER_TYPES and op in ("assign_left", "assign_right", "assign") and state[k] is not None:
            new = apply(t, state, s)[k]
            if new[0] != state[k][0]:
                out.add("switch_alternative")
        if t in MAYBE_TYPES and op in ("assign_val", "assign") and state[k] is not None and state[k][0] == "value":
            out.add("reassign_value")
        state = apply(t, state, s)
    return out


# ------------------------------------------------------------------ property
class C19(Prop):
    id = "C19"
    servers = ["utl"]
    chunk = 200
    rule = ("case = (container type, history): a sequence of operations {construct default/sized/variadic/copy, assign(other|self), push_back, resize, write, destroy} "
            "on up to two live objects of utl::vector, utl::static_vector<4|8>, nmtools::small_vector<6> (utl-backed and std::variant/std::vector-backed), utl::array, utl::tuple/tuplev2, utl::maybe, utl::either "
            "(trivial and non-trivial payloads). After EVERY step the size, every specified element, has_value / active alternative of both objects are compared with "
            "a Python model (list / None-or-value / tagged union; static_vector refuses beyond capacity; elements created by a growing resize are unspecified); at the end "
            "all objects are destroyed and the counting allocator must balance; ASan/UBSan must stay silent. Exhaustive for length <= 4 (quick) / 5 (thorough) over a small "
            "parameter alphabet, Hypothesis sequences up to length 60 (quick) / 200 (thorough). non-trivial = history contains shrink-then-grow, copy-then-mutate, assignment "
            "between different sizes, self-assignment, a small_vector threshold crossing, a refusal at capacity, an either alternative switch or a maybe re-assignment; distinct = canonical JSON")
    assumptions = ["utl::vector does not value-initialise elements created by resize / the sized constructor (documented as not STL-compatible): those elements are unspecified in the model",
                   "static_vector(n) with n > Capacity is outside the domain (no std counterpart)"]

    def exhaustive_space(self, tier):
        return "all valid histories of length 1..%d over the small alphabet for 16 container types (capped per type)" % (5 if tier == "thorough" else 4)

    def exhaustive(self, tier):
        L = 5 if tier == "thorough" else 4
        capn = 60000 if tier == "thorough" else 6000
        for t in ALL_TYPES:
            for length in range(1, L + 1):
                for steps in enumerate_histories(t, length, cap_count=capn):
                    yield {"op": "hist", "type": t, "steps": steps}

    def n_random(self, tier):
        return 20000 if tier == "quick" else 200000

    def strategy(self, tier):
        maxlen = 60 if tier == "quick" else 200

        @st.composite
        def case(draw):
            t = draw(st.sampled_from(ALL_TYPES))
            n = draw(st.integers(1, maxlen))
            state = [None, None]
            steps = []
            for d in range(n):
                opts = next_steps(t, state, small=False, k0=draw(st.integers(0, 20)))
                s = opts[draw(st.integers(0, len(opts) - 1))]
                steps.append(s)
                state = apply(t, state, s)
            return {"op": "hist", "type": t, "steps": steps}
        return case()

    # ---- known findings ---------------------------------------------------
    def _finding(self, case):
        t = case["type"]
        if t in ("maybe_vec", "either_int_vec", "either_vec_svec"):
            return "C19-nontrivial-either-lifetime"
        if t == "small_vector6":
            state = [None, None]
            for s in case["steps"]:
                state = apply("small_vector6_stl", state, s)       # same buffer-selection logic; tracks which buffer is active
                if any(x is not None and x.heap for x in state):
                    return "C19-nontrivial-either-lifetime"
        return None

    def excluded(self, case):
        return None if case.get("_witness") else self._finding(case)

    def features(self, case, failure):
        return {"finding": self._finding(case), "type": case["type"]}

    def nontrivial(self, case):
        return bool(history_classes(case["type"], case["steps"]))

    def classes(self, case):
        return ["type:" + case["type"], "len:%d" % min(len(case["steps"]), 10) + ("+" if len(case["steps"]) > 10 else "")] + sorted(history_classes(case["type"], case["steps"]))

    def check(self, case, obs):
        cf = crash_failure(obs)
        if cf:
            return cf
        if "error" in obs:
            return "HARNESS-ERROR server: " + obs["error"]
        t = case["type"]
        state = [None, None]
        for i, (s, got) in enumerate(zip(case["steps"], obs["trace"])):
            state = apply(t, state, s)
            for k in (0, 1):
                f = self._cmp(t, state[k], got[k])
                if f:
                    return "after step %d %s: object %d %s" % (i, s, k, f)
        if obs.get("bad_free"):
            return "free of a pointer the allocator never returned (or double free): %d" % obs["bad_free"]
        if obs.get("live"):
            return "memory leak: %d allocation(s) not freed after all objects were destroyed (allocs=%d frees=%d)" % (obs["live"], obs["allocs"], obs["frees"])
        return None

    def _cmp(self, t, model, got):
        if model is None:
            return None if got is None else "exists but was destroyed in the model"
        if got is None:
            return "missing"
        if t in SEQ_TYPES or t in ARRAY_TYPES:
            if got["size"] != len(model):
                return "size %d, model %d" % (got["size"], len(model))
            for j, (m, g) in enumerate(zip(model, got["elems"])):
                if m is not U and m != g:
                    return "element %d is %r, model %r" % (j, g, m)
            return None
        if t in MAYBE_TYPES:
            if got["has"] != (model[0] == "value"):
                return "has_value %s, model %s" % (got["has"], model[0])
            if model[0] == "value":
                return self._cmpval(model[1], got["v"])
            return None
        if t in EITHER_TYPES:
            if got["alt"] != model[0]:
                return "active alternative %s, model %s" % (got["alt"], model[0])
            return self._cmpval(model[1], got["v"])
        if list(got) != list(model):
            return "tuple %s, model %s" % (got, model)
        return None

    def _cmpval(self, m, g):
        if isinstance(m, list):
            if g["size"] != len(m) or g["elems"] != m:
                return "value %s, model %s" % (g, m)
            return None
        return None if m == g else "value %r, model %r" % (g, m)

    # ---- E3: coverage-guided fuzzing of operation histories (libFuzzer targets with an in-target model, harness/fuzz_utl.cpp) ----
    engines = ["hypothesis+sanitized-cpp-server", "libFuzzer (E3, harness/fuzz_utl.cpp)"]

    def extra_phases(self, ctx):
        from .. import fuzz
        fails = []
        for t in ("c19_vector", "c19_static_vector", "c19_small_vector"):
            fails += fuzz.fuzz_phase(self, t, dict(ctx, fuzz_scale=0.5, fuzz_jobs=4))
        return fails

    def replay_external(self, case):
        from .. import fuzz
        return fuzz.replay(case["fuzz"], case) if case.get("fuzz") else []
