"""Content-addressed build cache for the harness binaries.

Every object is keyed by (compiler, flags, defines, source text, harness header
text, hash of the nmtools include tree) so a cache hit is by construction
identical to a rebuild from /repo's current working tree.
"""
import fcntl
import hashlib
import os
import subprocess
import sys
import time
from concurrent.futures import ThreadPoolExecutor

VERIF = os.path.dirname(os.path.dirname(os.path.abspath(__file__)))
REPO = os.environ.get("NMV_REPO", "/repo")
BUILD = os.environ.get("NMV_BUILD", os.path.join(VERIF, "build"))
HARNESS = os.path.join(VERIF, "harness")
JOBS = int(os.environ.get("NMV_JOBS", "16"))

GUARD = "-DNMTOOLS_VERIF"
SAN = ["-fsanitize=address,undefined", "-fno-sanitize-recover=undefined"]
BASE = ["-std=c++17", "-O1", "-g1", "-D_GLIBCXX_ASSERTIONS", GUARD, "-Wno-deprecated-declarations"]


class BuildError(Exception):
    pass


_tree_hash = {}


def tree_hash(root=None):
    root = root or os.path.join(REPO, "include")
    if root in _tree_hash:
        return _tree_hash[root]
    h = hashlib.sha256()
    for dp, dn, fn in sorted(os.walk(root)):
        dn.sort()
        for f in sorted(fn):
            p = os.path.join(dp, f)
            h.update(os.path.relpath(p, root).encode())
            try:
                with open(p, "rb") as fh:
                    h.update(fh.read())
            except OSError:
                pass
    _tree_hash[root] = h.hexdigest()
    return _tree_hash[root]


_hdr_hash = None


def harness_hdr_hash():
    global _hdr_hash
    if _hdr_hash is None:
        h = hashlib.sha256()
        for f in sorted(os.listdir(HARNESS)):
            if f == "pg.hpp":
                continue  # progen prelude: only generated programs depend on it (hashed in progen._bin_path)
            if f.endswith(".hpp") or f.endswith(".h") or f.endswith(".inc"):
                h.update(f.encode())
                h.update(open(os.path.join(HARNESS, f), "rb").read())
        _hdr_hash = h.hexdigest()
    return _hdr_hash


def _key(*parts):
    h = hashlib.sha256()
    for p in parts:
        h.update(repr(p).encode())
        h.update(b"\0")
    return h.hexdigest()[:32]


def _locked(path):
    os.makedirs(os.path.dirname(path), exist_ok=True)
    fh = open(path + ".lock", "w")
    fcntl.flock(fh, fcntl.LOCK_EX)
    return fh


def compile_unit(src, flags, cxx="g++", includes=None, src_text=None):
    """Compile one TU; returns object path. src may be a path under harness/ or absolute."""
    path = src if os.path.isabs(src) else os.path.join(HARNESS, src)
    text = src_text if src_text is not None else open(path, "rb").read()
    uses_nm = b"nmtools" in text or b"nmv.hpp" in text
    key = _key(cxx, flags, text, harness_hdr_hash() if uses_nm else "", tree_hash() if uses_nm else "", includes)
    obj = os.path.join(BUILD, "obj", key[:2], key + ".o")
    if os.path.exists(obj):
        return obj
    lock = _locked(obj)
    try:
        if os.path.exists(obj):
            return obj
        inc = ["-I" + os.path.join(REPO, "include"), "-I" + HARNESS] + ["-I" + i for i in (includes or [])]
        tmp = obj + ".tmp%d" % os.getpid()
        if src_text is not None:
            srcfile = obj + ".cpp"
            with open(srcfile, "wb") as fh:
                fh.write(text)
        else:
            srcfile = path
        cmd = [cxx] + flags + inc + ["-c", srcfile, "-o", tmp]
        t0 = time.time()
        r = subprocess.run(cmd, capture_output=True, text=True)
        if r.returncode != 0:
            errs = [l for l in r.stderr.splitlines() if "error" in l][:15]
            raise BuildError("compile failed: %s\n%s" % (" ".join(cmd), "\n".join(errs) or r.stderr[-3000:]))
        os.replace(tmp, obj)
        if os.environ.get("NMV_VERBOSE"):
            print("[build] %s %s %.1fs" % (os.path.basename(src), " ".join(f for f in flags if f.startswith("-DNMV")), time.time() - t0), file=sys.stderr)
        return obj
    finally:
        lock.close()


def link(name, objs, flags, cxx="g++", libs=None):
    key = _key(cxx, flags, [os.path.basename(o) for o in objs], libs)
    out = os.path.join(BUILD, "bin", key, name)
    if os.path.exists(out):
        return out
    lock = _locked(out)
    try:
        if os.path.exists(out):
            return out
        tmp = out + ".tmp%d" % os.getpid()
        cmd = [cxx] + [f for f in flags if f.startswith("-fsanitize") or f.startswith("-m") or f == "-pthread"] + objs + ["-o", tmp] + (libs or [])
        r = subprocess.run(cmd, capture_output=True, text=True)
        if r.returncode != 0:
            raise BuildError("link failed: %s\n%s" % (" ".join(cmd), r.stderr[-3000:]))
        os.replace(tmp, out)
        return out
    finally:
        lock.close()


# ---------------------------------------------------------------------
# server specifications: name -> dict(units=[(src, [defines])], flags=[...], cxx=...)
# ---------------------------------------------------------------------
def _parts(src, n, extra=()):
    return [(src, ["-DNMV_PART=%d" % k] + list(extra)) for k in range(n)]


SERVERS = {
    "c01": dict(units=_parts("srv_c01.cpp", 8)),
    "rearrange": dict(units=[("srv_views_main.cpp", [])] + _parts("ops_rearrange.cpp", 5)),
}


def _load_specs():
    """extra server specs: nmv/servers.d/<name>.json = {"units":[["file.cpp",["-DX"]],...] | {"parts":["file.cpp",N]}, "flags_extra":[...]}"""
    import json
    d = os.path.join(VERIF, "nmv", "servers.d")
    if not os.path.isdir(d):
        return
    for f in sorted(os.listdir(d)):
        if not f.endswith(".json"):
            continue
        spec = json.load(open(os.path.join(d, f)))
        units = []
        for u in spec.get("units", []):
            if isinstance(u, dict) and "parts" in u:
                units += _parts(u["parts"][0], u["parts"][1], u.get("defs", ()))
            else:
                units.append((u[0], list(u[1]) if len(u) > 1 else []))
        entry = dict(units=units)
        base = list(BASE)
        if spec.get("ndebug"):
            base = base + ["-DNDEBUG"]
        if spec.get("no_sanitize"):
            entry["flags"] = base + list(spec.get("flags_extra", []))
        else:
            entry["flags"] = base + SAN + list(spec.get("flags_extra", []))
        if "cxx" in spec:
            entry["cxx"] = spec["cxx"]
        if "libs" in spec:
            entry["libs"] = spec["libs"]
        SERVERS[f[:-5]] = entry


_load_specs()


def build_server(name, pool=None):
    spec = SERVERS[name]
    flags = list(spec.get("flags", BASE + SAN))
    cxx = spec.get("cxx", "g++")
    units = list(spec["units"]) + [("main.cpp", [])]
    own_pool = pool is None
    pool = pool or ThreadPoolExecutor(JOBS)
    try:
        futs = [pool.submit(compile_unit, src, flags + list(defs), cxx) for src, defs in units]
        objs = [f.result() for f in futs]
    finally:
        if own_pool:
            pool.shutdown()
    return link("srv_" + name, objs, flags, cxx, spec.get("libs"))


def build_servers(names):
    t0 = time.time()
    with ThreadPoolExecutor(JOBS) as pool:
        futs = {}
        for n in names:
            spec = SERVERS[n]
            flags = list(spec.get("flags", BASE + SAN))
            cxx = spec.get("cxx", "g++")
            units = list(spec["units"]) + [("main.cpp", [])]
            futs[n] = [pool.submit(compile_unit, src, flags + list(defs), cxx) for src, defs in units]
        out = {}
        for n in names:
            spec = SERVERS[n]
            flags = list(spec.get("flags", BASE + SAN))
            objs = [f.result() for f in futs[n]]
            out[n] = link("srv_" + n, objs, flags, spec.get("cxx", "g++"), spec.get("libs"))
    return out, time.time() - t0


if __name__ == "__main__":
    names = sys.argv[1:] or list(SERVERS)
    try:
        out, dt = build_servers(names)
    except BuildError as e:
        print(e, file=sys.stderr)
        sys.exit(2)
    for n, p in out.items():
        print(n, p)
    print("build %.1fs" % dt, file=sys.stderr)
