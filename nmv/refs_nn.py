"""Reference implementations of the neural-network routines (C17), written from the PyTorch
documentation formulas as direct nested loops / NumPy reductions. Nothing in here follows the
nmtools implementation (no reshape-by-groups / sliding_window / expand tricks).

Conventions (PyTorch docs):
* convNd:   out[n, co, o...] = bias[co] + sum_{cg, k...} in_pad[n, g*Cin/G + cg, o*s + k*d ...] * w[co, cg, k...]
            with g = co // (Cout/G); out extent = floor((n + 2p - d(k-1) - 1)/s + 1); zero padding p on both sides.
* pool2d:   out extent = floor|ceil((n - k)/s) + 1 (padding = 0, dilation = 1: the library has neither);
            ceil_mode: windows may overhang the input on the right, but (PyTorch rule) a window that would
            *start* outside the input is dropped. max = max over the in-bounds part of the window.
            avg: PyTorch (padding = 0) divides by the number of in-bounds elements of the window (the overhang
            is not counted); the repository's own test data documents the same choice
            (testing/data/array/pooling.hpp, avg_pool2d case1: 4x4 input, k=3, s=2, ceil -> 6.5 = 39/6),
            so the reference divides by the in-bounds count, NOT by the full kernel size.
* softmax(x, axis) = exp(x - max) / sum(exp(x - max)) along axis; softmin(x) = softmax(-x).
* norms:    y = (x - mean) / sqrt(var + eps) * weight + bias, var = biased variance; eps default 1e-5
    batch_norm: given running mean/var per channel; channel axis = -3 (header documents (N,C,H,W) / (C,H,W) only)
    layer_norm: statistics over the last len(weight.shape) axes; weight/bias have the normalized shape
    instance_norm(nd): statistics per (sample, channel) over the last nd axes; channel axis = -(nd+1)
    group_norm: input (N,C,*), channels split into G contiguous groups, statistics per (sample, group)
* linear:   y = x W^T + b, W (out,in) or (in,)
* bilinear: y[..., o] = sum_ij x1[..., i] W[o,i,j] x2[..., j] + b[o]
* pairwise_distance: || x1 - x2 + eps ||_p over the last axis (operands broadcast), eps default 1e-6
* cosine_similarity: sum(x1*x2, axis) / (max(||x1||_2, eps) * max(||x2||_2, eps)), eps default 1e-8, axis default 1
"""
import itertools
import math

import numpy as np

from .refs import ref, Invalid, OutOfDomain, _np


# ---------------------------------------------------------------------------------------------
# helpers
# ---------------------------------------------------------------------------------------------
def _tuple_arg(v, nd, default):
    """None -> default, int -> (v,)*nd, sequence of nd ints"""
    if v is None:
        return (default,) * nd
    if isinstance(v, int):
        return (v,) * nd
    v = tuple(int(e) for e in v)
    if len(v) != nd:
        raise Invalid("expected %d values" % nd)
    return v


def conv_out_extent(n, k, s, p, d):
    # floor((n + 2p - d(k-1) - 1)/s + 1), integer arithmetic (floor division also for negatives)
    return (n + 2 * p - d * (k - 1) - 1) // s + 1


def conv_nd(x, w, b, stride, padding, dilation, groups, nd):
    if x.ndim != nd + 2 or w.ndim != nd + 2:
        raise Invalid("rank")
    stride = _tuple_arg(stride, nd, 1)
    padding = _tuple_arg(padding, nd, 0)
    dilation = _tuple_arg(dilation, nd, 1)
    groups = 1 if groups is None else int(groups)
    if groups < 1 or any(s < 1 for s in stride) or any(p < 0 for p in padding) or any(d < 1 for d in dilation):
        raise Invalid("non-positive argument")
    N, Cin = x.shape[:2]
    Cout, Cg = w.shape[:2]
    K = w.shape[2:]
    if Cin % groups or Cout % groups or Cg != Cin // groups:
        raise Invalid("groups do not divide channels")
    if b is not None and b.shape != (Cout,):
        raise Invalid("bias shape")
    spatial = x.shape[2:]
    out_sp = tuple(conv_out_extent(spatial[i], K[i], stride[i], padding[i], dilation[i]) for i in range(nd))
    if any(o <= 0 for o in out_sp):
        raise OutOfDomain("non-positive output extent")
    out = np.zeros((N, Cout) + out_sp, dtype=np.float64)
    cout_per_g = Cout // groups
    for n in range(N):
        for co in range(Cout):
            g = co // cout_per_g
            for o in itertools.product(*[range(e) for e in out_sp]):
                acc = 0.0
                for cg in range(Cg):
                    ci = g * Cg + cg
                    for k in itertools.product(*[range(e) for e in K]):
                        pos = tuple(o[i] * stride[i] + k[i] * dilation[i] - padding[i] for i in range(nd))
                        if all(0 <= pos[i] < spatial[i] for i in range(nd)):   # zero padding outside
                            acc += float(x[(n, ci) + pos]) * float(w[(co, cg) + k])
                if b is not None:
                    acc += float(b[co])
                out[(n, co) + o] = acc
    return out


def _conv(nd):
    def f(x, a):
        b = x[2] if len(x) > 2 else None
        return conv_nd(x[0], x[1], b, a.get("stride"), a.get("padding"), a.get("dilation"), a.get("groups"), nd)
    return f


for _name in ("conv1d", "conv1d_bias"):
    ref(_name)(_conv(1))
for _name in ("conv2d_sn", "conv2d_si", "conv2d_sa", "conv2d_bias_sn", "conv2d_bias_si", "conv2d_bias_sa"):
    ref(_name)(_conv(2))


# ---------------------------------------------------------------------------------------------
# pooling
# ---------------------------------------------------------------------------------------------
def pool_out_extent(n, k, s, ceil_mode):
    if k > n:
        raise Invalid("kernel larger than input")
    if ceil_mode:
        o = -((-(n - k)) // s) + 1
        # PyTorch: the last window must start inside the input (or the left padding, which is 0 here)
        if (o - 1) * s >= n:
            o -= 1
    else:
        o = (n - k) // s + 1
    return o


def pool_overhang(n, k, s, ceil_mode):
    """True when, with ceil_mode, the last window hangs over the right edge"""
    o = pool_out_extent(n, k, s, ceil_mode)
    return (o - 1) * s + k > n


def pool_drops_window(n, k, s, ceil_mode):
    """True when the PyTorch 'window must start inside the input' rule removes a window"""
    if not ceil_mode:
        return False
    o = -((-(n - k)) // s) + 1
    return (o - 1) * s >= n


def pool2d(x, kernel, stride, ceil_mode, kind):
    if x.ndim < 2:
        raise Invalid("rank")
    kernel = _tuple_arg(kernel, 2, None)
    stride = _tuple_arg(stride, 2, None)
    if any(k < 1 for k in kernel) or any(s < 1 for s in stride):
        raise Invalid("non-positive argument")
    H, W = x.shape[-2:]
    oh = pool_out_extent(H, kernel[0], stride[0], ceil_mode)
    ow = pool_out_extent(W, kernel[1], stride[1], ceil_mode)
    batch = x.shape[:-2]
    out = np.zeros(batch + (oh, ow), dtype=np.float64 if (kind == "avg" or x.dtype.kind == "f") else np.int64)
    for bi in itertools.product(*[range(e) for e in batch]):
        for i in range(oh):
            for j in range(ow):
                vals = []
                for di in range(kernel[0]):
                    for dj in range(kernel[1]):
                        r, c = i * stride[0] + di, j * stride[1] + dj
                        if r < H and c < W:
                            vals.append(x[bi + (r, c)])
                if kind == "max":
                    out[bi + (i, j)] = max(vals)
                else:
                    out[bi + (i, j)] = float(sum(float(v) for v in vals)) / len(vals)
    return out


@ref("max_pool2d")
def _(x, a):
    return pool2d(x[0], a["kernel_size"], a["stride"], bool(a["ceil_mode"]), "max")


@ref("avg_pool2d")
def _(x, a):
    return pool2d(x[0], a["kernel_size"], a["stride"], bool(a["ceil_mode"]), "avg")


# ---------------------------------------------------------------------------------------------
# softmax / softmin
# ---------------------------------------------------------------------------------------------
def _softmax(v, axis):
    v = np.asarray(v, dtype=np.float64)
    if not isinstance(axis, int) or not (-v.ndim <= axis < v.ndim):
        raise Invalid("axis")
    m = np.max(v, axis=axis, keepdims=True)
    e = np.exp(v - m)
    return e / np.sum(e, axis=axis, keepdims=True)


@ref("softmax")
def _(x, a):
    return _softmax(x[0], a["axis"])


@ref("softmin")
def _(x, a):
    return _softmax(-np.asarray(x[0], dtype=np.float64), a["axis"])


# ---------------------------------------------------------------------------------------------
# normalisation
# ---------------------------------------------------------------------------------------------
def _eps(a, default):
    e = a.get("eps")
    return default if e is None else float(e)


def _bshape(ndim, axis, n):
    s = [1] * ndim
    s[axis] = n
    return s


@ref("batch_norm")
def _(x, a):
    v, mean, var, w, b = [np.asarray(e, dtype=np.float64) for e in x]
    if v.ndim < 3:
        raise Invalid("documented for (N,C,H,W) / (C,H,W)")
    C = v.shape[-3]
    for p in (mean, var, w, b):
        if p.shape != (C,):
            raise Invalid("parameter shape")
    eps = _eps(a, 1e-5)
    sh = _bshape(v.ndim, v.ndim - 3, C)
    return (v - mean.reshape(sh)) / np.sqrt(var.reshape(sh) + eps) * w.reshape(sh) + b.reshape(sh)


def _normalise(v, axes, eps):
    mean = v.mean(axis=axes, keepdims=True)
    var = ((v - mean) ** 2).mean(axis=axes, keepdims=True)
    return (v - mean) / np.sqrt(var + eps)


@ref("layer_norm")
def _(x, a):
    v, w, b = [np.asarray(e, dtype=np.float64) for e in x]
    D = w.ndim
    if D < 1 or D > v.ndim or v.shape[v.ndim - D:] != w.shape or b.shape != w.shape:
        raise Invalid("normalized shape")
    axes = tuple(range(v.ndim - D, v.ndim))
    return _normalise(v, axes, _eps(a, 1e-5)) * w + b


@ref("instance_norm")
def _(x, a):
    v, w, b = [np.asarray(e, dtype=np.float64) for e in x]
    nd = a["nd"]
    if v.ndim not in (nd + 1, nd + 2):
        raise Invalid("rank")
    cax = v.ndim - nd - 1
    C = v.shape[cax]
    if w.shape != (C,) or b.shape != (C,):
        raise Invalid("parameter shape")
    axes = tuple(range(v.ndim - nd, v.ndim))
    sh = _bshape(v.ndim, cax, C)
    return _normalise(v, axes, _eps(a, 1e-5)) * w.reshape(sh) + b.reshape(sh)


@ref("group_norm")
def _(x, a):
    v, w, b = [np.asarray(e, dtype=np.float64) for e in x]
    G = a["num_groups"]
    if v.ndim < 2:
        raise Invalid("rank")
    N, C = v.shape[:2]
    if G < 1 or C % G or w.shape != (C,) or b.shape != (C,):
        raise Invalid("groups")
    eps = _eps(a, 1e-5)
    out = np.zeros_like(v)
    cpg = C // G
    for n in range(N):
        for g in range(G):
            blk = v[n, g * cpg:(g + 1) * cpg]
            mean = blk.mean()
            var = ((blk - mean) ** 2).mean()
            out[n, g * cpg:(g + 1) * cpg] = (blk - mean) / math.sqrt(var + eps)
    sh = _bshape(v.ndim, 1, C)
    return out * w.reshape(sh) + b.reshape(sh)


# ---------------------------------------------------------------------------------------------
# linear / bilinear / distances
# ---------------------------------------------------------------------------------------------
@ref("linear")
def _(x, a):
    v, w = x[0], x[1]
    b = x[2] if len(x) > 2 else None
    if w.ndim not in (1, 2) or v.ndim < 1 or v.shape[-1] != w.shape[-1]:
        raise Invalid("shapes")
    batch = v.shape[:-1]
    nin = v.shape[-1]
    if w.ndim == 1:
        out = np.zeros(batch, dtype=np.float64)
        for bi in itertools.product(*[range(e) for e in batch]):
            out[bi] = sum(float(v[bi + (i,)]) * float(w[i]) for i in range(nin))
        if b is not None:
            raise Invalid("bias with 1-D weight not generated")
        return out
    nout = w.shape[0]
    if b is not None and b.shape != (nout,):
        raise Invalid("bias shape")
    out = np.zeros(batch + (nout,), dtype=np.float64)
    for bi in itertools.product(*[range(e) for e in batch]):
        for o in range(nout):
            acc = sum(float(v[bi + (i,)]) * float(w[o, i]) for i in range(nin))
            if b is not None:
                acc += float(b[o])
            out[bi + (o,)] = acc
    return out


@ref("bilinear")
def _(x, a):
    p, q, w = x[0], x[1], x[2]
    b = x[3] if len(x) > 3 else None
    if w.ndim != 3 or p.ndim < 1 or p.ndim != q.ndim or p.shape[:-1] != q.shape[:-1]:
        raise Invalid("shapes")
    nout, n1, n2 = w.shape
    if p.shape[-1] != n1 or q.shape[-1] != n2 or (b is not None and b.shape != (nout,)):
        raise Invalid("shapes")
    batch = p.shape[:-1]
    out = np.zeros(batch + (nout,), dtype=np.float64)
    for bi in itertools.product(*[range(e) for e in batch]):
        for o in range(nout):
            acc = 0.0
            for i in range(n1):
                for j in range(n2):
                    acc += float(p[bi + (i,)]) * float(w[o, i, j]) * float(q[bi + (j,)])
            if b is not None:
                acc += float(b[o])
            out[bi + (o,)] = acc
    return out


@ref("pairwise_distance")
def _(x, a):
    p, q = np.asarray(x[0], dtype=np.float64), np.asarray(x[1], dtype=np.float64)
    ord_ = a.get("ord")
    if ord_ is None:
        ord_, eps, keep = 2, 1e-6, False
    else:
        eps = float(a["eps"])
        keep = bool(a.get("keepdims"))
    if ord_ < 1:
        raise Invalid("ord")
    try:
        d = np.abs(p - q + eps)
    except ValueError as e:
        raise Invalid(str(e))
    return np.sum(d ** ord_, axis=-1, keepdims=keep) ** (1.0 / ord_)


@ref("cosine_similarity")
def _(x, a):
    p, q = np.asarray(x[0], dtype=np.float64), np.asarray(x[1], dtype=np.float64)
    try:
        p, q = np.broadcast_arrays(p, q)
    except ValueError as e:
        raise Invalid(str(e))
    axis = a.get("axis")
    if axis is None:
        axis = 1
    if not (-p.ndim <= axis < p.ndim):
        raise Invalid("axis")
    eps = _eps(a, 1e-8)
    n1 = np.maximum(np.sqrt(np.sum(p * p, axis=axis)), eps)
    n2 = np.maximum(np.sqrt(np.sum(q * q, axis=axis)), eps)
    return np.sum(p * q, axis=axis) / (n1 * n2)
