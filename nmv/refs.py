"""NumPy / Python reference implementations of the view operations (oracle side).

Every function takes (list of numpy input arrays, args dict) and returns a numpy
array, or raises Invalid when NumPy (or the documented definition) rejects the
arguments. Nothing in here calls nmtools.
"""
import itertools
import math

import numpy as np


class Invalid(Exception):
    pass


class OutOfDomain(Exception):
    """reference result lies outside the library's domain (zero-size array, ...)"""


REFS = {}


def ref(name):
    def deco(f):
        REFS[name] = f
        return f
    return deco


def _np(fn, *a, **k):
    try:
        return fn(*a, **k)
    except (ValueError, TypeError, IndexError, np.exceptions.AxisError, ZeroDivisionError) as e:
        raise Invalid(str(e))


def _axis(v):
    if v is None or isinstance(v, int):
        return v
    return tuple(v)


# ---- C03 ---------------------------------------------------------------
@ref("reshape")
def _(x, a):
    s = a["shape"]
    if any(e == 0 or e < -1 for e in s):
        raise Invalid("non-positive extent")
    return _np(np.reshape, x[0], tuple(s))


@ref("flatten")
def _(x, a):
    return x[0].reshape(-1)


@ref("squeeze")
def _(x, a):
    r = np.squeeze(x[0])
    if r.ndim == 0:
        # rank-0 array results are not representable by reshape-based views (the library's
        # rank-0 values are plain numbers); it answers Nothing. Outside the domain.
        raise OutOfDomain("rank-0 result")
    return r


@ref("transpose")
def _(x, a):
    return _np(np.transpose, x[0], a["axes"])


@ref("swapaxes")
def _(x, a):
    return _np(np.swapaxes, x[0], a["axis1"], a["axis2"])


@ref("moveaxis")
def _(x, a):
    return _np(np.moveaxis, x[0], a["source"], a["destination"])


@ref("expand_dims")
def _(x, a):
    return _np(np.expand_dims, x[0], _axis(a["axis"]))


@ref("atleast_1d")
def _(x, a):
    return np.atleast_1d(x[0])


@ref("atleast_2d")
def _(x, a):
    return np.atleast_2d(x[0])


@ref("atleast_nd")
def _(x, a):
    # docstring of index/atleast_nd.hpp: prepend ones until dim >= nd
    v = x[0]
    nd = a["nd"]
    if v.ndim >= nd:
        return v
    return v.reshape((1,) * (nd - v.ndim) + v.shape)


@ref("flip")
def _(x, a):
    return _np(np.flip, x[0], _axis(a["axis"]))


# ---- pipeline evaluation -------------------------------------------------
def make_array(ja):
    dt = np.float64 if ja.get("dt") == "f64" else np.int64
    return np.array(ja["data"], dtype=dt).reshape(ja["shape"])


def run_pipe(case):
    """returns ("ok", ndarray) | ("invalid", stage_index) | ("ood", stage_index)"""
    vals = [make_array(ja) for ja in case["arrays"]]
    for si, s in enumerate(case["stages"]):
        ins = [vals[k] for k in s["in"]]
        try:
            r = REFS[s["f"]](ins, s.get("a") or {})
        except Invalid:
            return ("invalid", si)
        except OutOfDomain:
            return ("ood", si)
        r = np.asarray(r)
        if r.size == 0:
            return ("ood", si)
        vals.append(r)
    return ("ok", vals[-1])


def compare_values(got_elems, exp, rt, tol=None):
    """exact for integers; floats: exact unless tol given (relative)"""
    flat = np.asarray(exp).reshape(-1)
    if len(got_elems) != flat.size:
        return "element count %d != %d" % (len(got_elems), flat.size)
    for k, (g, e) in enumerate(zip(got_elems, flat.tolist())):
        if isinstance(e, bool):
            e = int(e)
        if isinstance(g, float) or isinstance(e, float):
            g = float(g)
            e = float(e)
            if math.isnan(g) and math.isnan(e):
                continue
            if g == e:
                continue
            if tol is not None and abs(g - e) <= tol * max(1.0, abs(e)):
                continue
            return "element %d: got %r, reference %r" % (k, g, e)
        else:
            if g != e:
                return "element %d: got %r, reference %r" % (k, g, e)
    return None


def check_pipe(case, obs, tol=None, invalid_is_nothing=True):
    """generic oracle for a pipe case; returns failure string or None"""
    if "error" in obs:
        return "HARNESS-ERROR server: " + obs["error"]
    kind, val = run_pipe(case)
    if kind == "ood":
        return None
    if kind == "invalid":
        if obs.get("hv") is not False:
            return "reference rejects the arguments at stage %d but nmtools returned a value (shape %s)" % (val, obs.get("shape"))
        return None
    if obs.get("hv") is False:
        return "nmtools returned Nothing at stage %s for arguments the reference accepts (reference shape %s)" % (obs.get("failed_stage"), list(val.shape))
    if obs["shape"] != list(val.shape):
        return "shape %s != reference %s" % (obs["shape"], list(val.shape))
    f = compare_values(obs["elems"], val, obs.get("rt"), tol)
    if f:
        return f
    if obs.get("eval_issues"):
        return "eval differs from lazy view: %s" % obs["eval_issues"][:2]
    return None


# ---- C06 ---------------------------------------------------------------
@ref("broadcast_to")
def _(x, a):
    if any(e < 0 for e in a["shape"]):
        raise Invalid("non-positive extent")
    return _np(np.broadcast_to, x[0], tuple(a["shape"]))   # a zero extent gives a zero-size result: outside the domain (run_pipe)


REFS["broadcast_to_i"] = REFS["broadcast_to"]


@ref("broadcast_arrays2")
def _(x, a):
    return _np(np.broadcast_arrays, x[0], x[1])[a["k"]]


@ref("broadcast_arrays3")
def _(x, a):
    return _np(np.broadcast_arrays, x[0], x[1], x[2])[a["k"]]


def broadcast_shapes(shapes):
    """np.broadcast_shapes or None when incompatible"""
    try:
        return list(np.broadcast_shapes(*[tuple(s) for s in shapes]))
    except ValueError:
        return None


# ---- C04 ---------------------------------------------------------------
def _pos(v, what):
    vs = v if isinstance(v, list) else [v]
    if any(e <= 0 for e in vs):
        raise Invalid("non-positive " + what)


@ref("tile")
def _(x, a):
    _pos(a["reps"], "reps")
    return _np(np.tile, x[0], tuple(a["reps"]))


@ref("repeat")
def _(x, a):
    _pos(a["repeats"], "repeats")
    if isinstance(a["repeats"], list) and a["axis"] is not None and -x[0].ndim <= a["axis"] < x[0].ndim \
            and len(a["repeats"]) == 1 and x[0].shape[a["axis"]] != 1:
        # NumPy broadcasts a length-1 repeats list; the library documents len(repeats) == shape[axis]
        raise OutOfDomain("length-1 repeats list")
    return _np(np.repeat, x[0], a["repeats"], a["axis"])


@ref("roll")
def _(x, a):
    if isinstance(a["axis"], list):
        nd = x[0].ndim
        norm = [v % nd for v in a["axis"] if -nd <= v < nd]
        if len(norm) == len(a["axis"]) and len(set(norm)) != len(norm):
            # NumPy applies the shifts of a repeated axis cumulatively; the library documents no such rule
            raise OutOfDomain("repeated axis in roll")
        if isinstance(a["shift"], list) and len(a["shift"]) != len(a["axis"]):
            # NumPy broadcasts shift against axis; index::normalize_roll_length documents "same length"
            raise OutOfDomain("shift/axis length mismatch")
    return _np(np.roll, x[0], a["shift"] if isinstance(a["shift"], int) else tuple(a["shift"]), _axis(a["axis"]))


@ref("pad")
def _(x, a):
    # index/pad.hpp: ONNX order [b_0..b_{d-1}, e_0..e_{d-1}], constant fill
    v = x[0]
    pw = a["pad_width"]
    d = v.ndim
    if len(pw) != 2 * d:
        raise Invalid("pad width count")
    if any(p < 0 for p in pw):
        # ONNX Pad (whose width format the docstring adopts) allows negative widths (cropping); NumPy rejects them:
        # no agreed reference, outside the judged domain
        raise OutOfDomain("negative pad width")
    return np.pad(v, [(pw[i], pw[d + i]) for i in range(d)], constant_values=a["value"])


@ref("resize")
def _(x, a):
    # nearest-neighbour: source index floor(i * src / dst) per axis; same rank required, extents > 0
    v = x[0]
    dst = a["shape"]
    if len(dst) != v.ndim or any(e <= 0 for e in dst):
        raise Invalid("resize shape")
    idx = np.ix_(*[[(i * s) // t for i in range(t)] for s, t in zip(v.shape, dst)])
    return v[idx]


@ref("take")
def _(x, a):
    return _np(np.take, x[0], a["indices"], a["axis"])


@ref("compress")
def _(x, a):
    return _np(np.compress, a["condition"], x[0], a["axis"])


@ref("concatenate")
def _(x, a):
    return _np(np.concatenate, (x[0], x[1]), a["axis"])


@ref("stack")
def _(x, a):
    return _np(np.stack, (x[0], x[1]), a["axis"])


@ref("hstack")
def _(x, a):
    return _np(np.hstack, (x[0], x[1]))


@ref("vstack")
def _(x, a):
    return _np(np.vstack, (x[0], x[1]))


@ref("dstack")
def _(x, a):
    return _np(np.dstack, (x[0], x[1]))


@ref("column_stack")
def _(x, a):
    return _np(np.column_stack, (x[0], x[1]))


@ref("split")
def _(x, a):
    parts = _np(np.split, x[0], a["ios"], a["axis"])
    if a["k"] >= len(parts):
        raise Invalid("k")
    return parts[a["k"]]


@ref("sliding_window")
def _(x, a):
    ws = a["window_shape"]
    return _np(np.lib.stride_tricks.sliding_window_view, x[0], ws if isinstance(ws, int) else tuple(ws), _axis(a["axis"]))


@ref("expand")
def _(x, a):
    # view/expand.hpp: extent n + (n-1)*spacing on each listed axis, element k*(spacing+1) is source element k, rest = fill
    v = x[0]
    axes = a["axis"] if isinstance(a["axis"], list) else [a["axis"]]
    sp = a["spacing"] if isinstance(a["spacing"], list) else [a["spacing"]] * len(axes)
    if len(sp) != len(axes) or any(s < 0 for s in sp):
        raise Invalid("spacing")
    nax = []
    for ax in axes:
        if not (-v.ndim <= ax < v.ndim):
            raise Invalid("axis")
        nax.append(ax % v.ndim)
    if len(set(nax)) != len(nax):
        raise Invalid("duplicate axis")
    shape = list(v.shape)
    for ax, s in zip(nax, sp):
        shape[ax] = shape[ax] + (shape[ax] - 1) * s
    out = np.full(shape, a["fill"], dtype=v.dtype)
    sl = [slice(None)] * v.ndim
    for ax, s in zip(nax, sp):
        sl[ax] = slice(None, None, s + 1)
    out[tuple(sl)] = v
    return out


@ref("diagonal")
def _(x, a):
    return _np(np.diagonal, x[0], a["offset"], a["axis1"], a["axis2"])


@ref("diagflat")
def _(x, a):
    return _np(np.diagflat, x[0], a["k"])


@ref("tril")
def _(x, a):
    if x[0].ndim < 2:
        raise OutOfDomain("numpy promotes 1-d input to 2-d")
    return _np(np.tril, x[0], a["k"])


@ref("triu")
def _(x, a):
    if x[0].ndim < 2:
        raise OutOfDomain("numpy promotes 1-d input to 2-d")
    return _np(np.triu, x[0], a["k"])


@ref("where")
def _(x, a):
    return _np(np.where, x[0] != 0, x[1], x[2])


@ref("full_like")
def _(x, a):
    return np.full_like(x[0], a["fill"])


@ref("zeros_like")
def _(x, a):
    return np.zeros_like(x[0])


@ref("ones_like")
def _(x, a):
    return np.ones_like(x[0])


@ref("arange")
def _(x, a):
    args = [v for v in (a["start"], a["stop"], a["step"])]
    if a["step"] is not None and a["step"] == 0:
        raise Invalid("zero step")
    if a["start"] is None:
        r = np.arange(a["stop"])
    elif a["step"] is None:
        r = np.arange(a["start"], a["stop"])
    else:
        r = np.arange(a["start"], a["stop"], a["step"])
    return r.astype(np.float64 if a["dt"] == "f64" else np.int64)


@ref("linspace")
def _(x, a):
    if a["num"] <= 0:
        raise OutOfDomain("empty")
    return _np(np.linspace, a["start"], a["stop"], a["num"], endpoint=a["endpoint"])


@ref("eye")
def _(x, a):
    return _np(np.eye, a["N"], a["M"], a["k"], dtype=np.int64)


@ref("identity")
def _(x, a):
    return np.identity(a["N"], dtype=np.int64)


@ref("tri")
def _(x, a):
    return _np(np.tri, a["N"], a["M"], a["k"], dtype=np.int64)


@ref("full")
def _(x, a):
    _pos(a["shape"], "extent")
    return np.full(a["shape"], a["fill"], dtype=np.float64 if a["dt"] == "f64" else np.int64)


@ref("zeros")
def _(x, a):
    _pos(a["shape"], "extent")
    return np.zeros(a["shape"], dtype=np.float64 if a["dt"] == "f64" else np.int64)


@ref("ones")
def _(x, a):
    _pos(a["shape"], "extent")
    return np.ones(a["shape"], dtype=np.float64 if a["dt"] == "f64" else np.int64)


# ---- element-wise helpers used in pipelines ------------------------------
def _bin(fn):
    def r(x, a):
        return _np(fn, x[0], x[1])
    return r


REFS["add"] = _bin(np.add)
REFS["subtract"] = _bin(np.subtract)
REFS["multiply"] = _bin(np.multiply)
REFS["maximum"] = _bin(np.maximum)
REFS["minimum"] = _bin(np.minimum)
REFS["negative"] = lambda x, a: -x[0]
REFS["square"] = lambda x, a: x[0] * x[0]
REFS["add_scalar"] = lambda x, a: x[0] + a["s"]
REFS["rsub_scalar"] = lambda x, a: a["s"] - x[0]
REFS["mul_scalar"] = lambda x, a: x[0] * a["s"]


# ---- slices (C05) as pipeline stages ------------------------------------
def _slice_ref(x, a):
    def spec(sp):
        if isinstance(sp, int):
            return sp
        if sp == "...":
            return Ellipsis
        return slice(sp[0], sp[1], sp[2] if len(sp) == 3 else None)
    try:
        return x[0][tuple(spec(s) for s in a["slices"])]
    except IndexError as e:
        raise Invalid(str(e))


for _n in ["slice1", "slice2_01", "slice2_23", "slice2_45", "slice2_67", "slice2_89", "slice3_0", "slice3_3", "slice3_4", "slice3_7",
           "slice3_8", "slice3_9", "dslice_tri", "dslice_either_tri", "dslice_either_nni", "dslice_ni", "dslice_ii"]:
    REFS[_n] = _slice_ref
