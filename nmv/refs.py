"""NumPy / Python reference implementations of the view operations (oracle side).

Every function takes (list of numpy input arrays, args dict) and returns a numpy
array, or raises Invalid when NumPy (or the documented definition) rejects the
arguments. Nothing in here calls nmtools.
"""
import itertools
import math

import numpy as np


class Invalid(Exception):
    pass


class OutOfDomain(Exception):
    """reference result lies outside the library's domain (zero-size array, ...)"""


REFS = {}


def ref(name):
    def deco(f):
        REFS[name] = f
        return f
    return deco


def _np(fn, *a, **k):
    try:
        return fn(*a, **k)
    except (ValueError, TypeError, IndexError, np.exceptions.AxisError, ZeroDivisionError) as e:
        raise Invalid(str(e))


def _axis(v):
    if v is None or isinstance(v, int):
        return v
    return tuple(v)


# ---- C03 ---------------------------------------------------------------
@ref("reshape")
def _(x, a):
    s = a["shape"]
    if any(e == 0 or e < -1 for e in s):
        raise Invalid("non-positive extent")
    return _np(np.reshape, x[0], tuple(s))


@ref("flatten")
def _(x, a):
    return x[0].reshape(-1)


@ref("squeeze")
def _(x, a):
    r = np.squeeze(x[0])
    if r.ndim == 0:
        # rank-0 array results are not representable by reshape-based views (the library's
        # rank-0 values are plain numbers); it answers Nothing. Outside the domain.
        raise OutOfDomain("rank-0 result")
    return r


@ref("transpose")
def _(x, a):
    return _np(np.transpose, x[0], a["axes"])


@ref("swapaxes")
def _(x, a):
    return _np(np.swapaxes, x[0], a["axis1"], a["axis2"])


@ref("moveaxis")
def _(x, a):
    return _np(np.moveaxis, x[0], a["source"], a["destination"])


@ref("expand_dims")
def _(x, a):
    return _np(np.expand_dims, x[0], _axis(a["axis"]))


@ref("atleast_1d")
def _(x, a):
    return np.atleast_1d(x[0])


@ref("atleast_2d")
def _(x, a):
    return np.atleast_2d(x[0])


@ref("atleast_nd")
def _(x, a):
    # docstring of index/atleast_nd.hpp: prepend ones until dim >= nd
    v = x[0]
    nd = a["nd"]
    if v.ndim >= nd:
        return v
    return v.reshape((1,) * (nd - v.ndim) + v.shape)


@ref("flip")
def _(x, a):
    return _np(np.flip, x[0], _axis(a["axis"]))


# ---- pipeline evaluation -------------------------------------------------
def make_array(ja):
    dt = np.float64 if ja.get("dt") == "f64" else np.int64
    return np.array(ja["data"], dtype=dt).reshape(ja["shape"])


def run_pipe(case):
    """returns ("ok", ndarray) | ("invalid", stage_index) | ("ood", stage_index)"""
    vals = [make_array(ja) for ja in case["arrays"]]
    for si, s in enumerate(case["stages"]):
        ins = [vals[k] for k in s["in"]]
        try:
            r = REFS[s["f"]](ins, s.get("a") or {})
        except Invalid:
            return ("invalid", si)
        except OutOfDomain:
            return ("ood", si)
        r = np.asarray(r)
        if r.size == 0:
            return ("ood", si)
        vals.append(r)
    return ("ok", vals[-1])


def compare_values(got_elems, exp, rt, tol=None):
    """exact for integers; floats: exact unless tol given (relative)"""
    flat = np.asarray(exp).reshape(-1)
    if len(got_elems) != flat.size:
        return "element count %d != %d" % (len(got_elems), flat.size)
    for k, (g, e) in enumerate(zip(got_elems, flat.tolist())):
        if isinstance(e, bool):
            e = int(e)
        if isinstance(g, float) or isinstance(e, float):
            g = float(g)
            e = float(e)
            if math.isnan(g) and math.isnan(e):
                continue
            if g == e:
                continue
            if tol is not None and abs(g - e) <= tol * max(1.0, abs(e)):
                continue
            return "element %d: got %r, reference %r" % (k, g, e)
        else:
            if g != e:
                return "element %d: got %r, reference %r" % (k, g, e)
    return None


def check_pipe(case, obs, tol=None, invalid_is_nothing=True):
    """generic oracle for a pipe case; returns failure string or None"""
    if "error" in obs:
        return "HARNESS-ERROR server: " + obs["error"]
    kind, val = run_pipe(case)
    if kind == "ood":
        return None
    if kind == "invalid":
        if obs.get("hv") is not False:
            return "reference rejects the arguments at stage %d but nmtools returned a value (shape %s)" % (val, obs.get("shape"))
        return None
    if obs.get("hv") is False:
        return "nmtools returned Nothing at stage %s for arguments the reference accepts (reference shape %s)" % (obs.get("failed_stage"), list(val.shape))
    if obs["shape"] != list(val.shape):
        return "shape %s != reference %s" % (obs["shape"], list(val.shape))
    f = compare_values(obs["elems"], val, obs.get("rt"), tol)
    if f:
        return f
    if obs.get("eval_issues"):
        return "eval differs from lazy view: %s" % obs["eval_issues"][:2]
    return None


# ---- C06 ---------------------------------------------------------------
@ref("broadcast_to")
def _(x, a):
    if any(e <= 0 for e in a["shape"]):
        raise Invalid("non-positive extent")
    return _np(np.broadcast_to, x[0], tuple(a["shape"]))


REFS["broadcast_to_i"] = REFS["broadcast_to"]


@ref("broadcast_arrays2")
def _(x, a):
    return _np(np.broadcast_arrays, x[0], x[1])[a["k"]]


@ref("broadcast_arrays3")
def _(x, a):
    return _np(np.broadcast_arrays, x[0], x[1], x[2])[a["k"]]


def broadcast_shapes(shapes):
    """np.broadcast_shapes or None when incompatible"""
    try:
        return list(np.broadcast_shapes(*[tuple(s) for s in shapes]))
    except ValueError:
        return None
