"""NumPy references of the linear-algebra views (C16). Written from the NumPy
documentation only; nothing in here looks at the nmtools implementation.

All functions work on the int64 arrays built by refs.make_array, so every sum of
products is exact.
"""
import numpy as np

from .refs import ref, Invalid, OutOfDomain, _np  # noqa: F401  (re-exported names used by callers)


def _vecdot(a, b):
    if hasattr(np, "vecdot"):
        return np.vecdot(a, b)
    # (..., n), (..., n) -> (...): broadcast the leading axes, contract the last one
    if a.ndim == 0 or b.ndim == 0 or a.shape[-1] != b.shape[-1]:
        raise ValueError("vecdot: core dimension mismatch")
    return np.einsum("...i,...i->...", a, b)


@ref("matmul")
def _(x, a):
    return _np(np.matmul, x[0], x[1])


@ref("matmulv2")
def _(x, a):
    return _np(np.matmul, x[0], x[1])


@ref("dot")
def _(x, a):
    return _np(np.dot, x[0], x[1])


@ref("inner")
def _(x, a):
    return _np(np.inner, x[0], x[1])


@ref("outer")
def _(x, a):
    return _np(np.outer, x[0], x[1])


@ref("vecdot")
def _(x, a):
    return _np(_vecdot, x[0], x[1])


def _tensordot(x, a):
    ax = a["axes"]
    if isinstance(ax, int):
        if ax < 0:
            raise Invalid("negative axes count")
        return _np(np.tensordot, x[0], x[1], ax)
    l, r = ax
    if len(l) != len(r):
        raise Invalid("axes lists of different length")
    return _np(np.tensordot, x[0], x[1], (list(l), list(r)))


@ref("tensordot")
def _(x, a):
    return _tensordot(x, a)


@ref("tensordot_ct")
def _(x, a):
    return _tensordot(x, a)


@ref("kron")
def _(x, a):
    return _np(np.kron, x[0], x[1])


@ref("trace")
def _(x, a):
    v = x[0]
    # np.trace of an empty diagonal is 0; the diagonal itself is a zero-size array, which the
    # library cannot represent -> outside the domain
    d = _np(np.diagonal, v, a.get("offset", 0), a.get("axis1", 0), a.get("axis2", 1))
    if d.size == 0:
        raise OutOfDomain("empty diagonal")
    return _np(np.trace, v, a.get("offset", 0), a.get("axis1", 0), a.get("axis2", 1))


@ref("diagonal")
def _(x, a):
    return _np(np.diagonal, x[0], a.get("offset", 0), a.get("axis1", 0), a.get("axis2", 1))
