"""References for reductions / accumulations (C08): explicit left folds in increasing index order."""
import itertools
import math

import numpy as np

from .refs import ref, Invalid, OutOfDomain, REFS


def norm_axes(axis, d):
    if axis is None:
        return list(range(d))
    ax = [axis] if isinstance(axis, int) else list(axis)
    out = []
    for a in ax:
        if not (-d <= a < d):
            raise Invalid("axis out of range")
        out.append(a % d)
    if len(set(out)) != len(out):
        raise Invalid("duplicate axis")
    return out


PYOPS = {
    "add": lambda a, b: a + b,
    "multiply": lambda a, b: a * b,
    "subtract": lambda a, b: a - b,
    "maximum": lambda a, b: a if a >= b else b,
    "minimum": lambda a, b: a if a <= b else b,
    "left_shift": lambda a, b: a << b,
    "right_shift": lambda a, b: a >> b,
    "logical_and": lambda a, b: int(bool(a) and bool(b)),
    "logical_or": lambda a, b: int(bool(a) or bool(b)),
    "logical_xor": lambda a, b: int(bool(a) != bool(b)),
}
PYOPS["fmax"] = PYOPS["amax"] = PYOPS["maximum"]
PYOPS["fmin"] = PYOPS["amin"] = PYOPS["minimum"]


def keep_bool(v):
    if v is None or v == "ct_false" or v is False:
        return False
    return True


def fold(x, op, axis, initial=None, keepdims=None, dtype=None):
    f = PYOPS[op]
    d = x.ndim
    axes = sorted(norm_axes(axis, d))
    kd = keep_bool(keepdims)
    conv = (lambda v: v)
    if dtype in ("f64", "f32"):
        conv = float
    elif dtype in ("i64", "i32"):
        conv = int
    keep = [i for i in range(d) if i not in axes]
    out_shape = [x.shape[i] for i in keep]
    res = np.empty(out_shape, dtype=object)
    xl = x.tolist() if d else x.item()
    for oi in itertools.product(*[range(s) for s in out_shape]):
        acc = None if initial is None else conv(initial)
        for ri in itertools.product(*[range(x.shape[a]) for a in axes]):
            idx = [0] * d
            for k, i in zip(keep, oi):
                idx[k] = i
            for k, i in zip(axes, ri):
                idx[k] = i
            v = conv(x[tuple(idx)].item())
            acc = v if acc is None else f(acc, v)
        res[oi] = acc
    if kd:
        full = [1 if i in axes else x.shape[i] for i in range(d)]
        res = res.reshape(full)
    isf = any(isinstance(v, float) for v in res.reshape(-1).tolist()) if res.size else False
    return np.array(res.tolist(), dtype=np.float64 if isf else np.int64).reshape(res.shape)


def accumulate(x, op, axis, dtype=None):
    f = PYOPS[op]
    d = x.ndim
    if not (-d <= axis < d):
        raise Invalid("axis")
    ax = axis % d
    conv = float if dtype == "f64" else (int if dtype == "i64" else (lambda v: v))
    out = np.empty(x.shape, dtype=object)
    for oi in itertools.product(*[range(s) for i, s in enumerate(x.shape) if i != ax]):
        acc = None
        for k in range(x.shape[ax]):
            idx = list(oi[:ax]) + [k] + list(oi[ax:])
            v = conv(x[tuple(idx)].item())
            acc = v if acc is None else f(acc, v)
            out[tuple(idx)] = acc
    isf = x.dtype.kind == "f" or dtype == "f64"
    return np.array(out.tolist(), dtype=np.float64 if isf else np.int64).reshape(x.shape)


for _name in ("add", "multiply", "subtract", "maximum", "minimum", "fmax", "fmin", "left_shift", "right_shift",
              "logical_and", "logical_or", "logical_xor"):
    def _mk(n):
        def r(x, a):
            return fold(x[0], n, a.get("axis"), a.get("initial"), a.get("keepdims"), a.get("dtype"))
        return r
    REFS["reduce_" + _name] = _mk(_name)

for _name in ("add", "multiply", "subtract", "maximum", "minimum"):
    def _mk2(n):
        def r(x, a):
            return accumulate(x[0], n, a["axis"], a.get("dtype"))
        return r
    REFS["accumulate_" + _name] = _mk2(_name)

REFS["amax"] = lambda x, a: fold(x[0], "maximum", a.get("axis"), a.get("initial"), a.get("keepdims"), a.get("dtype"))
REFS["amin"] = lambda x, a: fold(x[0], "minimum", a.get("axis"), a.get("initial"), a.get("keepdims"), a.get("dtype"))
REFS["sum"] = REFS["reduce_add"]
REFS["prod"] = REFS["reduce_multiply"]
REFS["cumsum"] = REFS["accumulate_add"]
REFS["cumprod"] = REFS["accumulate_multiply"]


def _kd_np(a):
    return keep_bool(a.get("keepdims"))


def _ax_np(a, d):
    ax = a.get("axis")
    if ax is None:
        return None
    return tuple(norm_axes(ax, d))


@ref("mean")
def _(x, a):
    return np.mean(x[0].astype(np.float64), axis=_ax_np(a, x[0].ndim), keepdims=_kd_np(a))


@ref("var")
def _(x, a):
    v = x[0].astype(np.float64)
    ax = _ax_np(a, v.ndim)
    n = v.size if ax is None else int(np.prod([v.shape[i] for i in ax]))
    if n - a["ddof"] <= 0:
        raise OutOfDomain("ddof >= count")
    return np.var(v, axis=ax, ddof=a["ddof"], keepdims=_kd_np(a))


@ref("stddev")
def _(x, a):
    v = x[0].astype(np.float64)
    ax = _ax_np(a, v.ndim)
    n = v.size if ax is None else int(np.prod([v.shape[i] for i in ax]))
    if n - a["ddof"] <= 0:
        raise OutOfDomain("ddof >= count")
    return np.std(v, axis=ax, ddof=a["ddof"], keepdims=_kd_np(a))


@ref("vector_norm")
def _(x, a):
    v = np.abs(x[0].astype(np.float64))
    o = a["ord"]
    return np.sum(v ** o, axis=_ax_np(a, v.ndim), keepdims=_kd_np(a)) ** (1.0 / o)


@ref("trace")
def _(x, a):
    d = x[0].ndim
    for k in ("axis1", "axis2"):
        if not (-d <= a[k] < d):
            raise Invalid("axis")
    if a["axis1"] % d == a["axis2"] % d:
        raise Invalid("same axis")
    r = np.trace(x[0], a["offset"], a["axis1"], a["axis2"])
    return r
