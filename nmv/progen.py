"""E2 — generated C++ programs (type-level configurations).

A logical case is a pipe-format AST ({"arrays":[...], "stages":[...]}, same as E1, so nmv.refs gives the NumPy
expectation). A *rendering* fixes the static kinds: the storage kind of every leaf array and the container kind of
every shape-like / axis attribute. Renderings are emitted as blocks of one translation unit, compiled (cached by
content + include-tree hash), executed, and their printed observations parsed.
"""
import hashlib
import json
import os
import subprocess
from concurrent.futures import ThreadPoolExecutor

from . import build

CFG = {
    "gcc": dict(cxx="g++", flags=["-std=c++17", "-O0", "-g0", "-w", build.GUARD, "-fsanitize=address,undefined", "-fno-sanitize-recover=undefined"]),
    "clang": dict(cxx="clang++", flags=["-std=c++17", "-O0", "-g0", "-w", build.GUARD]),
    # with sanitizers as well: memory errors of the STL-free containers are otherwise heap-state dependent (a free() of a garbage pointer
    # showed up only in programs with >= 4 renderings)
    "nostl": dict(cxx="g++", flags=["-std=c++17", "-O0", "-g0", "-w", build.GUARD, "-DNMTOOLS_DISABLE_STL", "-fsanitize=address,undefined", "-fno-sanitize-recover=undefined"]),
}
STL_ONLY_LEAVES = {"std_array", "std_vector"}

NDARRAY_KINDS = [s + "_" + b for s in ("cs", "fs", "hs", "ds", "ls") for b in ("fb", "hb", "db")]
# nested std::vector is not offered: the library marks its support as to-be-removed (utility/shape.hpp) and the property does not list it
LEAF_KINDS = ["raw"] + NDARRAY_KINDS + ["fixed_ndarray", "hybrid_ndarray", "dynamic_ndarray", "std_array"]
# static knowledge carried by each leaf kind: shape knowledge, size knowledge
LEAF_STATIC = {"raw": ("const", "fixed"), "std_array": ("const", "fixed"), "fixed_ndarray": ("const", "fixed"),
               "hybrid_ndarray": ("fixeddim", "bounded"), "dynamic_ndarray": ("dyn", "dyn"), "std_vector": ("dyn", "dyn")}
for _k in NDARRAY_KINDS:
    LEAF_STATIC[_k] = ({"cs": "const", "fs": "fixeddim", "hs": "boundeddim", "ds": "dyn", "ls": "clipped"}[_k[:2]],
                       {"fb": "fixed", "hb": "bounded", "db": "dyn"}[_k[3:]])

IDX_KINDS = ["ct", "cl", "arr", "carr", "vec", "sv"]


def ctype(dt):
    return {"i32": "int", "f64": "double", "f32": "float", "i64": "long", "u64": "size_t", "i8": "int8_t"}[dt]


def nested(data, shape, fmt):
    if not shape:
        return fmt(data[0])
    if len(shape) == 1:
        return "{" + ",".join(fmt(x) for x in data) + "}"
    step = len(data) // shape[0]
    return "{" + ",".join(nested(data[i * step:(i + 1) * step], shape[1:], fmt) for i in range(shape[0])) + "}"


def lit(dt):
    if dt in ("f64", "f32"):
        return lambda x: repr(float(x)) + ("f" if dt == "f32" else "")
    return lambda x: str(int(x))


def ct_lit(v):
    return '"%d"_ct' % v if v < 0 else "%d_ct" % v


def render_idx(values, kind, name, pre, elem="int"):
    """C++ expression for an index-array attribute; may append declarations to `pre`"""
    n = len(values)
    vs = ",".join(str(int(v)) for v in values)
    if kind == "ct":
        return "nmtools_tuple{" + ",".join(ct_lit(v) for v in values) + "}"
    if kind == "cl":
        if any(v < 0 for v in values):
            return None
        return "nmtools_tuple{" + ",".join("nm::clipped_size_t<%d>(%d)" % (max(v, 1) + 1, v) for v in values) + "}"
    if kind == "arr":
        return "nmtools_array<%s,%d>{%s}" % (elem, n, vs)
    if kind == "carr":
        pre.append("%s %s[%d] = {%s};" % (elem, name, n, vs))
        return name
    if kind == "vec":
        pre.append("nmtools_list<%s> %s; %s.resize(%d); { %s t_[%d] = {%s}; for (int i_=0;i_<%d;i_++) nm::at(%s,i_) = t_[i_]; }" % (elem, name, name, n, elem, n, vs, n, name))
        return name
    if kind == "sv":
        pre.append("nmtools_static_vector<%s,8> %s; %s.resize(%d); { %s t_[%d] = {%s}; for (int i_=0;i_<%d;i_++) nm::at(%s,i_) = t_[i_]; }" % (elem, name, name, n, elem, n, vs, n, name))
        return name
    raise KeyError(kind)


def render_scalar(v, kind):
    if kind == "ct":
        return ct_lit(v)
    if kind == "int":
        return "(int)%d" % v
    if kind == "size_t":
        return "(size_t)%d" % v if v >= 0 else None
    if kind == "i8":
        return "(int8_t)%d" % v
    raise KeyError(kind)


def render_leaf(i, arr, kind, pre):
    """declare leaf array a{i}; returns the variable name or None when the kind cannot hold it"""
    shape, data, dt = arr["shape"], arr["data"], arr.get("dt", "i32")
    T = ctype(dt)
    n = "a%d" % i
    dims = "".join("[%d]" % e for e in shape)
    rawdecl = "%s %s_raw%s = %s;" % (T, n, dims, nested(data, shape, lit(dt)))
    size = 1
    for e in shape:
        size *= e
    if kind == "raw":
        pre.append("%s %s%s = %s;" % (T, n, dims, nested(data, shape, lit(dt))))
    elif kind in NDARRAY_KINDS:
        pre.append(rawdecl)
        pre.append("auto %s = nm::cast(%s_raw, na::kind::ndarray_%s);" % (n, n, kind))
    elif kind == "fixed_ndarray":
        flat = "{" + ",".join(lit(dt)(x) for x in data) + "}"
        pre.append("na::fixed_ndarray<%s,%s> %s; pg::fill<decltype(%s),%s>(%s, %s);" % (T, ",".join(map(str, shape)), n, n, T, n, flat))
    elif kind == "hybrid_ndarray":
        flat = "{" + ",".join(lit(dt)(x) for x in data) + "}"
        pre.append("na::hybrid_ndarray<%s,%d,%d> %s; %s.resize(%s); pg::fill<decltype(%s),%s>(%s, %s);" % (T, size + 3, len(shape), n, n, ",".join("(size_t)%d" % e for e in shape), n, T, n, flat))
    elif kind == "dynamic_ndarray":
        flat = "{" + ",".join(lit(dt)(x) for x in data) + "}"
        pre.append("na::dynamic_ndarray<%s> %s; %s.resize(%s); pg::fill<decltype(%s),%s>(%s, %s);" % (T, n, n, ",".join("(size_t)%d" % e for e in shape), n, T, n, flat))
    elif kind == "std_array":
        t = T
        for e in reversed(shape):
            t = "std::array<%s,%d>" % (t, e)
        pre.append("%s %s = %s;" % (t, n, nested_std_array(data, shape, lit(dt))))
    elif kind == "std_vector":
        t = T
        for e in shape:
            t = "std::vector<%s>" % t
        pre.append("%s %s = %s;" % (t, n, nested(data, shape, lit(dt))))
    else:
        raise KeyError(kind)
    return n


def nested_std_array(data, shape, fmt):
    if len(shape) == 1:
        return "{{" + ",".join(fmt(x) for x in data) + "}}"
    step = len(data) // shape[0]
    return "{{" + ",".join(nested_std_array(data[i * step:(i + 1) * step], shape[1:], fmt) for i in range(shape[0])) + "}}"


# ---------------------------------------------------------------------------------------------
# op renderers: (input expr names, args, attribute kinds, pre, uid) -> (view expr, eval expr or None, includes)
# attribute kinds: dict attr-name -> kind
# ---------------------------------------------------------------------------------------------
def _inc(*names):
    return ["nmtools/array/array/%s.hpp" % n for n in names]


def r_transpose(x, a, k, pre, u):
    if a["axes"] is None:
        return "view::transpose(%s)" % x[0], "na::transpose(%s)" % x[0], _inc("transpose")
    e = render_idx(a["axes"], k.get("axes", "arr"), "ax" + u, pre)
    return (None if e is None else "view::transpose(%s,%s)" % (x[0], e)), "na::transpose(%s,%s)" % (x[0], e), _inc("transpose")


def r_reshape(x, a, k, pre, u):
    kind = k.get("shape", "arr")
    if kind == "cl" and -1 in a["shape"]:
        return None, None, []
    e = render_idx(a["shape"], kind, "sh" + u, pre)
    return (None if e is None else "view::reshape(%s,%s)" % (x[0], e)), "na::reshape(%s,%s)" % (x[0], e), _inc("reshape")


def r_flatten(x, a, k, pre, u):
    return "view::flatten(%s)" % x[0], "na::flatten(%s)" % x[0], _inc("flatten")


def r_squeeze(x, a, k, pre, u):
    return "view::squeeze(%s)" % x[0], "na::squeeze(%s)" % x[0], _inc("squeeze")


def r_expand_dims(x, a, k, pre, u):
    ax = a["axis"]
    if isinstance(ax, int):
        e = render_scalar(ax, k.get("axis", "int"))
    else:
        e = render_idx(ax, k.get("axis", "arr"), "ax" + u, pre)
    return (None if e is None else "view::expand_dims(%s,%s)" % (x[0], e)), "na::expand_dims(%s,%s)" % (x[0], e), _inc("expand_dims")


def r_flip(x, a, k, pre, u):
    ax = a["axis"]
    if ax is None:
        e = "nm::None"
    elif isinstance(ax, int):
        e = render_scalar(ax, k.get("axis", "int"))
    else:
        e = render_idx(ax, k.get("axis", "arr"), "ax" + u, pre)
    return (None if e is None else "view::flip(%s,%s)" % (x[0], e)), "na::flip(%s,%s)" % (x[0], e), _inc("flip")


def r_tile(x, a, k, pre, u):
    e = render_idx(a["reps"], k.get("reps", "arr"), "rp" + u, pre)
    return (None if e is None else "view::tile(%s,%s)" % (x[0], e)), "na::tile(%s,%s)" % (x[0], e), _inc("tile")


def r_broadcast_to(x, a, k, pre, u):
    e = render_idx(a["shape"], k.get("shape", "arr"), "sh" + u, pre, elem="size_t")
    return (None if e is None else "view::broadcast_to(%s,%s)" % (x[0], e)), "na::broadcast_to(%s,%s)" % (x[0], e), _inc("broadcast_to")


def r_moveaxis(x, a, k, pre, u):
    s = render_scalar(a["source"], k.get("source", "int"))
    d = render_scalar(a["destination"], k.get("destination", "int"))
    if s is None or d is None:
        return None, None, []
    return "view::moveaxis(%s,%s,%s)" % (x[0], s, d), "na::moveaxis(%s,%s,%s)" % (x[0], s, d), _inc("moveaxis")


def _binary(name):
    def r(x, a, k, pre, u):
        return "view::%s(%s,%s)" % (name, x[0], x[1]), "na::%s(%s,%s)" % (name, x[0], x[1]), ["nmtools/array/array/ufuncs/%s.hpp" % name]
    return r


def r_concatenate(x, a, k, pre, u):
    ax = a["axis"]
    e = "nm::None" if ax is None else render_scalar(ax, k.get("axis", "int"))
    return (None if e is None else "view::concatenate(%s,%s,%s)" % (x[0], x[1], e)), "na::concatenate(%s,%s,%s)" % (x[0], x[1], e), _inc("concatenate")


def r_reduce(fn, viewname):
    def r(x, a, k, pre, u):
        ax = a.get("axis")
        if ax is None:
            e = "nm::None"
        elif isinstance(ax, int):
            e = render_scalar(ax, k.get("axis", "int"))
        else:
            e = render_idx(ax, k.get("axis", "arr"), "ax" + u, pre)
        if e is None:
            return None, None, []
        kd = a.get("keepdims")
        kde = {None: None, "ct_false": "nm::False", "ct_true": "nm::True", True: "true", False: "false"}[kd]
        if kde is None:
            return "view::%s(%s,%s)" % (viewname, x[0], e), "na::%s(%s,%s)" % (fn, x[0], e), _inc(fn)
        return "view::%s(%s,%s,nm::None,nm::None,%s)" % (viewname, x[0], e, kde), "na::%s(%s,%s,nm::None,nm::None,%s)" % (fn, x[0], e, kde), _inc(fn)
    return r


def r_repeat(x, a, k, pre, u):
    rp, ax = a["repeats"], a["axis"]
    if isinstance(rp, int):
        r = render_scalar(rp, k.get("repeats", "int"))
    else:
        r = render_idx(rp, k.get("repeats", "arr"), "rp" + u, pre)
    e = "nm::None" if ax is None else render_scalar(ax, k.get("axis", "int"))
    if r is None or e is None:
        return None, None, []
    return "view::repeat(%s,%s,%s)" % (x[0], r, e), "na::repeat(%s,%s,%s)" % (x[0], r, e), _inc("repeat")


def r_diagonal(x, a, k, pre, u):
    sk = k.get("axis1", "int")
    o, a1, a2 = render_scalar(a["offset"], sk), render_scalar(a["axis1"], sk), render_scalar(a["axis2"], sk)
    if o is None or a1 is None or a2 is None:
        return None, None, []
    return "view::diagonal(%s,%s,%s,%s)" % (x[0], o, a1, a2), "na::diagonal(%s,%s,%s,%s)" % (x[0], o, a1, a2), _inc("diagonal")


def r_swapaxes(x, a, k, pre, u):
    sk = k.get("axis1", "int")
    a1, a2 = render_scalar(a["axis1"], sk), render_scalar(a["axis2"], sk)
    if a1 is None or a2 is None:
        return None, None, []
    return "view::swapaxes(%s,%s,%s)" % (x[0], a1, a2), "na::swapaxes(%s,%s,%s)" % (x[0], a1, a2), _inc("swapaxes")


def r_matmul(x, a, k, pre, u):
    return "view::matmul(%s,%s)" % (x[0], x[1]), "na::matmul(%s,%s)" % (x[0], x[1]), _inc("matmul")


RENDER = {
    "transpose": r_transpose, "reshape": r_reshape, "flatten": r_flatten, "squeeze": r_squeeze, "expand_dims": r_expand_dims,
    "flip": r_flip, "tile": r_tile, "broadcast_to": r_broadcast_to, "moveaxis": r_moveaxis,
    "add": _binary("add"), "multiply": _binary("multiply"), "subtract": _binary("subtract"), "maximum": _binary("maximum"),
    "concatenate": r_concatenate, "sum": r_reduce("sum", "sum"), "prod": r_reduce("prod", "prod"), "matmulv2": None,
    "repeat": r_repeat, "diagonal": r_diagonal, "swapaxes": r_swapaxes,
}


def render_view_block(rid, case, leaf_kinds, attr_kinds, what=("obs", "static", "eval", "size")):
    """one `{...}` block that builds the composition and emits its record; returns (text, includes) or None if not renderable"""
    pre = []
    incs = set()
    names = []
    for i, arr in enumerate(case["arrays"]):
        names.append(render_leaf(i, arr, leaf_kinds[i], pre))
    exprs = list(names)
    last_eval = None
    for si, s in enumerate(case["stages"]):
        f = RENDER.get(s["f"])
        if f is None:
            return None
        ins = [exprs[j] for j in s["in"]]
        ve, ee, inc = f(ins, s.get("a") or {}, (attr_kinds[si] if si < len(attr_kinds) else {}) or {}, pre, "%d" % si)
        if ve is None:
            return None
        incs.update(inc)
        v = "v%d" % si
        pre.append("auto %s = %s;" % (v, ve))
        exprs.append(v)
        last_eval = ee
    final = exprs[-1]
    parts = []
    if "obs" in what:
        parts.append('"\\"obs\\":" + pg::obs(%s)' % final)
    if "static" in what:
        parts.append('",\\"static\\":" + pg::static_facts<decltype(%s)>()' % final)
    if "size" in what:
        parts.append('",\\"rt\\":" + pg::runtime_facts(%s)' % final)
    if "eval" in what and last_eval is not None and len(case["stages"]) == 1:
        parts.append('",\\"eval\\":" + pg::obs(%s)' % last_eval)
        parts.append('",\\"eval_col\\":" + pg::obs(na::eval(%s, nm::None, nm::None, na::ColumnMajorResolver))' % final)
    elif "eval" in what:
        parts.append('",\\"eval\\":" + pg::obs(na::eval(%s, nm::None, nm::None, na::RowMajorResolver))' % final)
        parts.append('",\\"eval_col\\":" + pg::obs(na::eval(%s, nm::None, nm::None, na::ColumnMajorResolver))' % final)
    body = "\n        ".join(pre)
    text = "    {\n        %s\n        pg::emit(\"%s\", %s);\n    }\n" % (body, rid, " + ".join(parts))
    return text, incs


RESIZABLE_LEAVES = ["fs_hb", "fs_db", "hs_hb", "hs_db", "ds_hb", "ds_db", "ls_hb", "ls_db", "hybrid_ndarray", "dynamic_ndarray"]


def render_runtime_block(rid, case, leaf_kinds, attr_kinds):
    """like render_view_block, but the (single) leaf is declared from its MAXIMAL shape and then, for every run-time shape read
    from stdin, resized + refilled; the composition is rebuilt and reported per run-time shape"""
    if len(case["arrays"]) != 1:
        return None
    arr = case["arrays"][0]
    kind = leaf_kinds[0]
    if kind not in RESIZABLE_LEAVES:
        return None
    decl = []
    render_leaf(0, arr, kind, decl)
    D = len(arr["shape"])
    pre = []
    incs = set()
    exprs = ["a0"]
    for si, s in enumerate(case["stages"]):
        f = RENDER.get(s["f"])
        if f is None:
            return None
        ve, ee, inc = f([exprs[j] for j in s["in"]], s.get("a") or {}, (attr_kinds[si] if si < len(attr_kinds) else {}) or {}, pre, "%d" % si)
        if ve is None:
            return None
        incs.update(inc)
        pre.append("auto v%d = %s;" % (si, ve))
        exprs.append("v%d" % si)
    final = exprs[-1]
    body = "\n        ".join(decl)
    loop = "\n            ".join(pre)
    text = """    {
        %s
        for (auto& rs_ : shapes_) {
            pg::events().clear();
            bool ok_ = pg::resize_to<%d>(a0, rs_);
            std::string ev0_ = pg::events_json();
            if (!ok_) { pg::emit("%s", "\\"rshape\\":" + pg::list(rs_) + ",\\"resized\\":false,\\"resize_events\\":" + ev0_); continue; }
            pg::fill_arange(a0, 1);
            %s
            pg::emit("%s", "\\"rshape\\":" + pg::list(rs_) + ",\\"resized\\":true,\\"obs\\":" + pg::obs(%s) + ",\\"static\\":" + pg::static_facts<decltype(%s)>() + ",\\"rt\\":" + pg::runtime_facts(%s)
                + ",\\"eval\\":" + pg::obs(na::eval(%s, nm::None, nm::None, na::RowMajorResolver)) + ",\\"resize_events\\":" + ev0_);
        }
    }
""" % (body, D, rid, loop, rid, final, final, final, final)
    return text, incs


def make_tu(blocks, extra_includes=(), prelude=""):
    incs = set(extra_includes)
    body = ""
    for t, i in blocks:
        incs.update(i)
        body += t
    head = '#include "pg.hpp"\n' + "".join('#include "%s"\n' % i for i in sorted(incs)) + prelude
    return head + "int main(){\n    auto shapes_ = pg::read_int_lines();\n    (void)shapes_;\n" + body + "    return 0;\n}\n"


# ---------------------------------------------------------------------------------------------
# compile + run (content-addressed)
# ---------------------------------------------------------------------------------------------
_PGH = []


def _pg_hash():
    if not _PGH:
        _PGH.append(hashlib.sha256(open(os.path.join(build.HARNESS, "pg.hpp"), "rb").read()).hexdigest())
    return _PGH[0]


def _bin_path(text, cfg):
    key = hashlib.sha256((cfg + "\0" + " ".join(CFG[cfg]["flags"]) + "\0" + text + "\0" + build.tree_hash() + "\0" + _pg_hash()).encode()).hexdigest()[:32]
    return os.path.join(build.BUILD, "pg", key[:2], key)


def compile_tu(text, cfg="gcc", timeout=900):
    """returns (binary path or None, error text)"""
    out = _bin_path(text, cfg)
    if os.path.exists(out):
        return out, ""
    if os.path.exists(out + ".err"):
        return None, open(out + ".err").read()
    os.makedirs(os.path.dirname(out), exist_ok=True)
    src = out + ".cpp"
    with open(src, "w") as fh:
        fh.write(text)
    c = CFG[cfg]
    cmd = [c["cxx"]] + c["flags"] + ["-I" + os.path.join(build.REPO, "include"), "-I" + build.HARNESS, src, "-o", out + ".tmp"]
    try:
        r = subprocess.run(cmd, capture_output=True, text=True, timeout=timeout)
    except subprocess.TimeoutExpired:
        return None, "compile timeout"
    if r.returncode != 0:
        errs = "\n".join([l for l in r.stderr.splitlines() if "error" in l][:6])[:1500] or r.stderr[-800:]
        with open(out + ".err", "w") as fh:
            fh.write(errs)
        try:
            os.unlink(src)
        except OSError:
            pass
        return None, errs
    os.replace(out + ".tmp", out)
    try:
        os.unlink(src)
    except OSError:
        pass
    return out, ""


def run_bin(path, stdin_text="", timeout=120):
    env = dict(os.environ, ASAN_OPTIONS="detect_leaks=0:exitcode=99:quarantine_size_mb=8", UBSAN_OPTIONS="print_stacktrace=0:halt_on_error=1:exitcode=98")
    try:
        r = subprocess.run([path], input=stdin_text, capture_output=True, text=True, timeout=timeout, env=env)
    except subprocess.TimeoutExpired:
        return {"_timeout": True}, ""
    recs = {}
    for line in r.stdout.splitlines():
        line = line.strip()
        if line.startswith("{"):
            try:
                d = json.loads(line)
                recs.setdefault(d.get("id", "?"), []).append(d)
            except Exception:
                pass
    crash = None
    if r.returncode != 0:
        summ = " | ".join(l.strip()[:200] for l in r.stderr.splitlines() if "runtime error" in l or "ERROR: AddressSanitizer" in l or "ssertion" in l or "SUMMARY" in l)[:800]
        crash = {"rc": r.returncode, "summary": summ or r.stderr[-400:]}
    return {"recs": recs, "crash": crash}, r.stderr[-2000:]


def compile_many(texts_cfgs, jobs=None):
    """parallel compile of [(text, cfg)]; returns list of (path|None, err)"""
    with ThreadPoolExecutor(jobs or build.JOBS) as pool:
        return list(pool.map(lambda tc: compile_tu(tc[0], tc[1]), texts_cfgs))
