"""E3: coverage-guided fuzzing with libFuzzer (harness/fuzz_index.cpp) as an extra phase of C01 and C06.

The target decodes bytes into structured arguments and carries the semantic oracle itself; a failed oracle traps, libFuzzer saves the
input (crash-<sha1>). A campaign is `-runs=N -seed=S` on a fresh corpus directory seeded from /verif/fuzz/corpus/<target>/ (committed,
small); /verif/fuzz/regress/<target>/ holds saved failing inputs and is replayed first. Only crash-* artifacts count; timeout / oom /
slow-unit artifacts are load noise (inconclusive). A violation case is {"_external":true,"fuzz":target,"input_b64":...}: it is
replayed by running the binary on exactly these bytes (./check <ID> quick --replay <file>).
"""
import base64
import glob
import hashlib
import json
import os
import re
import shutil
import subprocess
import tempfile
import time
from concurrent.futures import ThreadPoolExecutor

from . import build

SRC = os.path.join(build.VERIF, "harness", "fuzz_index.cpp")
SRC_UTL = os.path.join(build.VERIF, "harness", "fuzz_utl.cpp")
CORPUS = os.path.join(build.VERIF, "fuzz", "corpus")
REGRESS = os.path.join(build.VERIF, "fuzz", "regress")
FLAGS = ["-std=gnu++17", "-g", "-O1", "-fsanitize=fuzzer,address,undefined", "-fno-sanitize-recover=undefined", "-DNMTOOLS_VERIF"]
TARGET_ID = {"c01": 1, "c06": 6, "c19_vector": 191, "c19_static_vector": 192, "c19_small_vector": 193}
TARGET_SRC = {"c01": SRC, "c06": SRC, "c19_vector": SRC_UTL, "c19_static_vector": SRC_UTL, "c19_small_vector": SRC_UTL}
MAX_LEN = {"c01": 64, "c06": 64, "c19_vector": 96, "c19_static_vector": 96, "c19_small_vector": 96}
NONTRIVIAL_RULE = {"c01": "dim >= 2 and more than one element", "c06": "operands differ and (ranks differ or they are compatible)",
                   "c19_vector": "history with a shrink followed by a growth or a mutation of a copied object",
                   "c19_static_vector": "history with a refused operation at capacity, a shrink followed by a growth or a mutation of a copied object",
                   "c19_small_vector": "history crossing the static/heap threshold, a shrink followed by a growth or a mutation of a copied object"}


def build_target(target):
    src = TARGET_SRC[target]
    text = open(src).read()
    key = hashlib.sha1(("clang++|" + " ".join(FLAGS) + "|" + target + "|" + text + "|" + build.tree_hash()).encode()).hexdigest()[:24]
    d = os.path.join(build.BUILD, "fuzz", key)
    exe = os.path.join(d, "fz_" + target)
    if os.path.exists(exe):
        return exe
    os.makedirs(d, exist_ok=True)
    tmp = exe + ".tmp%d" % os.getpid()
    cmd = ["clang++"] + FLAGS + ["-DNMV_TARGET=%d" % TARGET_ID[target], "-I" + os.path.join(build.REPO, "include"), src, "-o", tmp]
    r = subprocess.run(cmd, capture_output=True, text=True)
    if r.returncode:
        errs = [l for l in r.stderr.splitlines() if "error" in l][:8]
        raise build.BuildError("fuzz target build failed: %s\n%s" % (" ".join(cmd), "\n".join(errs) or r.stderr[-2000:]))
    os.replace(tmp, exe)
    return exe


def run_input(exe, data, timeout=60):
    """run the target on one input; returns failure string or None"""
    with tempfile.NamedTemporaryFile(prefix="nmv_fz_", delete=False) as f:
        f.write(data)
        p = f.name
    try:
        env = dict(os.environ, ASAN_OPTIONS="detect_leaks=0:abort_on_error=0", NMV_FUZZ_REPORT="", NMV_FUZZ_COUNTERS="")
        r = subprocess.run([exe, p], capture_output=True, text=True, timeout=timeout, env=env)
        if r.returncode == 0:
            return None
        m = re.search(r"ORACLE-FAIL (.*)", r.stderr)
        if m:
            return m.group(1)[:400]
        m = re.search(r"(ERROR: AddressSanitizer[^\n]*|runtime error[^\n]*)", r.stderr)
        return ("sanitizer: " + m.group(1)[:300]) if m else "target exited with %d: %s" % (r.returncode, r.stderr[-300:])
    finally:
        os.unlink(p)


def _campaign(exe, target, seed, runs, workdir):
    corpus = os.path.join(workdir, "corpus")
    art = os.path.join(workdir, "art")
    os.makedirs(corpus)
    os.makedirs(art)
    for f in glob.glob(os.path.join(CORPUS, target, "*")):
        shutil.copy(f, corpus)
    counters = os.path.join(workdir, "counters")
    report = os.path.join(workdir, "report")
    env = dict(os.environ, ASAN_OPTIONS="detect_leaks=0", NMV_FUZZ_COUNTERS=counters, NMV_FUZZ_REPORT=report)
    cmd = [exe, "-runs=%d" % runs, "-seed=%d" % seed, "-max_len=%d" % MAX_LEN[target], "-print_final_stats=1", "-artifact_prefix=" + art + "/", "-rss_limit_mb=3000", corpus]
    r = subprocess.run(cmd, capture_output=True, text=True, env=env)
    out = {"rc": r.returncode, "execs": 0, "cov": None, "features": None, "cases": 0, "nontrivial": 0, "rejected": 0, "crashes": [], "noise": []}
    m = re.search(r"stat::number_of_executed_units:\s*(\d+)", r.stderr)
    if m:
        out["execs"] = int(m.group(1))
    ms = re.findall(r"cov: (\d+) ft: (\d+)", r.stderr)
    if ms:
        out["cov"], out["features"] = int(ms[-1][0]), int(ms[-1][1])
    if os.path.exists(counters):
        for line in open(counters):
            try:
                c = json.loads(line)
                out["cases"], out["nontrivial"], out["rejected"] = c["cases"], c["nontrivial"], c["rejected"]
            except Exception:
                pass
    rep = open(report).read().strip().splitlines() if os.path.exists(report) else []
    for f in sorted(glob.glob(os.path.join(art, "*"))):
        b = os.path.basename(f)
        if b.startswith("crash-") or b.startswith("leak-"):
            out["crashes"].append((open(f, "rb").read(), rep[-1] if rep else None))
        else:
            out["noise"].append(b)
    if out["execs"] == 0 and not out["crashes"]:
        m = re.search(r"#(\d+)\s", r.stderr[::-1][:0] or r.stderr)
        out["stderr_tail"] = r.stderr[-400:]
    return out


def fuzz_phase(prop, target, ctx):
    """replay the regression inputs, then run the campaign(s); returns a list of (case, failure, obs)"""
    tier, seed, stats, info = ctx["tier"], ctx["seed"], ctx["stats"], ctx["info"]
    t0 = time.time()
    exe = build_target(target)
    fails = []
    reg = sorted(glob.glob(os.path.join(REGRESS, target, "*")))
    for f in reg:
        data = open(f, "rb").read()
        ff = run_input(exe, data)
        stats.evaluations += 1
        if ff:
            fails.append(({"_external": True, "fuzz": target, "input_b64": base64.b64encode(data).decode(), "from": "regress/" + os.path.basename(f)}, "fuzz regression input fails: " + ff, {}))
    scale = ctx.get("fuzz_scale", 1.0)
    if tier == "thorough":
        plan = [(seed * 100 + k + 1, int(4000000 * scale)) for k in range(ctx.get("fuzz_jobs", 8))]
    else:
        plan = [(seed * 100 + 1, int(400000 * scale)), (seed * 100 + 2, int(400000 * scale))]
    work = tempfile.mkdtemp(prefix="nmv_fuzz_")
    try:
        with ThreadPoolExecutor(len(plan)) as pool:
            res = list(pool.map(lambda a: _campaign(exe, target, a[0], a[1], os.path.join(work, "w%d" % a[0])), plan))
    finally:
        pass
    tot = {"execs": 0, "cases": 0, "nontrivial": 0, "rejected": 0}
    for r in res:
        for k in tot:
            tot[k] += r[k]
        for data, rep in r["crashes"]:
            ff = run_input(exe, data) or ("campaign reported: %s (did not reproduce on replay)" % rep)
            fails.append(({"_external": True, "fuzz": target, "input_b64": base64.b64encode(data).decode()}, "libFuzzer found a failing input: " + ff, {}))
    shutil.rmtree(work, ignore_errors=True)
    stats.evaluations += tot["cases"]
    stats.classes["fuzz:%s:executions" % target] = tot["execs"]
    stats.classes["fuzz:%s:decoded_cases" % target] = tot["cases"]
    stats.classes["fuzz:%s:nontrivial_cases" % target] = tot["nontrivial"]
    if tot["rejected"]:
        stats.rejected["fuzz:%s:input_too_short" % target] = tot["rejected"]
    info.setdefault("fuzz_targets", {})[target] = {"target": target, "campaigns": [{"seed": s, "runs": n, "execs": r["execs"], "cov": r["cov"], "features": r["features"], "crash_artifacts": len(r["crashes"]),
                                                     "noise_artifacts": r["noise"]} for (s, n), r in zip(plan, res)],
                    "regression_inputs": len(reg), "nontrivial_rule": NONTRIVIAL_RULE[target],
                    "decoded_cases": tot["cases"], "nontrivial_cases": tot["nontrivial"], "wall_s": round(time.time() - t0, 1)}
    if tot["execs"] == 0:
        fails.append(({"_harness": True}, "HARNESS-ERROR fuzz campaign executed nothing: %s" % [r.get("stderr_tail") for r in res][:1], {}))
    return fails


def replay(target, case):
    exe = build_target(target)
    ff = run_input(exe, base64.b64decode(case["input_b64"]))
    return [(case, "fuzz input fails: " + ff, {})] if ff else []
