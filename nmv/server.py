"""Persistent harness-server subprocess with crash detection."""
import json
import os
import signal
import subprocess
import tempfile

from . import build

TMP = os.path.join(build.BUILD, "tmp")


def _unlimit_as():
    import resource
    try:
        soft, hard = resource.getrlimit(resource.RLIMIT_AS)
        resource.setrlimit(resource.RLIMIT_AS, (hard, hard))
    except Exception:
        pass


class Server:
    def __init__(self, path, env=None, chunk_bytes=24000, chunk_cases=64):
        self.path = path
        self.env = dict(os.environ)
        self.env.update(env or {})
        self.proc = None
        self.errf = None
        self.chunk_bytes = chunk_bytes
        self.chunk_cases = chunk_cases
        self.restarts = 0
        self.case_timeout = int(os.environ.get("NMV_CASE_TIMEOUT", "240"))
        self._buf = b""

    def start(self):
        os.makedirs(TMP, exist_ok=True)
        self.errf = tempfile.TemporaryFile(dir=TMP)
        self.proc = subprocess.Popen([self.path], stdin=subprocess.PIPE, stdout=subprocess.PIPE,
                                     stderr=self.errf, env=self.env, bufsize=0, preexec_fn=_unlimit_as)
        self.rd = os.fdopen(os.dup(self.proc.stdout.fileno()), "rb", buffering=0)
        self._buf = b""

    def close(self):
        if self.proc is not None:
            try:
                self.proc.stdin.close()
            except Exception:
                pass
            try:
                self.proc.wait(timeout=5)
            except Exception:
                self.proc.kill()
                self.proc.wait()
            try:
                self.rd.close()
                self.proc.stdout.close()
            except Exception:
                pass
            self.proc = None
        if self.errf is not None:
            self.errf.close()
            self.errf = None

    def _crash_info(self):
        try:
            rc = self.proc.wait(timeout=20)
        except Exception:
            self.proc.kill()
            rc = self.proc.wait()
        self.errf.seek(0)
        err = self.errf.read().decode("utf-8", "replace")
        sig = None
        if rc < 0:
            try:
                sig = signal.Signals(-rc).name
            except Exception:
                sig = str(-rc)
        summary = ""
        for line in err.splitlines():
            if "runtime error" in line or "ERROR: AddressSanitizer" in line or "Assertion" in line or "assertion" in line or "SUMMARY" in line:
                summary += line.strip()[:300] + " | "
        info = {"rc": rc, "signal": sig, "summary": summary[:1200], "stderr_tail": err[-1500:]}
        self.close()
        self.restarts += 1
        return info

    def run_batch(self, cases, timeout=None):
        """Run cases in order; returns list of observations (dict). A crash is an
        observation {"crash": {...}} for the case being processed."""
        out = []
        lines = [json.dumps(c, separators=(",", ":")).encode() + b"\n" for c in cases]
        i = 0
        n = len(lines)
        while i < n:
            if self.proc is None:
                self.start()
            # chunk
            j = i
            size = 0
            while j < n and j - i < self.chunk_cases and (size + len(lines[j]) <= self.chunk_bytes or j == i):
                size += len(lines[j])
                j += 1
            data = b"".join(lines[i:j])
            try:
                if len(data) > 60000:
                    # oversized single case: write from a thread-less loop is unsafe; use communicate-free path
                    self._write_big(data)
                else:
                    self.proc.stdin.write(data)
            except BrokenPipeError:
                pass
            got = 0
            crashed = False
            timed_out = False
            while got < j - i:
                line = self._readline(self.case_timeout)
                if line is None:
                    # no answer within the per-case time limit: kill the server, report the case as timed out
                    try:
                        self.proc.kill()
                    except Exception:
                        pass
                    self._crash_info()
                    out.append({"timeout": True, "error": "no answer within %ds (server killed)" % self.case_timeout})
                    got += 1
                    timed_out = True
                    break
                if not line:
                    crashed = True
                    break
                try:
                    out.append(json.loads(line))
                except Exception:
                    out.append({"error": "unparsable server output", "raw": line[:200].decode("utf-8", "replace")})
                got += 1
            if timed_out:
                i = i + got
            elif crashed:
                out.append({"crash": self._crash_info()})
                i = i + got + 1
            else:
                i = j
        return out

    def _readline(self, timeout):
        """one line from the server, b'' on EOF, None on timeout"""
        import select
        import time as _t
        if b"\n" in self._buf:
            line, self._buf = self._buf.split(b"\n", 1)
            return line + b"\n"
        deadline = _t.time() + timeout
        fd = self.rd.fileno()
        while True:
            left = deadline - _t.time()
            if left <= 0:
                return None
            r, _, _ = select.select([fd], [], [], min(left, 5.0))
            if not r:
                continue
            chunk = os.read(fd, 1 << 16)
            if not chunk:
                self._buf = b""
                return b""  # EOF; a partial last line belongs to the crashing case and is dropped
            self._buf += chunk
            if b"\n" in self._buf:
                line, self._buf = self._buf.split(b"\n", 1)
                return line + b"\n"

    def _write_big(self, data):
        import threading
        t = threading.Thread(target=lambda: self._safe_write(data))
        t.daemon = True
        t.start()

    def _safe_write(self, data):
        try:
            self.proc.stdin.write(data)
        except Exception:
            pass

    def run_one(self, case):
        return self.run_batch([case])[0]
