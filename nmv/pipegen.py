"""Random pipelines (chains and binary trees) of view stages with reference-valid arguments.

Used by C02 (monitors), C10 (lazy vs staged vs NumPy, eval differential) and C15 (stages that must fail).
All randomness comes from the Hypothesis `draw` passed in.
"""
import numpy as np
from hypothesis import strategies as st

from . import refs, refs_reduce  # noqa: F401
from .props import c03, c04, c05, c08
from .props.common import prod

UNARY_C03 = c03.OPS
UNARY_C04 = [op for op in c04.UNARY if op not in ("split",)]
REDUCE = ["sum", "reduce_add", "reduce_maximum", "amin", "cumsum", "reduce_subtract", "prod", "mean"]
ELEMWISE1 = ["negative", "square", "add_scalar", "rsub_scalar", "mul_scalar"]
BINARY_SAME = ["add", "subtract", "multiply", "maximum", "minimum", "concatenate", "stack", "hstack", "vstack", "where"]


def known_class(stage, in_shapes):
    """id of the LISTED known finding whose input class contains this stage (C04/C05/C08 classes), or None (a repaired class is composed again)"""
    from .core import listed_ids
    r = _known_class(stage, in_shapes)
    return r if r and r in listed_ids(r[:3]) else None


def _known_class(stage, in_shapes):
    f = stage["f"]
    a = stage.get("a") or {}
    fake = {"op": "pipe", "arrays": [{"shape": list(s), "data": []} for s in in_shapes], "stages": [dict(stage, **{"in": list(range(len(in_shapes)))})]}
    if f.startswith("slice") or f.startswith("dslice"):
        return c05.C05()._finding(fake)
    if f in c04.UNARY or f in ("concatenate", "stack", "linspace"):
        r = c04.C04()._finding(fake)
        if r:
            return r
    if f in c08.ACCUM or f == "trace":
        return c08.C08()._finding(fake)
    return None


def draw_unary_args(draw, op, shape):
    d = len(shape)
    if op in UNARY_C03:
        args = list(c03.args_for(op, shape, "quick"))
    elif op in UNARY_C04:
        args = list(c04.args_unary(op, shape, False))
    elif op in ELEMWISE1:
        return {"s": draw(st.integers(-3, 3))} if "scalar" in op else {}
    elif op in REDUCE:
        forms = list(c08.axis_forms(d, False))
        ax = forms[draw(st.integers(0, len(forms) - 1))]
        if op in ("cumsum",):
            return {"axis": draw(st.integers(0, d - 1)), "dtype": None}
        if op == "reduce_subtract":
            return {"axis": draw(st.integers(-d, d - 1)), "dtype": None, "initial": None, "keepdims": draw(st.sampled_from(c08.KEEP))}
        if op == "mean":
            return {"axis": ax, "dtype": None, "keepdims": draw(st.sampled_from(c08.KEEP))}
        kd = draw(st.sampled_from(c08.KEEP))
        if op in ("amin",) and kd == "ct_true":
            kd = True
        return {"axis": ax, "dtype": None, "initial": None, "keepdims": kd}
    elif op == "slice":
        return None
    else:
        raise KeyError(op)
    if not args:
        return None
    return args[draw(st.integers(0, len(args) - 1))]


def draw_slice_stage(draw, shape):
    """a conforming packed slice stage for this shape (<=3 axes), or None"""
    d = len(shape)
    if d > 3:
        return None
    sl = []
    for n in shape:
        t = draw(st.integers(0, 5))
        if t == 0:
            sl.append(draw(st.integers(-n, n - 1)))
        elif t == 1:
            sl.append([None, None, draw(st.sampled_from([-1, -2, 2]))])
        else:
            a_ = draw(st.integers(0, n - 1))
            b_ = draw(st.integers(a_ + 1, n + 1))
            stp = draw(st.sampled_from([None, None, 1, 2]))
            sl.append([a_, b_, stp] if stp else [a_, b_])
    f = c05.packed_op(sl)
    if f is None:
        return None
    if all(isinstance(s, int) for s in sl):
        return None  # rank-0 result
    return {"f": f, "a": {"slices": sl}}


@st.composite
def pipelines(draw, max_depth=3, families=("c03", "c04", "reduce", "elem", "binary", "slice"), max_size=120, dts=("i32", "i32", "f64")):
    nleaf = draw(st.integers(1, 2))
    arrays = []
    for k in range(nleaf):
        d = draw(st.integers(1, 3))
        shape = []
        p = 1
        for _ in range(d):
            e = draw(st.integers(1, max(1, min(4, 24 // p))))
            shape.append(e)
            p *= e
        a = {"shape": shape, "data": [((i * 7 + 3 * k) % 13) - 4 for i in range(p)]}
        arrays.append(a)
    dt = draw(st.sampled_from(list(dts)))
    if dt == "f64":
        for a in arrays:
            a["dt"] = "f64"
    vals = [refs.make_array(a) for a in arrays]
    stages = []
    depth = draw(st.integers(1, max_depth))
    for _ in range(depth):
        src = draw(st.integers(max(0, len(vals) - 2), len(vals) - 1))
        x = vals[src]
        if x.ndim == 0 or x.size == 0 or x.size > max_size:
            break
        fam = draw(st.sampled_from(list(families)))
        stage = None
        if fam == "binary":
            op = draw(st.sampled_from(BINARY_SAME))
            other = draw(st.integers(0, len(vals) - 1))
            y = vals[other]
            if op in ("add", "subtract", "multiply", "maximum", "minimum"):
                if refs.broadcast_shapes([list(x.shape), list(y.shape)]) is None or y.ndim == 0:
                    other = src
                stage = {"f": op, "in": [src, other], "a": {}}
            elif op == "where":
                stage = {"f": "where", "in": [src, src, src], "a": {}}
            elif op == "concatenate":
                stage = {"f": op, "in": [src, src], "a": {"axis": draw(st.integers(0, x.ndim - 1))}}
            elif op == "stack":
                stage = {"f": op, "in": [src, src], "a": {"axis": draw(st.integers(0, x.ndim))}}
            else:
                stage = {"f": op, "in": [src, src], "a": {}}
        elif fam == "slice":
            # the multi-axis packed slice ops are instantiated for the integer operand type only
            s = draw_slice_stage(draw, list(x.shape)) if (x.dtype.kind != "f" or x.ndim == 1) else None
            if s is not None:
                stage = dict(s, **{"in": [src]})
        else:
            pool = {"c03": UNARY_C03, "c04": UNARY_C04, "reduce": REDUCE, "elem": ELEMWISE1}[fam]
            op = draw(st.sampled_from(pool))
            if ("prod" in op or "multiply" in op) and x.size > 12:
                op = "sum" if op == "prod" else op
            a = draw_unary_args(draw, op, list(x.shape))
            if a is not None:
                stage = {"f": op, "in": [src], "a": a}
        if stage is None:
            continue
        if known_class(stage, [list(vals[i].shape) for i in stage["in"]]):
            continue  # members of known-finding classes are not composed into pipelines (counted by the caller via classes)
        try:
            r = np.asarray(refs.REFS[stage["f"]]([vals[i] for i in stage["in"]], stage["a"]))
        except (refs.Invalid, refs.OutOfDomain):
            continue
        if r.size == 0 or r.size > 4 * max_size or (r.dtype.kind in "iu" and r.size and np.abs(r).max() > 10 ** 6):
            continue
        if r.dtype.kind == "f" and not np.all(np.isfinite(r)):
            continue
        stages.append(stage)
        vals.append(r)
    if not stages:
        stages.append({"f": "flatten", "in": [0], "a": {}})
    return {"op": "pipe", "arrays": arrays, "stages": stages}
