#!/bin/bash
# MANIFEST.setup_cmd: verify tools are present (offline) and warm the build cache for the quick tier.
cd "$(dirname "$0")"
set -e
command -v g++ >/dev/null && command -v clang++ >/dev/null && command -v python3-vt >/dev/null
python3-vt -W ignore -c "import hypothesis, numpy; print('hypothesis', hypothesis.__version__, 'numpy', numpy.__version__)"
mkdir -p build evidence
python3-vt -W ignore -m nmv.build 2>&1 | grep -v conda.cli || true
