#!/usr/bin/env python3
"""tools/mkmutant.py <ID> <name> <repo-relative-file> <old> <new> : writes mutants/<ID>/<name>.patch (first occurrence)"""
import sys, subprocess, os, tempfile
pid, name, rel, old, new = sys.argv[1:6]
src = open(os.path.join("/repo", rel)).read()
assert src.count(old) >= 1, "pattern not found"
mut = src.replace(old, new, 1)
with tempfile.NamedTemporaryFile("w", suffix=".hpp", delete=False) as f:
    f.write(mut); tmp = f.name
d = subprocess.run(["diff", "-u", "--label", "a/" + rel, "--label", "b/" + rel, os.path.join("/repo", rel), tmp], capture_output=True, text=True).stdout
os.unlink(tmp)
os.makedirs("/verif/mutants/%s" % pid, exist_ok=True)
open("/verif/mutants/%s/%s.patch" % (pid, name), "w").write(d)
print(d)
