#!/usr/bin/env python3
"""Regenerates MANIFEST.json from tools/manifest_src.json (claimed checks) + properties.jsonl."""
import json, os
V = os.path.dirname(os.path.dirname(os.path.abspath(__file__)))
src = json.load(open(os.path.join(V, "tools", "manifest_src.json")))
props = [json.loads(l)["id"] for l in open(os.path.join(V, "properties.jsonl"))]
checks = []
for pid in props:
    c = src["checks"].get(pid)
    if not c:
        continue
    checks.append({
        "property_id": pid,
        "quick_cmd": "./check %s quick" % pid,
        "thorough_cmd": "./check %s thorough" % pid,
        "evidence_file": "/verif/evidence/%s.json" % pid,
        "replay_cmd_template": "./check %s quick --replay {path}" % pid,
        "engine": c.get("engine", "E1 hyp+srv"),
        "level_claimed": {"category": "exploration", "text": c["level_text"], "design_ref": c.get("design_ref", "DESIGN.md section 4 / %s" % pid)},
        "level_note": c["level_note"],
        "technique": c["technique"],
    })
na = [{"property_id": p, "reason": src["not_applicable"].get(p, "check not built yet in this session; see DESIGN.md section 4 for the planned generated-input check")} for p in props if p not in src["checks"]]
m = {
    "version": 1,
    "setup_cmd": "./setup.sh",
    "hooks": src["hooks"],
    "engines": src["engines"],
    "checks": checks,
    "not_applicable": na,
    "notes": src["notes"],
}
json.dump(m, open(os.path.join(V, "MANIFEST.json"), "w"), indent=1)
print("claimed:", [c["property_id"] for c in checks], "not claimed:", [n["property_id"] for n in na])
