#!/usr/bin/env python3
"""tools/triage.py <ID> <tier> [max]: run the exhaustive cases of a property and summarise ALL failures by class (no early stop)."""
import sys, os, json, re, collections, itertools
sys.path.insert(0, os.path.dirname(os.path.dirname(os.path.abspath(__file__))))
import multiprocessing as mp
from nmv import core, build
from nmv.__main__ import factory

def main():
    pid, tier = sys.argv[1], sys.argv[2]
    mx = int(sys.argv[3]) if len(sys.argv) > 3 else None
    F = factory(pid)
    prop = F()
    paths, _ = build.build_servers(prop.servers)
    envs = getattr(prop, "server_env", {})
    ctx = mp.get_context("fork")
    agg = collections.Counter(); ex = {}
    n = 0
    it = prop.exhaustive(tier)
    if mx: it = itertools.islice(it, mx)
    with ctx.Pool(14, initializer=core._winit, initargs=(F, paths, envs)) as pool:
        for st, fs in pool.imap_unordered(_work, core.chunks(it, 100)):
            n += st
            for c, f in fs:
                op = c["stages"][0]["f"] if c.get("op") == "pipe" else c.get("op")
                sig = re.sub(r"-?\d+", "N", f)[:110]
                k = (op, sig)
                agg[k] += 1
                ex.setdefault(k, (c, f))
    print("evaluated", n)
    for k, v in sorted(agg.items(), key=lambda kv: (kv[0][0], -kv[1])):
        c, f = ex[k]
        print("%5d %-16s %s\n      e.g. %s\n      %s" % (v, k[0], k[1], json.dumps(c.get("stages", c))[:260], f[:200]))

def _work(chunk):
    prop = core._W["prop"]
    st = core.Stats()
    save = prop.excluded
    fails = core._eval_cases(prop, chunk, st)
    return st.evaluations, [(c, f) for c, f, o in fails]

if __name__ == "__main__":
    main()
