#!/bin/bash
# usage: tools/verify_seed.sh <seed worktree dir> <A|B> <property ID> <name>
# verifies a sub-agent's change myself: patch applies, affected pinned tests pass, demo fails with / passes without; then stores it under seeded/<name>/
set -u
WT=$1; L=$2; PID=$3; NAME=$4
V=$(cd "$(dirname "$0")/.." && pwd)
cd "$WT" || exit 2
git checkout -q -- include tests 2>/dev/null
git apply --check $L.patch || { echo "patch does not apply"; exit 2; }
g++ -std=c++17 -O1 -I$WT/include demo_$L.cpp -o /tmp/demo_clean_$$ 2>/dev/null || { echo "demo does not compile on clean tree"; exit 2; }
/tmp/demo_clean_$$ > /tmp/demo_clean_$$.out 2>&1; RC_CLEAN=$?
git apply $L.patch
python3 $V/tools/affected_tests.py $WT > /tmp/aff_$$.out 2>&1; RC_AFF=$?
g++ -std=c++17 -O1 -I$WT/include demo_$L.cpp -o /tmp/demo_mut_$$ 2>/dev/null; 
/tmp/demo_mut_$$ > /tmp/demo_mut_$$.out 2>&1; RC_MUT=$?
git checkout -q -- include tests
echo "clean demo rc=$RC_CLEAN  mutated demo rc=$RC_MUT  affected tests rc=$RC_AFF ($(tail -1 /tmp/aff_$$.out))"
if [ $RC_CLEAN -eq 0 ] && [ $RC_MUT -ne 0 ] && [ $RC_AFF -eq 0 ]; then
  D=$V/seeded/$NAME; mkdir -p $D
  cp $L.patch $D/patch.diff; cp demo_$L.cpp $D/demo.cpp
  grep -v "^$" /tmp/aff_$$.out | tail -4 > $D/affected_tests.txt
  echo "VERIFIED -> $D"
else
  echo "NOT VERIFIED"
fi
rm -f /tmp/demo_clean_$$* /tmp/demo_mut_$$* /tmp/aff_$$.out
