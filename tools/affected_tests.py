#!/usr/bin/env python3
"""tools/affected_tests.py <worktree> [--max N] [--jobs J]

Runs the part of the repository's pinned test suite that a source change can influence: every test translation unit whose
recorded header dependencies (ninja -t deps of /repo/_build) contain a file that differs between <worktree> and its HEAD is
recompiled FROM THE WORKTREE with the suite's own flags, linked with its doctest main and executed. Test TUs that do not include
a changed header cannot change behaviour (header-only library). Prints failing test cases that are not in BASELINE.always_fail.
Exit 0 = the affected tests pass, 1 = a test fails / does not compile, 3 = too many affected TUs (use the full suite).
"""
import json
import os
import re
import subprocess
import sys
import tempfile
from concurrent.futures import ThreadPoolExecutor

BUILD = "/repo/_build"
CACHE = "/verif/build/test_deps.json"


def load_deps():
    if os.path.exists(CACHE) and os.path.getmtime(CACHE) > os.path.getmtime(os.path.join(BUILD, "build.ninja")):
        return json.load(open(CACHE))
    out = subprocess.run(["ninja", "-C", BUILD, "-t", "deps"], capture_output=True, text=True).stdout
    deps = {}
    cur = None
    for line in out.splitlines():
        if line and not line.startswith(" "):
            cur = line.split(":")[0]
            deps[cur] = []
        elif line.strip() and cur:
            deps[cur].append(line.strip())
    ninja = open(os.path.join(BUILD, "build.ninja")).read()
    objs = {}
    for m in re.finditer(r"^build (\S+\.o): CXX_COMPILER\S* (\S+)[^\n]*\n((?:  [^\n]*\n)+)", ninja, re.M):
        obj, src, body = m.group(1), m.group(2), m.group(3)
        kv = dict(re.findall(r"^  (\w+) = (.*)$", body, re.M))
        objs[obj] = {"src": src, "flags": kv.get("FLAGS", ""), "defines": kv.get("DEFINES", ""), "includes": kv.get("INCLUDES", "")}
    targets = {}
    for m in re.finditer(r"^build (\S+): CXX_EXECUTABLE_LINKER\S* ([^|\n]*)", ninja, re.M):
        targets[m.group(1)] = m.group(2).split()
    data = {"deps": deps, "objs": objs, "targets": targets}
    os.makedirs(os.path.dirname(CACHE), exist_ok=True)
    json.dump(data, open(CACHE, "w"))
    return data


def main():
    wt = os.path.abspath(sys.argv[1])
    mx = int(sys.argv[sys.argv.index("--max") + 1]) if "--max" in sys.argv else 120
    jobs = int(sys.argv[sys.argv.index("--jobs") + 1]) if "--jobs" in sys.argv else 4
    changed = subprocess.run(["git", "-C", wt, "diff", "--name-only", "HEAD"], capture_output=True, text=True).stdout.split()
    changed += subprocess.run(["git", "-C", wt, "ls-files", "--others", "--exclude-standard"], capture_output=True, text=True).stdout.split()
    changed = [c for c in changed if c.startswith("include/") or c.startswith("tests/")]
    if not changed:
        print("no changed files under include/ or tests/")
        return 0
    data = load_deps()
    chg_abs = {"/repo/" + c for c in changed}
    affected = [o for o, hs in data["deps"].items() if chg_abs & set(hs) or data["objs"].get(o, {}).get("src") in chg_abs]
    affected = [o for o in affected if o in data["objs"]]
    print("changed: %s -> %d affected test translation units" % (changed, len(affected)))
    if len(affected) > mx:
        print("too many affected TUs (%d > %d): run the full suite instead" % (len(affected), mx))
        return 3
    baseline = json.load(open("/root/.vp/BASELINE.json"))
    always_fail = set(baseline.get("always_fail", []))
    tmp = tempfile.mkdtemp(prefix="nmv_aff_")
    rc = 0
    try:
        by_target = {}
        for t, objs in data["targets"].items():
            mine = [o for o in objs if o in affected]
            if mine:
                mains = [o for o in objs if o.endswith("tests.cpp.o")]
                by_target[t] = (mine, mains)

        def comp(o):
            info = data["objs"][o]
            src = info["src"].replace("/repo/", wt + "/", 1)
            out = os.path.join(tmp, o.replace("/", "_"))
            inc = info["includes"].replace("/repo/", wt + "/")
            cmd = "g++ %s %s %s -c %s -o %s" % (info["defines"], info["flags"].replace("-g ", "-g0 "), inc, src, out)
            r = subprocess.run(cmd, shell=True, capture_output=True, text=True)
            return o, out, r.returncode, "\n".join(l for l in r.stderr.splitlines() if "error" in l)[:600]

        for t, (mine, mains) in by_target.items():
            with ThreadPoolExecutor(jobs) as pool:
                res = list(pool.map(comp, mine + mains))
            bad = [r for r in res if r[2] != 0]
            if bad:
                for o, out, c, err in bad:
                    print("COMPILE-FAIL %s\n%s" % (o, err))
                rc = 1
                continue
            exe = os.path.join(tmp, "t_" + t.replace("/", "_"))
            r = subprocess.run(["g++"] + [x[1] for x in res] + ["-o", exe], capture_output=True, text=True)
            if r.returncode:
                print("LINK-FAIL %s %s" % (t, r.stderr[-500:]))
                rc = 1
                continue
            r = subprocess.run([exe], capture_output=True, text=True, timeout=1800)
            fails = []
            cur_file = None
            for line in r.stdout.splitlines():
                m = re.match(r"^(\S+\.cpp):\d+:", line)
                if m:
                    cur_file = m.group(1)
                m = re.match(r"^TEST CASE:\s+(.*)$", line)
                if m and cur_file:
                    fails.append((cur_file.replace(wt + "/", "/repo/"), m.group(1).strip()))
            summ = [l for l in r.stdout.splitlines() if "test cases:" in l]
            print("%s: %s" % (t, summ[-1] if summ else "rc=%d" % r.returncode))
            new = []
            for f, name in sorted(set(fails)):
                key_prefix = "%s::%s" % (f, name)
                if not any(a.startswith(key_prefix) or a.split("::")[-1].startswith(name) and a.startswith(f) for a in always_fail):
                    new.append(key_prefix)
            if new:
                rc = 1
                for n in new:
                    print("TEST-FAIL (not in baseline always_fail): %s" % n)
            elif r.returncode != 0 and not fails:
                print("executable returned %d without parsable failures:\n%s" % (r.returncode, r.stdout[-600:]))
                rc = 1
    finally:
        subprocess.run(["rm", "-rf", tmp])
    print("affected tests: %s" % ("PASS" if rc == 0 else "FAIL"))
    return rc


if __name__ == "__main__":
    sys.exit(main())
