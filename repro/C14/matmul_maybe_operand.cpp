// C14-matmul-maybe-operand-dangling
// view::matmul with a maybe-typed operand (include/nmtools/array/view/matmul.hpp:459-466) returns matmul(unwrap(lhs),unwrap(rhs)); for the operand that is NOT maybe
// unwrap() yields a copy, the new view keeps a pointer to that temporary. Functor application / composition hands maybe-typed results on unchanged, so the functor
// forms (and the plain nested view call) crash or read garbage where the view built from unwrapped stages is fine.
// build: g++ -std=c++17 -O0 -fsanitize=address -I/repo/include matmul_maybe_operand.cpp && ./a.out    -> garbage index (std::out_of_range from array::at) / stack-buffer-overflow / assertion in unwrap, depending on the operand kinds
#include "nmtools/array/ndarray.hpp"
#include "nmtools/array/functional/matmul.hpp"
#include "nmtools/array/functional/ufuncs/minimum.hpp"
#include "nmtools/utility/cast.hpp"
#include <cstdio>
namespace nm = nmtools; namespace view = nm::view; namespace fn = nm::functional; namespace na = nm::array;
int main() {
    setvbuf(stdout, nullptr, _IONBF, 0);
    int a_raw[3][1] = {{2},{3},{4}}; auto a = nm::cast(a_raw, na::kind::ndarray_ds_db);     // run-time shape: views over it are maybe-typed
    int b_raw[1] = {3};              auto b = nm::cast(b_raw, na::kind::ndarray_hs_hb);
    int c_raw[1][2] = {{1,2}};       auto c = nm::cast(c_raw, na::kind::ndarray_cs_fb);
    int d_raw[2][1] = {{5},{6}};     auto d = nm::cast(d_raw, na::kind::ndarray_fs_fb);
    auto v0 = nm::unwrap(view::minimum(a, b));
    auto v1 = nm::unwrap(view::matmul(v0, c));
    auto v2 = nm::unwrap(view::matmul(v1, d));
    printf("view from unwrapped stages : %d %d %d\n", (int)v2(0ul,0ul), (int)v2(1ul,0ul), (int)v2(2ul,0ul));     // 34 51 51
    auto f = fn::matmul * fn::matmul * fn::minimum;
    auto r = nm::unwrap(f(a, b, c, d));                                                              // <- crashes
    printf("functor composition        : %d %d %d\n", (int)r(0ul,0ul), (int)r(1ul,0ul), (int)r(2ul,0ul));
    return 0;
}
