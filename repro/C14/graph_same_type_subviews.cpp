// C14-graph-same-type-subviews-share-id
// A view's node id is a hash of (ids of its operands, hash of its TYPE NAME) (include/nmtools/array/view/decorator.hpp:129-155, 371-386); operands that
// are not views are numbered by their position in that view. Two different sub-views of the same C++ type therefore get the same id:
// negative(a) and negative(b) (a, b of the same array type) are both node 15. get_compute_graph (compute_graph.hpp:186-195 "skip adding nodes if has
// already exists") then drops the second sub-view AND its operand: multiply(negative(a), negative(b)) yields 3 nodes / 2 edges instead of 5 / 4.
// build: g++ -std=c++17 -O0 -I/repo/include graph_same_type_subviews.cpp && ./a.out
#include "nmtools/array/ndarray.hpp"
#include "nmtools/array/functional/ufuncs/multiply.hpp"
#include "nmtools/array/functional/ufuncs/negative.hpp"
#include <cstdio>
namespace nm = nmtools; namespace view = nm::view; namespace fn = nm::functional; namespace na = nm::array; namespace meta = nm::meta;
int main() {
    na::fixed_ndarray<int,2> a; a(0) = 1; a(1) = 2;
    na::fixed_ndarray<int,2> b; b(0) = 10; b(1) = 20;
    auto na_ = view::negative(a);
    auto nb_ = view::negative(b);
    auto v = view::multiply(na_, nb_);
    printf("id(negative(a)) = %d, id(negative(b)) = %d, id(multiply) = %d\n", (int)decltype(na_)::id_type::value, (int)decltype(nb_)::id_type::value, (int)decltype(v)::id_type::value);
    auto g = fn::get_compute_graph(v);
    auto keys = g.nodes();
    constexpr auto N = meta::len_v<decltype(keys)>;
    auto edges = g.out_edges();
    constexpr auto M = meta::len_v<decltype(edges)>;
    printf("graph: %d nodes, %d edges (expected 5 nodes: a, b, negative(a), negative(b), multiply; 4 edges)\n", (int)N, (int)M);
    return (N == 5 && M == 4) ? 0 : 1;
}
