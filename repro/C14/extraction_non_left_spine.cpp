// C14-extraction-non-left-spine
// get_function_composition (include/nmtools/array/functional/function_composition.hpp:42-66 and 86-125) linearises the sub-compositions of ALL
// operands into one chain `f * comp(operand N-1) * ... * comp(operand 0)` without routing operands. A functor_composition passes the result of
// each functor as the FIRST operand of the next one, so the chain reproduces the view only when nothing but the first operand of every stage
// is a view. For subtract(a, square(b)) the extracted composition is `subtract * square`, applied to (a, b) it computes subtract(square(a), b).
// build: g++ -std=c++17 -O0 -I/repo/include extraction_non_left_spine.cpp && ./a.out
#include "nmtools/array/ndarray.hpp"
#include "nmtools/array/functional/ufuncs/subtract.hpp"
#include "nmtools/array/functional/ufuncs/square.hpp"
#include "nmtools/array/functional/ufuncs/negative.hpp"
#include <cstdio>
namespace nm = nmtools; namespace view = nm::view; namespace fn = nm::functional; namespace na = nm::array;
int main() {
    na::fixed_ndarray<int,2> a; a(0) = 1; a(1) = 2;
    na::fixed_ndarray<int,2> b; b(0) = 10; b(1) = 20;
    int bad = 0;
    {
        auto v = view::subtract(a, view::square(b));                 // a - b*b = {-99, -398}
        auto f = fn::get_function_composition(v);
        auto ops = fn::get_function_operands(v);
        auto r = fn::apply(f, ops);                                  // {-9, -16} = a*a - b
        printf("subtract(a, square(b))          view = {%d,%d}   apply(extracted) = {%d,%d}\n", (int)v(0), (int)v(1), (int)r(0), (int)r(1));
        bad += (int)v(0) != (int)r(0);
    }
    {
        auto v = view::subtract(view::square(a), view::negative(b)); // a*a + b = {11, 24}
        auto f = fn::get_function_composition(v);                    // subtract * negative * square
        auto ops = fn::get_function_operands(v);
        auto r = fn::apply(f, ops);                                  // subtract(negative(square(a)), b) = {-11, -24}
        printf("subtract(square(a), negative(b)) view = {%d,%d}   apply(extracted) = {%d,%d}\n", (int)v(0), (int)v(1), (int)r(0), (int)r(1));
        bad += (int)v(0) != (int)r(0);
    }
    return bad ? 1 : 0;
}
