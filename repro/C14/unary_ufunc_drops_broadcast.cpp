// C14-unary-ufunc-drops-explicit-broadcast
// The ufunc specialisations of get_function_composition (function_composition.hpp:98-115) and get_compute_graph (compute_graph.hpp:163-215) skip an operand
// that is a broadcast_to view, also for UNARY ufuncs where it is the user's own view: the extracted composition of negative(broadcast_to(a,[2,3])) is
// `negative` alone and the graph has no broadcast_to node.
// build: g++ -std=c++17 -O0 -I/repo/include unary_ufunc_drops_broadcast.cpp && ./a.out
#include "nmtools/array/ndarray.hpp"
#include "nmtools/array/functional/broadcast_to.hpp"
#include "nmtools/array/functional/ufuncs/negative.hpp"
#include "nmtools/utility/shape.hpp"
#include <cstdio>
namespace nm = nmtools; namespace view = nm::view; namespace fn = nm::functional; namespace na = nm::array; namespace meta = nm::meta;
int main() {
    na::fixed_ndarray<int,1,3> a; a(0,0) = 1; a(0,1) = 2; a(0,2) = 3;
    auto bshape = nmtools_array<size_t,2>{2,3};
    auto b = nm::unwrap(view::broadcast_to(a, bshape));
    auto v = view::negative(b);
    auto f = fn::get_function_composition(v);
    auto ops = fn::get_function_operands(v);
    auto r = fn::apply(f, ops);
    int nv = (int)nm::size(v), nr = (int)nm::size(r);
    printf("view has %d elements (shape 2x3), apply(extracted composition, extracted operands) has %d (shape 1x3)\n", nv, nr);
    auto g = fn::get_compute_graph(v);
    auto keys = g.nodes();
    printf("graph nodes: %d (expected 3: a, broadcast_to, negative)\n", (int)meta::len_v<decltype(keys)>);
    return (nr == nv && meta::len_v<decltype(keys)> == 3) ? 0 : 1;
}
