// C14-composition-dangling-suboperand  (FIXED upstream meanwhile: commit cb50132, same root cause as C13-ufunc-view-operand-dangling-reference)
// get_function_composition of a broadcasting binary ufunc whose operand is itself a view reads a destroyed temporary:
// include/nmtools/array/functional/function_composition.hpp:101
//     const auto& sub_operand = at(get_operands(operand),meta::ct_v<0>);
// get_operands(operand) returns a tuple BY VALUE, at() returns a reference into it, the tuple dies at the end of the full expression and
// sub_operand dangles; line 108 then copies the (dead) sub-view: get_function_composition(sub_operand).
// build: g++ -std=c++17 -O0 -fsanitize=address -I/repo/include dangling_suboperand.cpp && ./a.out   -> AddressSanitizer: stack-use-after-scope
#include "nmtools/array/ndarray.hpp"
#include "nmtools/array/functional/ufuncs/add.hpp"
#include "nmtools/array/functional/ufuncs/tanh.hpp"
#include <cstdio>
namespace nm = nmtools; namespace view = nm::view; namespace fn = nm::functional;
int main() {
    int a[2][3] = {{1,2,3},{4,5,6}};
    int b[3] = {10,20,30};
    auto t = view::tanh(a);
    auto v = view::add(t, b);                        // binary ufunc over a view operand
    auto f = fn::get_function_composition(v);        // <- stack-use-after-scope
    auto ops = fn::get_function_operands(v);
    auto r = fn::apply(f, ops);
    printf("%f\n", (double)r(0, 0));
    return 0;
}
