// C14-swap-maybe-operand-not-applied
// cb::swap / dig1 / bury1 (combinator.hpp:11-18: swap_t returns pack_operands(rhs,lhs)) fed by a maybe-typed value (the result of a functor over run-time shaped
// arrays): pack_operands returns nmtools_maybe<tuple<...>> (utility/fwd.hpp:203-216); apply_function_t<functor_composition_t>::operator() (functor.hpp:471-477)
// checks is_tuple_v<decltype(result)>, false for maybe<tuple>, and pushes the pack as ONE operand: the call silently returns a partially applied composition.
// build: g++ -std=c++17 -O0 -I/repo/include swap_maybe_operand.cpp && ./a.out
#include "nmtools/array/ndarray.hpp"
#include "nmtools/array/functional/ufuncs/add.hpp"
#include "nmtools/array/functional/ufuncs/subtract.hpp"
#include "nmtools/array/functional/combinator.hpp"
#include <cstdio>
#include <vector>
namespace nm = nmtools; namespace view = nm::view; namespace fn = nm::functional; namespace na = nm::array; namespace meta = nm::meta; namespace cb = nm::combinator;
template <typename T, typename = void> struct has_arity : std::false_type {};
template <typename T> struct has_arity<T, std::void_t<decltype(T::arity)>> : std::true_type {};
int main() {
    na::fixed_ndarray<int,3> fa, fb, fc;
    na::dynamic_ndarray<int> da, db, dc;
    da.resize(3); db.resize(3); dc.resize(3);
    for (int i = 0; i < 3; i++) { fa(i) = da(i) = 1 + i; fb(i) = db(i) = 10 + i; fc(i) = dc(i) = 100 + i; }
    auto f = fn::add * cb::swap * fn::subtract;           // (a,b,c) -> add(c, subtract(a,b))
    auto rf = f(fa, fb, fc);                              // compile-time shapes: evaluated
    auto rd = f(da, db, dc);                              // run-time shapes: subtract(a,b) is maybe-typed
    using RF = meta::remove_cvref_t<decltype(rf)>; using RD = meta::remove_cvref_t<decltype(rd)>;
    printf("fixed_ndarray operands : result is %s\n", meta::is_ndarray_v<RF> ? "an array" : (has_arity<RF>::value ? "a partially applied functor" : "something else"));
    printf("dynamic_ndarray operands: result is %s\n", (meta::is_ndarray_v<RD> || meta::is_maybe_v<RD>) ? "an array" : (has_arity<RD>::value ? "a partially applied functor (arity left > 0)" : "something else"));
    return (meta::is_ndarray_v<RD> || meta::is_maybe_v<RD>) ? 0 : 1;
}
