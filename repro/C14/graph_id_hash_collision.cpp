// C14-graph-id-hash-collision
// View ids are polynomial hashes modulo 1033 (include/nmtools/array/index/alias.hpp:62-83, NMTOOLS_ALIAS_DEFAULT_PRIME) of the view's type name, operand
// ids are small integers 0,1,2,...: nothing keeps a view id out of the operand range or two view ids apart. view::add(int[2][3], int[3]) hashes to id 0,
// the id of its own first operand; get_compute_graph of any view built on it does not compile (the colliding node is silently not inserted by
// ct_map::insert, then add_edge looks up a node that is not there), cf. the commented-out get_compute_graph line.
// build: g++ -std=c++17 -O0 -I/repo/include graph_id_hash_collision.cpp && ./a.out        (add -DGRAPH to see the compile error)
#include "nmtools/array/ndarray.hpp"
#include "nmtools/array/functional/ufuncs/add.hpp"
#include "nmtools/array/functional/ufuncs/multiply.hpp"
#include <cstdio>
namespace nm = nmtools; namespace view = nm::view; namespace fn = nm::functional;
int main() {
    int a[2][3] = {{1,2,3},{4,5,6}};
    int b[3] = {10,20,30};
    auto v0 = view::add(a, b);
    auto v1 = view::multiply(v0, b);
    printf("id(add(a,b)) = %d (operand ids are 0 and 1), id(multiply(add(a,b),b)) = %d\n", (int)decltype(v0)::id_type::value, (int)decltype(v1)::id_type::value);
#ifdef GRAPH
    auto g = fn::get_compute_graph(v1);
    (void)g;
#endif
    return (int)decltype(v0)::id_type::value == 0 ? 1 : 0;
}
