// C14-graph-operand-ids-local-to-subview
// get_compute_graph (include/nmtools/array/functional/compute_graph.hpp:65-131) inserts a leaf operand under id = current graph size (109-111) but draws
// the edges from view_type::operands_ids, where a non-view operand is numbered by its POSITION in the view (view/decorator.hpp:313-326).
// matmul(add(a,b), c): nodes a(0) b(1) add c(3) matmul, but the edge into matmul comes from node 1 (= b): b -> matmul, c unconnected.
// build: g++ -std=c++17 -O0 -I/repo/include graph_operand_ids.cpp && ./a.out
#include "nmtools/array/ndarray.hpp"
#include "nmtools/array/functional/ufuncs/add.hpp"
#include "nmtools/array/functional/matmul.hpp"
#include <cstdio>
namespace nm = nmtools; namespace view = nm::view; namespace fn = nm::functional; namespace na = nm::array; namespace meta = nm::meta;
int main() {
    na::fixed_ndarray<int,2,2> a; na::fixed_ndarray<int,2> b; na::fixed_ndarray<int,2,2> c;
    for (int i = 0; i < 2; i++) { b(i) = 5 + i; for (int j = 0; j < 2; j++) { a(i,j) = 1 + 2*i + j; c(i,j) = 9 + 2*i + j; } }
    auto s = view::add(a, b);
    auto v = view::matmul(s, c);
    auto g = fn::get_compute_graph(v);
    auto keys = g.nodes();
    int bad = 0;
    meta::template_for<meta::len_v<decltype(keys)>>([&](auto i) {
        auto k = nm::get<decltype(i)::value>(keys);
        auto node = g.nodes(k);
        using node_t = meta::remove_cvref_pointer_t<decltype(node)>;
        const char* who = "operation";
        if constexpr (meta::is_ndarray_v<node_t> && !meta::is_view_v<node_t>) who = ((const void*)node == (const void*)&a) ? "a" : ((const void*)node == (const void*)&b) ? "b" : ((const void*)node == (const void*)&c) ? "c" : "?";
        printf("node %4d : %s\n", (int)k, who);
    });
    auto es = g.out_edges();
    meta::template_for<meta::len_v<decltype(es)>>([&](auto i) {
        auto e = nm::get<decltype(i)::value>(es);
        printf("edge %4d -> %4d\n", (int)nm::get<0>(e), (int)nm::get<1>(e));
        if ((int)nm::get<0>(e) == 1 && (int)nm::get<1>(e) == (int)decltype(v)::id_type::value) bad = 1;   // b -> matmul
    });
    printf("id(add) = %d, id(matmul) = %d; expected edges: a->add, b->add, add->matmul, c->matmul\n", (int)decltype(s)::id_type::value, (int)decltype(v)::id_type::value);
    return bad;
}
