// C12-binary-1x1-operand-oob: index/ufunc.hpp:73,76,86,89 index a one-column operand by the output row; a (1,1) operand has no such row
// (g++ ... -fsanitize=address reports heap-buffer-overflow; without it garbage is added)
#include "common.hpp"
int main() { row_t<float> a; iota2(a, 3, 2); row_t<float> s; iota2(s, 1, 1); BOTH(na::add(a, s, ctx)); }
