// shared by the C12 reproducers: g++ -std=c++17 -O1 -mavx2 -mfma -I/repo/include <file>.cpp && ./a.out
#pragma once
#include "nmtools/array/eval/simd/x86_avx.hpp"
#include "nmtools/array/array/ufuncs/add.hpp"
#include "nmtools/array/array/ufuncs/multiply.hpp"
#include "nmtools/array/array/ufuncs/subtract.hpp"
#include "nmtools/array/array/ufuncs/sqrt.hpp"
#include "nmtools/array/array/matmul.hpp"
#include "nmtools/array/ndarray.hpp"
#include "nmtools/utility/unwrap.hpp"
#include <vector>
#include <cstdio>
namespace nm = nmtools; namespace na = nm::array; namespace simd = na::simd;
template <typename T> using row_t = na::ndarray_t<std::vector<T>, std::vector<size_t>>;
template <typename T> using col_t = na::ndarray_t<std::vector<T>, std::vector<size_t>, na::resolve_stride_type_t, na::column_major_offset_t>;
// fill in logical (row-major enumeration) order with 1,2,3,...
template <typename A> void iota2(A& a, size_t n, size_t m) { a.resize(std::vector<size_t>{n, m}); float v = 1; for (size_t i = 0; i < n; i++) for (size_t j = 0; j < m; j++) a(i, j) = v++; }
template <typename A> void iota1(A& a, size_t n) { a.resize(std::vector<size_t>{n}); for (size_t i = 0; i < n; i++) a(i) = float(i + 1); }
template <typename R> void show(const char* name, const R& r) {
    printf("%-7s", name);
    if constexpr (nm::meta::is_num_v<R>) printf(" %g\n", (double)r);
    else { auto s = nm::shape(r); printf(" shape=("); for (size_t i = 0; i < (size_t)nm::len(s); i++) printf("%zu,", (size_t)nm::at(s, i)); printf(") flat:"); auto p = nm::data(r); for (size_t i = 0; i < (size_t)nm::size(r); i++) printf(" %g", (double)p[i]); printf("\n"); }
    fflush(stdout);
}
#define BOTH(expr_with_ctx) { auto f = [&](const auto& ctx) { return expr_with_ctx; }; show("scalar", nm::unwrap(f(nm::None))); show("simd", nm::unwrap(f(simd::x86_AVX))); }
