// C12-reduce-multi-axis-not-evaluated: evaluator/ufunc.hpp:231 handles only an index axis, :352 returns false, operator()() (:487) ignores it
#include "common.hpp"
int main() { row_t<float> a; a.resize(std::vector<size_t>{2, 2, 3}); for (int i = 0; i < 12; i++) a.data()[i] = i + 1; std::vector<int> axis{0, 1}; BOTH(na::add.reduce(a, axis, nm::None, nm::None, nm::False, ctx)); }
