// C12-reduce-negative-axis-not-normalised: evaluator/ufunc.hpp:248 recognises only -1; axis=-2 takes the VERTICAL path with a negative axis
// (index/ufunc.hpp:173 loop never runs) -> wrong 2-d reshape -> loads beyond the buffer (-fsanitize=address: heap-buffer-overflow)
#include "common.hpp"
int main() { row_t<float> a; iota2(a, 2, 2); BOTH(na::add.reduce(a, -2, nm::None, nm::None, nm::False, ctx)); }
