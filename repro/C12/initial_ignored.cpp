// C12-reduce-initial-ignored: eval_reduction (evaluator/ufunc.hpp:173-353) never reads view.initial
#include "common.hpp"
int main() { row_t<float> a; iota2(a, 2, 3); BOTH(na::add.reduce(a, 0, nm::None, 10.0f, nm::False, ctx)); BOTH(na::add.reduce(a, 1, nm::None, 10.0f, nm::False, ctx)); BOTH(na::add.reduce(a, nm::None, nm::None, 10.0f, nm::False, ctx)); }
