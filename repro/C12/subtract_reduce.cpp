// C12-reduce-subtract-not-left-fold: eval_reduction folds op(acc, x) per lane from 0 and then combines the lanes with op again (evaluator/ufunc.hpp:203-221, 235-245, 297-339)
#include "common.hpp"
int main() { row_t<float> a; iota2(a, 2, 3); BOTH(na::subtract.reduce(a, 1, nm::None, nm::None, nm::False, ctx)); BOTH(na::subtract.reduce(a, 0, nm::None, nm::None, nm::False, ctx)); }
