// C12-binary-broadcast-non-2d: evaluator/ufunc.hpp:391-400 knows SAME_SHAPE and both-2-d only; >= 3-d broadcast returns false (ignored at :487);
// different ranks abort in utils::isequal (assert), with -DNDEBUG they are left unevaluated too
#include "common.hpp"
int main(int argc, char**) {
    row_t<float> a; a.resize(std::vector<size_t>{2, 1, 3}); for (int i = 0; i < 6; i++) a.data()[i] = i + 1;
    row_t<float> b; b.resize(std::vector<size_t>{1, 2, 3}); for (int i = 0; i < 6; i++) b.data()[i] = 10 * (i + 1);
    BOTH(na::add(a, b, ctx));
    row_t<float> m; iota2(m, 2, 3); row_t<float> v; iota1(v, 3);
    BOTH(na::add(m, v, ctx));   // aborts: isequal.hpp:340 Assertion `len(t)==len(u)' (zeros with -DNDEBUG)
}
