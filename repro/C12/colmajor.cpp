// C12-colmajor-operand-read-flat: the SIMD evaluators walk nmtools::data(operand) linearly (evaluator/ufunc.hpp:57,68 / 378,407 / 118 / 189; matmul.hpp:53)
#include "common.hpp"
int main() {
    col_t<float> c; iota2(c, 2, 8); row_t<float> r; iota2(r, 2, 8);
    BOTH(na::sqrt(c, ctx)); BOTH(na::add(r, c, ctx)); BOTH(na::add.reduce(c, 0, nm::None, nm::None, nm::False, ctx));
    col_t<float> l; iota2(l, 2, 3); col_t<float> m; iota2(m, 3, 2); BOTH(na::matmul(l, m, ctx));
}
