// C12-vector-ext-uninitialised-upper-lanes: vector_extension.hpp:20 vector_size(bit_width / sizeof(T)) is a BYTE count: 32 bytes = 8 lanes for
// vector_128 / 4-byte T, loadu/set1 fill only bit_width/(8*sizeof(T)) = 4 of them.  g++ -std=c++17 -O1 -fsanitize=undefined -I/repo/include
#include "nmtools/array/eval/simd/vector_128.hpp"
#include <cstdio>
#include <cstdint>
namespace simd = nmtools::array::simd;
int main() {
    using op_t = simd::simd_op_t<simd::vector_128_t, int32_t>;
    int32_t a[4] = {1, 2, 3, 4};
    auto v = op_t::loadu(a);
    printf("lanes in the vector type: %zu, lanes initialised: %zu\n", sizeof(v) / sizeof(int32_t), (size_t)op_t::n_elements);
    auto w = op_t::add(v, v);   // upper 4 lanes: indeterminate + indeterminate (UBSan: signed integer overflow when the garbage is large)
    int32_t out[4]; op_t::storeu(out, w); printf("%d %d %d %d\n", out[0], out[1], out[2], out[3]);
}
