// C12-reduce-single-output-zero-seed: evaluator/ufunc.hpp:203 seeds the accumulator of a single-output reduction with set1(0)
#include "common.hpp"
int main() { row_t<float> a; iota1(a, 3); BOTH(na::multiply.reduce(a, nm::None, nm::None, nm::None, nm::False, ctx)); BOTH(na::multiply.reduce(a, 0, nm::None, nm::None, nm::False, ctx)); }
