// C13-ufunc-view-operand-dangling-reference: get_function_composition of a broadcasting ufunc whose operand is a view keeps a reference into a
// destroyed temporary (function_composition.hpp:101  `const auto& sub_operand = at(get_operands(operand),meta::ct_v<0>);`).
// g++ -std=c++17 -O0 -fsanitize=address -I/repo/include repro_dangling.cpp && ./a.out    -> AddressSanitizer: stack-use-after-scope
// (with -fno-sanitize-address-use-after-scope: heap-use-after-free, the destroyed view owned std::vector members)
#include "common.hpp"
#include "nmtools/array/array/transpose.hpp"
#include "nmtools/array/array/ufuncs/add.hpp"
#include "nmtools/array/functional/transpose.hpp"
int main() {
    int a_raw[2][2] = {{1, 2}, {3, 4}}, b_raw[2][2] = {{10, 20}, {30, 40}};
    auto a = nm::cast(a_raw, na::kind::ndarray_ds_db); auto b = nm::cast(b_raw, na::kind::ndarray_ds_db);
    auto v = nm::unwrap(view::add(view::transpose(b, nmtools_array<int, 2>{1, 0}), a));
    auto f = fn::get_function_composition(v);                 // cuda/evaluator.hpp:33
    printf("composition arity %d\n", (int)decltype(f)::arity);
    return 0;
}
