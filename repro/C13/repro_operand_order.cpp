// C13-composition-view-operand-order: concatenate(a, transpose(b)) on the device path evaluates concatenate(transpose(a), b).
// g++ -std=c++17 -I/repo/include repro_operand_order.cpp && ./a.out      (prints host [1 2 3 4 10 30 20 40], kernel [1 3 2 4 10 20 30 40])
#include "common.hpp"
#include "nmtools/array/array/transpose.hpp"
#include "nmtools/array/array/concatenate.hpp"
#include "nmtools/array/functional/transpose.hpp"
#include "nmtools/array/functional/concatenate.hpp"
int main() {
    int a_raw[2][2] = {{1, 2}, {3, 4}}, b_raw[2][2] = {{10, 20}, {30, 40}};
    auto a = nm::cast(a_raw, na::kind::ndarray_ds_db); auto b = nm::cast(b_raw, na::kind::ndarray_ds_db);
    auto v = nm::unwrap(view::concatenate(a, view::transpose(b, nmtools_array<int, 2>{1, 0}), 0));
    auto host = nm::unwrap(na::eval(v, nm::None, nm::None, na::RowMajorResolver));
    auto f = fn::get_function_composition(v);                 // cuda/evaluator.hpp:33
    const auto& operands = fn::get_function_operands(v);      // cuda/evaluator.hpp:34   -> (&a, &b)
    auto dev = nm::utl::tuple{device_array_of(*nm::get<0>(operands)), device_array_of(*nm::get<1>(operands))};
    std::vector<int> out(8, -1); size_t shp[2] = {4, 2};
    for (size_t t = 0; t < 8; t++) kernel(f, out.data(), shp, 2, dev, t, 0, 32);
    printf("host  :"); for (size_t i = 0; i < 4; i++) for (size_t j = 0; j < 2; j++) printf(" %d", (int)host(i, j)); printf("\n");
    printf("kernel:"); for (auto x : out) printf(" %d", x); printf("\n");
    return 0;
}
