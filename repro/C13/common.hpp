// shared by the C13 reproducers: the kernel entry of include/nmtools/array/eval/cuda/context.hpp:16-30 and the host side of
// cuda/context.hpp (run / create_array) with host memory instead of cudaMalloc. Only nmtools headers are used.
#pragma once
#include "nmtools/array/ndarray.hpp"
#include "nmtools/array/eval.hpp"
#include "nmtools/array/eval/kernel_helper.hpp"
#include "nmtools/array/functional.hpp"
#include "nmtools/utility/cast.hpp"
#include <cstdio>
#include <vector>
namespace nm = nmtools; namespace na = nmtools::array; namespace view = nmtools::view; namespace fn = nmtools::functional; namespace meta = nmtools::meta;

template <typename array_t> auto device_array_of(const array_t& a) {   // context_t::create_array
    using T = meta::get_element_type_t<array_t>;
    auto dim = nm::dim(a); auto shape = nm::shape(a);
    nmtools_static_vector<size_t, 8> s; s.resize(dim);
    for (size_t i = 0; i < (size_t)dim; i++) nm::at(s, i) = nm::at(shape, i);
    return na::device_array<T, nmtools_static_vector<size_t, 8>, decltype(dim)>{const_cast<T*>(nm::data(a)), s, dim};
}
template <typename F, typename T, typename Ops> void kernel(const F fun, T* out, const size_t* shp, size_t dim, const Ops operands, size_t tid, size_t bid, size_t bs) {
    auto output = na::create_mutable_array<0>(out, shp, dim);
    auto result = fn::apply(fun, operands);
    na::assign_result(output, result, na::kernel_size<size_t>{tid, 0, 0}, na::kernel_size<size_t>{bid, 0, 0}, na::kernel_size<size_t>{bs, 1, 1});
}
