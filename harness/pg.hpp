// progen prelude: normalising printer for generated programs (E2). Works with STL, with -DNMTOOLS_DISABLE_STL and
// with clang. Only the harness itself uses std:: containers; everything handed to nmtools uses the nmtools_* aliases.
#pragma once
#include "nmtools/array/ndarray.hpp"
#include "nmtools/array/eval.hpp"
#include "nmtools/utility/unwrap.hpp"
#include "nmtools/utility/has_value.hpp"
#include "nmtools/utility/shape.hpp"
#include "nmtools/utility/cast.hpp"
#include "nmtools/constants.hpp"
#include "nmtools/meta.hpp"

#include <cstdio>
#include <cstdlib>
#include <cmath>
#include <string>
#include <vector>
#include <type_traits>

namespace nm = nmtools;
namespace na = nmtools::array;
namespace view = nmtools::view;
namespace meta = nmtools::meta;
namespace ix = nmtools::index;
using namespace nmtools::literals;

extern "C" inline void nmtools_verif_event(int kind, long a, long b);
namespace pg {
struct ev_t { int k; long a, b; };
inline std::vector<ev_t>& events() { static std::vector<ev_t> e; return e; }
}
extern "C" inline void nmtools_verif_event(int kind, long a, long b) { if (pg::events().size() < 32) pg::events().push_back({kind, a, b}); }

namespace pg {

template <typename T> const char* tname() {
    using U = std::remove_cv_t<std::remove_reference_t<T>>;
    if constexpr (std::is_same_v<U, bool>) return "bool";
    else if constexpr (std::is_same_v<U, float>) return "f32";
    else if constexpr (std::is_same_v<U, double>) return "f64";
    else if constexpr (std::is_integral_v<U>) {
        if constexpr (std::is_signed_v<U>) return sizeof(U) == 1 ? "i8" : sizeof(U) == 2 ? "i16" : sizeof(U) == 4 ? "i32" : "i64";
        else return sizeof(U) == 1 ? "u8" : sizeof(U) == 2 ? "u16" : sizeof(U) == 4 ? "u32" : "u64";
    } else return "?";
}

template <typename T> std::string num(T v) {
    char buf[48];
    if constexpr (std::is_same_v<T, bool>) { return v ? "1" : "0"; }
    else if constexpr (std::is_floating_point_v<T>) {
        if (std::isnan(v)) return "NaN";
        if (std::isinf(v)) return v > 0 ? "Infinity" : "-Infinity";
        snprintf(buf, sizeof buf, "%.17g", (double)v); return buf;
    } else if constexpr (std::is_signed_v<T>) { snprintf(buf, sizeof buf, "%lld", (long long)v); return buf; }
    else { snprintf(buf, sizeof buf, "%llu", (unsigned long long)v); return buf; }
}

// any index-like value -> vector<long long>
template <typename S> std::vector<long long> to_vec(const S& s) {
    std::vector<long long> r;
    using U = meta::remove_cvref_t<S>;
    if constexpr (nm::is_none_v<U>) {}
    else if constexpr (meta::is_num_v<U> || meta::is_constant_index_v<U>) r.push_back((long long)s);
    else if constexpr (meta::is_tuple_v<U> || meta::is_constant_index_array_v<U> || meta::is_clipped_index_array_v<U>) {
        constexpr auto N = meta::len_v<U>;
        meta::template_for<N>([&](auto i) { r.push_back((long long)nm::at(s, i)); });
    } else {
        auto n = nm::len(s);
        for (size_t i = 0; i < (size_t)n; i++) r.push_back((long long)nm::at(s, i));
    }
    return r;
}

inline std::string list(const std::vector<long long>& v) { std::string s = "["; for (size_t i = 0; i < v.size(); i++) { if (i) s += ","; s += std::to_string(v[i]); } return s + "]"; }

template <typename V> std::vector<long long> shape_of(const V& v) {
    using U = meta::remove_cvref_t<V>;
    if constexpr (meta::is_num_v<U> && !meta::is_ndarray_v<U>) return {};
    else return to_vec(nm::shape<false, true>(v));
}

// element read with a run-time index (fixed-size index array when the dimension is static)
template <typename V> auto elem(const V& v, const std::vector<long long>& idx) {
    using U = meta::remove_cvref_t<V>;
    if constexpr (meta::is_num_v<U>) { using T = meta::get_element_type_t<U>; return static_cast<T>(v); }
    else {
        constexpr auto D = meta::fixed_dim_v<U>;
        using shape_type = meta::remove_cvref_t<decltype(nm::shape<false, true>(v))>;
        constexpr auto L = meta::len_v<shape_type>;
        if constexpr (!meta::is_fail_v<decltype(D)>) {
            nmtools_array<size_t, (size_t)D> fi{}; for (size_t i = 0; i < (size_t)D; i++) nm::at(fi, i) = (size_t)idx[i];
            return nm::apply_at(v, fi);
        } else if constexpr ((L > 0)) {
            nmtools_array<size_t, (size_t)L> fi{}; for (size_t i = 0; i < (size_t)L; i++) nm::at(fi, i) = (size_t)idx[i];
            return nm::apply_at(v, fi);
        } else {
            nmtools_list<size_t> fi; fi.resize(idx.size()); for (size_t i = 0; i < idx.size(); i++) nm::at(fi, i) = (size_t)idx[i];
            return nm::apply_at(v, fi);
        }
    }
}

inline bool next_index(std::vector<long long>& idx, const std::vector<long long>& shp) {
    for (size_t k = shp.size(); k-- > 0;) { if (++idx[k] < shp[k]) return true; idx[k] = 0; }
    return false;
}

template <typename X> std::string obs(const X& x);

template <typename X> std::string obs_fields(const X& x) {
    using U = meta::remove_cvref_t<X>;
    if constexpr (meta::is_nothing_v<U>) return "\"hv\":false";
    else if constexpr (meta::is_fail_v<U>) return "\"hv\":false,\"kind\":\"failtype\"";
    else if constexpr (nm::is_none_v<U>) return "\"hv\":true,\"kind\":\"none\"";
    else if constexpr (meta::is_maybe_v<U>) { if (!nm::has_value(x)) return "\"hv\":false,\"maybe\":true"; return "\"maybe\":true," + obs_fields(*x); }
    else if constexpr (meta::is_either_v<U>) {
        using L = meta::get_either_left_t<U>; using R = meta::get_either_right_t<U>;
        if (auto l = nm::get_if<L>(&x)) return "\"alt\":0," + obs_fields(*l);
        else if (auto r = nm::get_if<R>(&x)) return "\"alt\":1," + obs_fields(*r);
        else return "\"hv\":false";
    } else if constexpr (meta::is_num_v<U> && !meta::is_ndarray_v<U>) {
        using T = meta::get_element_type_t<U>;
        return std::string("\"hv\":true,\"kind\":\"num\",\"t\":\"") + tname<T>() + "\",\"shape\":[],\"elems\":[" + num(static_cast<T>(x)) + "]";
    } else if constexpr (meta::is_constant_index_v<U>) {
        return std::string("\"hv\":true,\"kind\":\"ct\",\"shape\":[],\"elems\":[") + std::to_string((long long)x) + "]";
    } else if constexpr (meta::is_index_array_v<U> || meta::is_constant_index_array_v<U> || meta::is_clipped_index_array_v<U>) {
        auto v = to_vec(x);
        return std::string("\"hv\":true,\"kind\":\"idx\",\"shape\":[") + std::to_string(v.size()) + "],\"elems\":" + list(v);
    } else if constexpr (meta::is_ndarray_v<U> || meta::is_num_v<U>) {
        using T = meta::get_element_type_t<U>;
        auto shp = shape_of(x);
        std::string s = std::string("\"hv\":true,\"kind\":\"nd\",\"t\":\"") + tname<T>() + "\",\"shape\":" + list(shp) + ",\"elems\":[";
        bool huge = false; long long total = 1;
        for (auto e : shp) { if (e < 0 || e > (1 << 20)) huge = true; else total *= e; if (total > (1 << 20)) huge = true; }
        if (!huge && total > 0) {
            std::vector<long long> idx(shp.size(), 0); bool first = true;
            do { if (!first) s += ","; first = false; s += num((T)elem(x, idx)); } while (next_index(idx, shp));
        }
        s += "]";
        if (huge) s += ",\"huge\":true";
        return s;
    } else if constexpr (meta::is_tuple_v<U>) {
        std::string s = "\"hv\":true,\"kind\":\"tup\",\"items\":[";
        constexpr auto N = meta::len_v<U>;
        meta::template_for<N>([&](auto i) { if (decltype(i)::value) s += ","; s += obs(nm::get<decltype(i)::value>(x)); });
        return s + "]";
    } else return "\"hv\":false,\"kind\":\"unknown\"";
}
template <typename X> std::string obs(const X& x) { return "{" + obs_fields(x) + "}"; }

// static facts of a (possibly maybe-wrapped) type
template <typename T> std::string static_facts() {
    using U0 = meta::remove_cvref_t<T>;
    if constexpr (meta::is_maybe_v<U0>) return static_facts<meta::get_maybe_type_t<U0>>();
    else {
        using U = U0;
        std::string s = "{";
        constexpr auto fs = meta::fixed_shape_v<U>;
        constexpr auto fd = meta::fixed_dim_v<U>;
        constexpr auto fz = meta::fixed_size_v<U>;
        constexpr auto bd = meta::bounded_dim_v<U>;
        constexpr auto bz = meta::bounded_size_v<U>;
        if constexpr (!meta::is_fail_v<decltype(fs)>) s += "\"fixed_shape\":" + list(to_vec(fs)) + ","; else s += "\"fixed_shape\":null,";
        if constexpr (!meta::is_fail_v<decltype(fd)>) s += "\"fixed_dim\":" + std::to_string((long long)fd) + ","; else s += "\"fixed_dim\":null,";
        if constexpr (!meta::is_fail_v<decltype(fz)>) s += "\"fixed_size\":" + std::to_string((long long)fz) + ","; else s += "\"fixed_size\":null,";
        if constexpr (!meta::is_fail_v<decltype(bd)>) s += "\"bounded_dim\":" + std::to_string((long long)bd) + ","; else s += "\"bounded_dim\":null,";
        if constexpr (!meta::is_fail_v<decltype(bz)>) s += "\"bounded_size\":" + std::to_string((long long)bz); else s += "\"bounded_size\":null";
        return s + "}";
    }
}

// run-time shape / dim / size of a (possibly maybe-wrapped) array or view
template <typename V> std::string runtime_facts(const V& v) {
    using U = meta::remove_cvref_t<V>;
    if constexpr (meta::is_maybe_v<U>) { if (!nm::has_value(v)) return "null"; return runtime_facts(*v); }
    else if constexpr (meta::is_either_v<U>) {
        using L = meta::get_either_left_t<U>; using R = meta::get_either_right_t<U>;
        if (auto l = nm::get_if<L>(&v)) return runtime_facts(*l);
        else if (auto r = nm::get_if<R>(&v)) return runtime_facts(*r);
        else return "null";
    } else if constexpr (meta::is_num_v<U> && !meta::is_ndarray_v<U>) return "{\"shape\":[],\"dim\":0,\"size\":1}";
    else {
        auto shp = shape_of(v);
        return "{\"shape\":" + list(shp) + ",\"dim\":" + std::to_string((long long)nm::dim(v)) + ",\"size\":" + std::to_string((long long)nm::size(v)) + "}";
    }
}

// fill an array object through a(i...) in C order from a flat list (for classes without a raw-array assignment)
template <typename A, typename T> void fill(A& a, std::initializer_list<T> data) {
    auto shp = shape_of(a);
    std::vector<long long> idx(shp.size(), 0);
    auto it = data.begin();
    constexpr auto D = meta::fixed_dim_v<meta::remove_cvref_t<A>>;
    do {
        if (it == data.end()) break;
        if constexpr (!meta::is_fail_v<decltype(D)>) {
            nmtools_array<size_t, (size_t)D> fi{}; for (size_t i = 0; i < (size_t)D; i++) nm::at(fi, i) = (size_t)idx[i];
            nm::apply_at(a, fi) = *it++;
        } else {
            nmtools_list<size_t> fi; fi.resize(idx.size()); for (size_t i = 0; i < idx.size(); i++) nm::at(fi, i) = (size_t)idx[i];
            nm::apply_at(a, fi) = *it++;
        }
    } while (next_index(idx, shp));
}

// fill through a(i...) in C order with start, start+1, ...
template <typename A> void fill_arange(A& a, long long start) {
    using T = meta::get_element_type_t<meta::remove_cvref_t<A>>;
    auto shp = shape_of(a);
    for (auto e : shp) if (e <= 0 || e > 4096) return;
    std::vector<long long> idx(shp.size(), 0);
    constexpr auto D = meta::fixed_dim_v<meta::remove_cvref_t<A>>;
    do {
        if constexpr (!meta::is_fail_v<decltype(D)>) {
            nmtools_array<size_t, (size_t)D> fi{}; for (size_t i = 0; i < (size_t)D; i++) nm::at(fi, i) = (size_t)idx[i];
            nm::apply_at(a, fi) = (T)start++;
        } else {
            nmtools_list<size_t> fi; fi.resize(idx.size()); for (size_t i = 0; i < idx.size(); i++) nm::at(fi, i) = (size_t)idx[i];
            nm::apply_at(a, fi) = (T)start++;
        }
    } while (next_index(idx, shp));
}

// resize an array object to a run-time shape given as vector (dimension fixed to D when the class needs it)
template <size_t D, typename A> bool resize_to(A& a, const std::vector<long long>& shp) {
    nmtools_array<size_t, D> s{};
    if (shp.size() != D) return false;
    for (size_t i = 0; i < D; i++) nm::at(s, i) = (size_t)shp[i];
    if constexpr (std::is_void_v<decltype(a.resize(s))>) { a.resize(s); return true; }
    else return (bool)a.resize(s);
}

// all lines of stdin as integer lists
inline std::vector<std::vector<long long>> read_int_lines() {
    std::vector<std::vector<long long>> out;
    char buf[4096];
    while (fgets(buf, sizeof buf, stdin)) {
        std::vector<long long> v; char* p = buf;
        while (*p) { while (*p == ' ' || *p == ',' || *p == '[' || *p == ']') p++; if (*p == '\n' || !*p) break; char* e; long long x = strtoll(p, &e, 10); if (e == p) break; v.push_back(x); p = e; }
        if (!v.empty()) out.push_back(v);
    }
    return out;
}

inline std::string events_json() {
    std::string s = "[";
    for (size_t i = 0; i < events().size(); i++) { if (i) s += ","; s += "[" + std::to_string(events()[i].k) + "," + std::to_string(events()[i].a) + "," + std::to_string(events()[i].b) + "]"; }
    events().clear();
    return s + "]";
}

inline void emit(const std::string& id, const std::string& body) { printf("{\"id\":\"%s\",%s,\"events\":%s}\n", id.c_str(), body.c_str(), events_json().c_str()); fflush(stdout); }

} // namespace pg
