// C19: operation histories on the STL-free containers, state reported after every step, counting allocator.
#include "json.hpp"
#include <cstdlib>
#include <cstdio>
#include <cstring>
#include <optional>
#include <map>
#include <functional>
#include <variant>
#include <vector>

// ---- counting allocator (the macros are honoured by nmtools/utl/vector.hpp) ----
namespace nmv_alloc {
    inline long allocs = 0, frees = 0;
    inline std::map<void*, size_t>& live() { static std::map<void*, size_t> m; return m; }
    inline long bad_free = 0;
    inline void* counted_malloc(size_t n) { void* p = ::malloc(n ? n : 1); allocs++; live()[p] = n; return p; }
    inline void counted_free(void* p) {
        if (!p) return;
        auto it = live().find(p);
        if (it == live().end()) { bad_free++; return; }
        live().erase(it); frees++; ::free(p);
    }
}
#define nmtools_malloc ::nmv_alloc::counted_malloc
#define nmtools_free ::nmv_alloc::counted_free

#include "nmtools/utl.hpp"
#include "nmtools/utility/small_vector.hpp"
#include "nmtools/utility/get_if.hpp"
#include "nmtools/utility/at.hpp"
#include "nmtools/utility/shape.hpp"

namespace nm = nmtools;
namespace utl = nmtools::utl;
using nmv::J; using nmv::W;

namespace nmv {
using handler_t = std::function<void(const J&, W&)>;
std::map<std::string, handler_t>& registry();
struct registrar { registrar(const char* n, handler_t h) { registry()[n] = std::move(h); } };
}

template <typename T> static void put_num(W& w, const T& v) { w.num(v); }

// ---------------- value writers ----------------
template <typename V> static void write_seq(W& w, const V& v) {
    w.beg_obj(); w.key("size").num((unsigned long long)v.size());
    w.key("elems").beg_arr(); for (size_t i = 0; i < (size_t)v.size(); i++) w.num(v[i]); w.end_arr(); w.end_obj();
}
static void write_val(W& w, int v) { w.num(v); }
static void write_val(W& w, double v) { w.num(v); }
template <typename T> static void write_val(W& w, const utl::vector<T>& v) { write_seq(w, v); }
template <typename T, size_t N> static void write_val(W& w, const utl::static_vector<T, N>& v) { write_seq(w, v); }

template <typename T> static T read_val(const J& j);
template <> int read_val<int>(const J& j) { return (int)j.as_int(); }
template <> double read_val<double>(const J& j) { return j.as_dbl(); }
template <> utl::vector<int> read_val<utl::vector<int>>(const J& j) { utl::vector<int> v; v.resize(0); for (auto& e : j.a) v.push_back((int)e.as_int()); return v; }
template <> utl::static_vector<int, 4> read_val<utl::static_vector<int, 4>>(const J& j) { utl::static_vector<int, 4> v; for (auto& e : j.a) v.push_back((int)e.as_int()); return v; }

// ---------------- sequence containers ----------------
template <typename C, typename T>
static void run_seq(const J& A, W& w) {
    std::optional<C> slot[2];
    auto dump = [&]() {
        w.beg_arr();
        for (int s = 0; s < 2; s++) { if (slot[s]) write_seq(w, *slot[s]); else w.null(); }
        w.end_arr();
    };
    w.key("trace").beg_arr();
    for (auto& st : A["steps"].a) {
        const std::string& op = st[0].as_str();
        int s = (int)st[1].as_int();
        if (op == "new") {
            const std::string& kind = st[2].as_str();
            if (kind == "default") slot[s].emplace();
            else if (kind == "sized") {
                if constexpr (std::is_constructible_v<C, size_t>) slot[s].emplace((size_t)st[3].as_int()); else slot[s].emplace();
            } else if (kind == "values") {
                auto v = st[3].a;
                if constexpr (std::is_constructible_v<C, T, T>) {
                    if (v.size() == 2) slot[s].emplace(read_val<T>(v[0]), read_val<T>(v[1]));
                    else if (v.size() == 3) slot[s].emplace(read_val<T>(v[0]), read_val<T>(v[1]), read_val<T>(v[2]));
                    else if (v.size() == 4) slot[s].emplace(read_val<T>(v[0]), read_val<T>(v[1]), read_val<T>(v[2]), read_val<T>(v[3]));
                    else slot[s].emplace();
                } else slot[s].emplace();
            } else if (kind == "copy") slot[s].emplace(*slot[(int)st[3].as_int()]);
        } else if (op == "assign") { *slot[s] = *slot[(int)st[2].as_int()]; }
        else if (op == "push") { slot[s]->push_back(read_val<T>(st[2])); }
        else if (op == "resize") { slot[s]->resize((size_t)st[2].as_int()); }
        else if (op == "write") { (*slot[s])[(size_t)st[2].as_int()] = read_val<T>(st[3]); }
        else if (op == "write_at") { slot[s]->at((size_t)st[2].as_int()) = read_val<T>(st[3]); }
        else if (op == "destroy") { slot[s].reset(); }
        dump();
    }
    w.end_arr();
    slot[0].reset(); slot[1].reset();
}

// ---------------- utl::array ----------------
template <typename T, size_t N>
static void run_array(const J& A, W& w) {
    using C = utl::array<T, N>;
    std::optional<C> slot[2];
    auto dump = [&]() { w.beg_arr(); for (int s = 0; s < 2; s++) { if (slot[s]) write_seq(w, *slot[s]); else w.null(); } w.end_arr(); };
    w.key("trace").beg_arr();
    for (auto& st : A["steps"].a) {
        const std::string& op = st[0].as_str();
        int s = (int)st[1].as_int();
        if (op == "new") {
            const std::string& kind = st[2].as_str();
            if (kind == "copy") slot[s].emplace(*slot[(int)st[3].as_int()]);
            else { C c{}; if (kind == "values") { size_t i = 0; for (auto& e : st[3].a) if (i < N) c[i++] = read_val<T>(e); } slot[s].emplace(c); }
        } else if (op == "assign") { *slot[s] = *slot[(int)st[2].as_int()]; }
        else if (op == "write") { (*slot[s])[(size_t)st[2].as_int()] = read_val<T>(st[3]); }
        else if (op == "write_at") { slot[s]->at((size_t)st[2].as_int()) = read_val<T>(st[3]); }
        else if (op == "destroy") { slot[s].reset(); }
        dump();
    }
    w.end_arr();
}

// ---------------- maybe ----------------
template <typename T>
static void run_maybe(const J& A, W& w) {
    using C = utl::maybe<T>;
    std::optional<C> slot[2];
    auto dump = [&]() {
        w.beg_arr();
        for (int s = 0; s < 2; s++) {
            if (!slot[s]) { w.null(); continue; }
            w.beg_obj(); w.key("has").boolean(slot[s]->has_value());
            if (slot[s]->has_value()) { w.key("v"); write_val(w, **slot[s]); }
            w.end_obj();
        }
        w.end_arr();
    };
    w.key("trace").beg_arr();
    for (auto& st : A["steps"].a) {
        const std::string& op = st[0].as_str();
        int s = (int)st[1].as_int();
        if (op == "new") {
            const std::string& kind = st[2].as_str();
            if (kind == "default") slot[s].emplace();
            else if (kind == "none") slot[s].emplace(utl::nothing);
            else if (kind == "value") slot[s].emplace(read_val<T>(st[3]));
            else if (kind == "copy") slot[s].emplace(*slot[(int)st[3].as_int()]);
        } else if (op == "assign") { *slot[s] = *slot[(int)st[2].as_int()]; }
        else if (op == "assign_val") { *slot[s] = read_val<T>(st[2]); }
        else if (op == "assign_none") { *slot[s] = C{utl::nothing}; }
        else if (op == "destroy") { slot[s].reset(); }
        dump();
    }
    w.end_arr();
    slot[0].reset(); slot[1].reset();
}

// ---------------- either ----------------
template <typename L, typename R>
static void run_either(const J& A, W& w) {
    using C = utl::either<L, R>;
    std::optional<C> slot[2];
    auto dump = [&]() {
        w.beg_arr();
        for (int s = 0; s < 2; s++) {
            if (!slot[s]) { w.null(); continue; }
            w.beg_obj();
            if (auto l = nm::get_if<L>(&*slot[s])) { w.key("alt").num(0); w.key("v"); write_val(w, *l); }
            else if (auto r = nm::get_if<R>(&*slot[s])) { w.key("alt").num(1); w.key("v"); write_val(w, *r); }
            else w.key("alt").num(-1);
            w.end_obj();
        }
        w.end_arr();
    };
    w.key("trace").beg_arr();
    for (auto& st : A["steps"].a) {
        const std::string& op = st[0].as_str();
        int s = (int)st[1].as_int();
        if (op == "new") {
            const std::string& kind = st[2].as_str();
            if (kind == "default") slot[s].emplace();
            else if (kind == "left") slot[s].emplace(read_val<L>(st[3]));
            else if (kind == "right") slot[s].emplace(read_val<R>(st[3]));
            else if (kind == "copy") slot[s].emplace(*slot[(int)st[3].as_int()]);
        } else if (op == "assign") { *slot[s] = *slot[(int)st[2].as_int()]; }
        else if (op == "assign_left") { *slot[s] = read_val<L>(st[2]); }
        else if (op == "assign_right") { *slot[s] = read_val<R>(st[2]); }
        else if (op == "destroy") { slot[s].reset(); }
        dump();
    }
    w.end_arr();
    slot[0].reset(); slot[1].reset();
}

// ---------------- tuple ----------------
template <template <typename...> typename TUP>
static void run_tuple(const J& A, W& w) {
    using C = TUP<int, double, int>;
    std::optional<C> slot[2];
    auto dump = [&]() {
        w.beg_arr();
        for (int s = 0; s < 2; s++) {
            if (!slot[s]) { w.null(); continue; }
            w.beg_arr(); w.num(utl::get<0>(*slot[s])); w.num(utl::get<1>(*slot[s])); w.num(utl::get<2>(*slot[s])); w.end_arr();
        }
        w.end_arr();
    };
    w.key("trace").beg_arr();
    for (auto& st : A["steps"].a) {
        const std::string& op = st[0].as_str();
        int s = (int)st[1].as_int();
        if (op == "new") {
            const std::string& kind = st[2].as_str();
            if (kind == "values") slot[s].emplace((int)st[3][0].as_int(), st[3][1].as_dbl(), (int)st[3][2].as_int());
            else if (kind == "copy") slot[s].emplace(*slot[(int)st[3].as_int()]);
            else slot[s].emplace();
        } else if (op == "assign") { *slot[s] = *slot[(int)st[2].as_int()]; }
        else if (op == "write") {
            int i = (int)st[2].as_int();
            if (i == 0) utl::get<0>(*slot[s]) = (int)st[3].as_int();
            else if (i == 1) utl::get<1>(*slot[s]) = st[3].as_dbl();
            else utl::get<2>(*slot[s]) = (int)st[3].as_int();
        } else if (op == "destroy") { slot[s].reset(); }
        dump();
    }
    w.end_arr();
}

static void hist(const J& A, W& w) {
    nmv_alloc::allocs = nmv_alloc::frees = nmv_alloc::bad_free = 0;
    nmv_alloc::live().clear();
    const std::string& t = A["type"].as_str();
    if (t == "vector_int") run_seq<utl::vector<int>, int>(A, w);
    else if (t == "vector_double") run_seq<utl::vector<double>, double>(A, w);
    else if (t == "static_vector4") run_seq<utl::static_vector<int, 4>, int>(A, w);
    else if (t == "static_vector8") run_seq<utl::static_vector<double, 8>, double>(A, w);
    else if (t == "small_vector6") run_seq<nm::small_vector<int, 6>, int>(A, w);
    else if (t == "small_vector6_stl") run_seq<nm::small_vector<int, 6, std::variant, utl::static_vector, std::vector>, int>(A, w);
    else if (t == "array4") run_array<int, 4>(A, w);
    else if (t == "array3d") run_array<double, 3>(A, w);
    else if (t == "maybe_int") run_maybe<int>(A, w);
    else if (t == "maybe_double") run_maybe<double>(A, w);
    else if (t == "maybe_vec") run_maybe<utl::vector<int>>(A, w);
    else if (t == "either_int_double") run_either<int, double>(A, w);
    else if (t == "either_int_vec") run_either<int, utl::vector<int>>(A, w);
    else if (t == "either_vec_svec") run_either<utl::vector<int>, utl::static_vector<int, 4>>(A, w);
    else if (t == "tuple") run_tuple<utl::tuple>(A, w);
    else if (t == "tuplev2") run_tuple<utl::tuplev2>(A, w);
    else throw std::runtime_error("unknown type " + t);
    w.key("allocs").num(nmv_alloc::allocs);
    w.key("frees").num(nmv_alloc::frees);
    w.key("live").num((long)nmv_alloc::live().size());
    w.key("bad_free").num(nmv_alloc::bad_free);
    // release whatever leaked so that one leaking history does not distort the next one
    for (auto& kv : nmv_alloc::live()) ::free(kv.first);
    nmv_alloc::live().clear();
}
static nmv::registrar reg_hist("hist", hist);
