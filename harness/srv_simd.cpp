// C12: SIMD evaluation vs default (scalar) evaluation of the same call on the same operands.
//
// request: {"op":"simd","ctx":C,"f":F,"form":"unary"|"binary"|"reduce"|"outer"|"matmul","dt":"f32"|"f64"|"i32"|"i64",
//           "a":{"shape":[..],"data":[..],"layout":"row"|"col"}, "b":{...}, "p":[params of the activation],
//           "axis":null|int|[..], "keepdims":null|true|false|"ct_true"|"ct_false", "initial":null|num}
// "data" is in logical (row-major enumeration) order whatever the storage layout of the operand is.
// answer:  {"simd":{observe_fields}, "scalar":{observe_fields}}  |  {"unsupported": why}
//
// keepdims null = the default argument (False); integers: binary/reduce/outer/matmul only, row-major operands only.
// Servers: "simd" = all 49 parts; "simd_<ctx>" = dispatcher + the 8 parts of one context (nmv/servers.d/simd_*.json).
// NMV_PART 0 is the dispatcher ("simd" -> "simd:<ctx>:<group>"); part 1 + ctx*C12_NSUB + sub holds one (context, op group).
#include "nmv.hpp"

#define C12_NSUB 8
#if NMV_PART > 0
#define C12_CTX ((NMV_PART - 1) / C12_NSUB)
#define C12_SUB ((NMV_PART - 1) % C12_NSUB)
#else
#define C12_CTX (-1)
#define C12_SUB (-1)
#endif

#if C12_CTX == 0
#include "nmtools/array/eval/simd/x86_sse.hpp"
#define C12_CTX_OBJ na::simd::x86_SSE
#define C12_CTX_NAME "x86_SSE"
#elif C12_CTX == 1
#include "nmtools/array/eval/simd/x86_avx.hpp"
#define C12_CTX_OBJ na::simd::x86_AVX
#define C12_CTX_NAME "x86_AVX"
#elif C12_CTX == 2
#include "nmtools/array/eval/simd/vector_128.hpp"
#define C12_CTX_OBJ na::simd::vector_128
#define C12_CTX_NAME "vector_128"
#elif C12_CTX == 3
#include "nmtools/array/eval/simd/vector_256.hpp"
#define C12_CTX_OBJ na::simd::vector_256
#define C12_CTX_NAME "vector_256"
#elif C12_CTX == 4
#include "nmtools/array/eval/simd/vector_512.hpp"
#define C12_CTX_OBJ na::simd::vector_512
#define C12_CTX_NAME "vector_512"
#elif C12_CTX == 5
// environment shim: the installed SIMDe (0.7.4) predates the mask-register helpers used by simde_avx512/ufunc.hpp
#include <simde/x86/avx512.h>
#if SIMDE_VERSION < HEDLEY_VERSION_ENCODE(0, 8, 0)
#define C12_MASK_SHIM(N) \
    static inline simde__mmask##N simde_kxor_mask##N(simde__mmask##N a, simde__mmask##N b) { return (simde__mmask##N)(a ^ b); } \
    static inline simde__mmask##N simde_knot_mask##N(simde__mmask##N a) { return (simde__mmask##N)(~a); }
C12_MASK_SHIM(8) C12_MASK_SHIM(16) C12_MASK_SHIM(32) C12_MASK_SHIM(64)
#endif
#include "nmtools/array/eval/simd/simde_avx512.hpp"
#define C12_CTX_OBJ na::simd::simde_AVX512
#define C12_CTX_NAME "simde_AVX512"
#endif

using namespace nmv;

#if NMV_PART == 0
// ------------------------------------------------------------------ dispatcher
static std::string group_of(const std::string& form, const std::string& f) {
    if (form == "unary") {
        for (const char* n : {"sqrt", "ceil", "floor", "relu", "relu6", "hardtanh"}) if (f == n) return "unaryA";
        return "unaryB";
    }
    if (form == "reduce") return "reduce_" + f;
    return form;
}
NMV_OP("simd") {
    auto key = "simd:" + A["ctx"].as_str() + ":" + group_of(A["form"].as_str(), A["f"].as_str());
    auto& reg = registry();
    auto it = reg.find(key);
    if (it == reg.end()) { w.key("unsupported").str("no part " + key); return; }
    it->second(A, w);
}
#else
// ------------------------------------------------------------------ common helpers of the typed parts
template <typename T> struct tag_t { using type = T; };

template <bool INTS = false, typename F>
static void with_dtype(const J& A, W& w, F&& f) {
    const std::string& dt = A["dt"].as_str();
    if (dt == "f32") return f(tag_t<float>{});
    if (dt == "f64") return f(tag_t<double>{});
    if constexpr (INTS) {
        if (dt == "i32") return f(tag_t<int32_t>{});
        if (dt == "i64") return f(tag_t<int64_t>{});
    } else if (dt == "i32" || dt == "i64") { w.key("unsupported").str("integer elements do not compile for this form"); return; }
    throw std::runtime_error("dt " + dt);
}
// integer element types are instantiated for row-major operands only (compile time)
template <typename T> constexpr int layouts_v = std::is_integral_v<T> ? 1 : 3;
// which integer combinations compile (found by trying): int64 multiply only with the vector extensions and SIMDe;
// integer matmul needs an integer fmadd: int32 with x86_SSE and the vector extensions, int64 with the vector extensions only
template <typename T> constexpr bool mul_ok_v = !std::is_same_v<T, int64_t> || (C12_CTX >= 2);
template <typename T> constexpr bool matmul_ok_v =
    std::is_same_v<T, double> ? (C12_CTX != 5) :
    std::is_same_v<T, int32_t> ? (C12_CTX == 0 || (C12_CTX >= 2 && C12_CTX <= 4)) :
    std::is_same_v<T, int64_t> ? (C12_CTX >= 2 && C12_CTX <= 4) : true;

template <typename Arr, typename T>
static void fill_logical(Arr& arr, const std::vector<size_t>& shape, const std::vector<T>& data) {
    arr.resize(shape);
    if (data.size() != prod(shape)) throw std::runtime_error("data/shape mismatch");
    size_t k = 0;
    for (odometer o(shape); !o.done; o.next()) nm::apply_at(arr, o.idx) = data[k++];
}

// operand in the requested storage layout; LAYOUTS: 1 = row only, 2 = col only, 3 = both
template <typename T, int LAYOUTS = 3, typename F>
static void with_arr(const J& o, W& w, F&& f) {
    auto shape = o["shape"].ivec<size_t>();
    std::vector<T> data;
    if constexpr (std::is_integral_v<T>) data = o["data"].ivec<T>(); else data = o["data"].dvec<T>();
    const std::string& layout = o["layout"].as_str();
    if (layout == "col") {
        if constexpr (LAYOUTS & 2) { dyn_col_t<T> a; fill_logical(a, shape, data); f(a); }
        else w.key("unsupported").str("layout not instantiated");
    } else {
        if constexpr (LAYOUTS & 1) { dyn_t<T> a; fill_logical(a, shape, data); f(a); }
        else w.key("unsupported").str("layout not instantiated");
    }
}

template <typename X> constexpr bool is_col_v = false;
template <typename T> constexpr bool is_col_v<dyn_col_t<T>> = true;

// the same call with the SIMD context and with no context (nm::None is the default context argument)
template <typename Call>
static void both(W& w, Call&& call) {
    w.key("simd");
    { auto r = call(C12_CTX_OBJ); observe(w, r); }
    w.key("scalar");
    { auto r = call(nm::None); observe(w, r); }
}
#endif

// ------------------------------------------------------------------ unary
#if C12_SUB == 0 || C12_SUB == 1
#include "nmtools/array/array/ufuncs/sqrt.hpp"
#include "nmtools/array/array/ufuncs/ceil.hpp"
#include "nmtools/array/array/ufuncs/floor.hpp"
#include "nmtools/array/array/activations/hardtanh.hpp"
#include "nmtools/array/array/activations/hardshrink.hpp"
#include "nmtools/array/array/activations/hardswish.hpp"
#include "nmtools/array/array/activations/leaky_relu.hpp"
#include "nmtools/array/array/activations/prelu.hpp"
#include "nmtools/array/array/activations/relu.hpp"
#include "nmtools/array/array/activations/relu6.hpp"
#include "nmtools/array/array/activations/softshrink.hpp"
#include "nmtools/array/array/activations/softsign.hpp"
#endif

#if C12_SUB == 0
NMV_OP("simd:" C12_CTX_NAME ":unaryA") {
    with_dtype(A, w, [&](auto tag) {
        using T = typename decltype(tag)::type;
        with_arr<T>(A["a"], w, [&](const auto& a) {
            const std::string& f = A["f"].as_str();
            auto p = A.has("p") ? A["p"].dvec<T>() : std::vector<T>{};
            if (f == "sqrt") return both(w, [&](const auto& c) { return na::sqrt(a, c); });
            if (f == "ceil") return both(w, [&](const auto& c) { return na::ceil(a, c); });
            if (f == "floor") return both(w, [&](const auto& c) { return na::floor(a, c); });
            if (f == "relu") return both(w, [&](const auto& c) { return na::relu(a, c); });
            if (f == "relu6") return both(w, [&](const auto& c) { return na::relu6(a, c); });
            if (f == "hardtanh") { T lo = p.at(0), hi = p.at(1); return both(w, [&](const auto& c) { return na::hardtanh(a, lo, hi, c); }); }
            throw std::runtime_error("unknown f " + f);
        });
    });
}
#elif C12_SUB == 1
NMV_OP("simd:" C12_CTX_NAME ":unaryB") {
    with_dtype(A, w, [&](auto tag) {
        using T = typename decltype(tag)::type;
        with_arr<T>(A["a"], w, [&](const auto& a) {
            const std::string& f = A["f"].as_str();
            auto p = A.has("p") ? A["p"].dvec<T>() : std::vector<T>{};
            if (f == "leaky_relu") { T s = p.at(0); return both(w, [&](const auto& c) { return na::leaky_relu(a, s, c); }); }
            if (f == "prelu") { T s = p.at(0); return both(w, [&](const auto& c) { return na::prelu(a, s, c); }); }
            if (f == "softshrink") { T s = p.at(0); return both(w, [&](const auto& c) { return na::softshrink(a, s, c); }); }
            if (f == "hardshrink") { T s = p.at(0); return both(w, [&](const auto& c) { return na::hardshrink(a, s, c); }); }
            if (f == "softsign") return both(w, [&](const auto& c) { return na::softsign(a, c); });
            if (f == "hardswish") return both(w, [&](const auto& c) { return na::hardswish(a, c); });
            throw std::runtime_error("unknown f " + f);
        });
    });
}
#endif

// ------------------------------------------------------------------ binary / reduce / outer
#if C12_SUB >= 2 && C12_SUB <= 6
#include "nmtools/array/array/ufuncs/add.hpp"
#include "nmtools/array/array/ufuncs/multiply.hpp"
#include "nmtools/array/array/ufuncs/subtract.hpp"
#include "nmtools/array/array/ufuncs/divide.hpp"
#endif

#if C12_SUB == 2
NMV_OP("simd:" C12_CTX_NAME ":binary") {
    with_dtype<true>(A, w, [&](auto tag) {
        using T = typename decltype(tag)::type;
        with_arr<T, layouts_v<T>>(A["a"], w, [&](const auto& a) {
            with_arr<T, layouts_v<T>>(A["b"], w, [&](const auto& b) {
                const std::string& f = A["f"].as_str();
                if (f == "add") return both(w, [&](const auto& c) { return na::add(a, b, c); });
                if (f == "subtract") return both(w, [&](const auto& c) { return na::subtract(a, b, c); });
                if (f == "multiply") {
                    if constexpr (mul_ok_v<T>) return both(w, [&](const auto& c) { return na::multiply(a, b, c); });
                    else { w.key("unsupported").str("integer multiply does not compile for this context"); return; }
                }
                if (f == "divide") {
                    if constexpr (!std::is_integral_v<T>) return both(w, [&](const auto& c) { return na::divide(a, b, c); });
                    else { w.key("unsupported").str("integer divide not instantiated"); return; }
                }
                throw std::runtime_error("unknown f " + f);
            });
        });
    });
}
#endif

#if C12_SUB >= 3 && C12_SUB <= 5
#if C12_SUB == 3
#define C12_RED_FN na::add
#define C12_RED_NAME "add"
#elif C12_SUB == 4
#define C12_RED_FN na::multiply
#define C12_RED_NAME "multiply"
#else
#define C12_RED_FN na::subtract
#define C12_RED_NAME "subtract"
#define C12_RED_INT_AXIS_ONLY 1   // view::reduce_subtract static_asserts a single integral axis
#endif
#ifndef C12_RED_INT_AXIS_ONLY
#define C12_RED_INT_AXIS_ONLY 0
#endif
// argument *types* instantiated: axis {None, int} x keepdims {True, False, bool} x initial {None, T}
// plus axis = list of ints with keepdims False / no initial (keepdims = None does not compile in index::remove_dims: unsupported).
template <typename F>
static void with_axis(const J& A, W& w, F&& f) {
    const J& ax = A["axis"];
    if (ax.is_int()) return f((int)ax.as_int());
    if constexpr (C12_RED_INT_AXIS_ONLY) { w.key("unsupported").str("only a single integral axis compiles for this op"); }
    else {
        if (ax.is_null()) return f(nm::None);
        auto v = ax.ivec<int>();
        return f(v);
    }
}
template <bool FULL, typename F>
static void with_keepdims(const J& A, W& w, F&& f) {
    const J& kd = A["keepdims"];
    if (kd.is_null() || (kd.is_str() && kd.as_str() == "ct_false")) return f(nm::False); // null: the default argument (False)
    if constexpr (FULL) {
        if (kd.is_str() && kd.as_str() == "ct_true") return f(nm::True);
        if (kd.is_bool()) return f((bool)kd.as_bool());
        throw std::runtime_error("keepdims");
    } else w.key("unsupported").str("keepdims kind not instantiated for this axis/layout");
}
template <typename T, bool FULL, typename F>
static void with_initial(const J& A, W& w, F&& f) {
    const J& in = A["initial"];
    if (in.is_null()) return f(nm::None);
    if constexpr (FULL && !std::is_integral_v<T>) return f((T)in.as_dbl());
    else w.key("unsupported").str("initial not instantiated for this axis/layout");
}
NMV_OP("simd:" C12_CTX_NAME ":reduce_" C12_RED_NAME) {
    with_dtype<true>(A, w, [&](auto tag) {
        using T = typename decltype(tag)::type;
        if constexpr (C12_SUB == 4 && !mul_ok_v<T>) { w.key("unsupported").str("integer multiply does not compile for this context"); return; }
        else
        with_arr<T, layouts_v<T>>(A["a"], w, [&](const auto& a) {
            with_axis(A, w, [&](const auto& axis) {
                constexpr bool LIST = !nm::is_none_v<meta::remove_cvref_t<decltype(axis)>> && !std::is_same_v<meta::remove_cvref_t<decltype(axis)>, int>;
                constexpr bool FULL = !LIST && !std::is_integral_v<T>;   // integers: keepdims False / no initial only
                with_keepdims<FULL>(A, w, [&](auto keepdims) {
                    with_initial<T, FULL>(A, w, [&](auto initial) {
                        both(w, [&](const auto& c) { return C12_RED_FN.reduce(a, axis, nm::None, initial, keepdims, c); });
                    });
                });
            });
        });
    });
}
#endif

#if C12_SUB == 6
// layouts instantiated: (row,row), (col,row), (row,col)
NMV_OP("simd:" C12_CTX_NAME ":outer") {
    with_dtype<true>(A, w, [&](auto tag) {
        using T = typename decltype(tag)::type;
        with_arr<T, layouts_v<T>>(A["a"], w, [&](const auto& a) {
            with_arr<T, layouts_v<T>>(A["b"], w, [&](const auto& b) {
                if constexpr (is_col_v<meta::remove_cvref_t<decltype(a)>> && is_col_v<meta::remove_cvref_t<decltype(b)>>) {
                    w.key("unsupported").str("layout pair not instantiated");
                } else {
                    const std::string& f = A["f"].as_str();
                    if (f == "add") return both(w, [&](const auto& c) { return na::add.outer(a, b, nm::None, c); });
                    if (f == "subtract") return both(w, [&](const auto& c) { return na::subtract.outer(a, b, nm::None, c); });
                    if (f == "multiply") {
                        if constexpr (mul_ok_v<T>) return both(w, [&](const auto& c) { return na::multiply.outer(a, b, nm::None, c); });
                        else { w.key("unsupported").str("integer multiply does not compile for this context"); return; }
                    }
                    throw std::runtime_error("unknown f " + f);
                }
            });
        });
    });
}
#endif

// ------------------------------------------------------------------ matmul (the SIMD evaluator static_asserts a column-major rhs)
#if C12_SUB == 7
#include "nmtools/array/array/matmul.hpp"
NMV_OP("simd:" C12_CTX_NAME ":matmul") {
    with_dtype<true>(A, w, [&](auto tag) {
        using T = typename decltype(tag)::type;
        // simde_avx512 fmadd<double> calls simde_mm512_fmadd_ps: compile error (TODO in tests/simde/avx512/matmul.cpp) -> unsupported
        if constexpr (!matmul_ok_v<T>) { w.key("unsupported").str("matmul does not compile for this context and element type"); }
        else {
            with_arr<T, layouts_v<T>>(A["a"], w, [&](const auto& a) {
                with_arr<T, 2>(A["b"], w, [&](const auto& b) {
                    both(w, [&](const auto& c) { return na::matmul(a, b, c); });
                });
            });
        }
    });
}
#endif
