// C04 ops: selecting, replicating, joining, generating views
#include "ops.hpp"
#include "nmtools/array/view/tile.hpp"
#include "nmtools/array/view/repeat.hpp"
#include "nmtools/array/view/roll.hpp"
#include "nmtools/array/view/pad.hpp"
#include "nmtools/array/view/take.hpp"
#include "nmtools/array/view/compress.hpp"
#include "nmtools/array/view/resize.hpp"
#include "nmtools/array/view/concatenate.hpp"
#include "nmtools/array/view/stack.hpp"
#include "nmtools/array/view/hstack.hpp"
#include "nmtools/array/view/vstack.hpp"
#include "nmtools/array/view/dstack.hpp"
#include "nmtools/array/view/column_stack.hpp"
#include "nmtools/array/view/split.hpp"
#include "nmtools/array/view/sliding_window.hpp"
#include "nmtools/array/view/expand.hpp"
#include "nmtools/array/view/diagonal.hpp"
#include "nmtools/array/view/diagflat.hpp"
#include "nmtools/array/view/tril.hpp"
#include "nmtools/array/view/triu.hpp"
#include "nmtools/array/view/tri.hpp"
#include "nmtools/array/view/eye.hpp"
#include "nmtools/array/view/identity.hpp"
#include "nmtools/array/view/where.hpp"
#include "nmtools/array/view/arange.hpp"
#include "nmtools/array/view/linspace.hpp"
#include "nmtools/array/view/full.hpp"
#include "nmtools/array/view/zeros.hpp"
#include "nmtools/array/view/ones.hpp"
#include "nmtools/array/view/full_like.hpp"
#include "nmtools/array/view/zeros_like.hpp"
#include "nmtools/array/view/ones_like.hpp"
using namespace nmv;

#if NMV_PART == 0
NMV_VOP1("tile", FIN(view::tile(a, ivec(A["reps"])));)
NMV_VOP1("repeat",
    if (A["axis"].is_null()) {
        // per-element repeats with axis=None are rejected at compile time by the library (static_assert)
        FIN(view::repeat(a, (int)A["repeats"].as_int(), nm::None));
    }
    if (A["repeats"].is_int()) FIN(view::repeat(a, (int)A["repeats"].as_int(), (int)A["axis"].as_int()));
    FIN(view::repeat(a, ivec(A["repeats"]), (int)A["axis"].as_int()));)
#elif NMV_PART == 1
NMV_VOP1("roll",
    if (A["axis"].is_null()) FIN(view::roll(a, (int)A["shift"].as_int()));
    if (A["axis"].is_int()) {
        FIN(view::roll(a, (int)A["shift"].as_int(), (int)A["axis"].as_int()));
    }
    if (A["shift"].is_int()) FIN(view::roll(a, (int)A["shift"].as_int(), ivec(A["axis"])));
    FIN(view::roll(a, ivec(A["shift"]), ivec(A["axis"])));)
#elif NMV_PART == 2
NMV_VOP1("pad",
    using T = typename meta::remove_cvref_t<decltype(a)>::value_type;
    FIN(view::pad(a, ivec(A["pad_width"]), (T)A["value"].as_dbl()));)
NMV_VOP1("resize", FIN(view::resize(a, ivec(A["shape"])));)
#elif NMV_PART == 3
NMV_VOP1("take",
    if (A["axis"].is_null()) FIN(view::take(a, ivec(A["indices"]), nm::None));
    FIN(view::take(a, ivec(A["indices"]), (int)A["axis"].as_int()));)
NMV_VOP1("compress",
    auto cond = ivec(A["condition"]);
    if (A["axis"].is_null()) FIN(view::compress(cond, a, nm::None));
    FIN(view::compress(cond, a, (int)A["axis"].as_int()));)
#elif NMV_PART == 4
NMV_VOP2("concatenate",
    if (A["axis"].is_null()) FIN(view::concatenate(a, b, nm::None));
    FIN(view::concatenate(a, b, (int)A["axis"].as_int()));)
NMV_VOP2("stack", FIN(view::stack(a, b, (int)A["axis"].as_int()));)
#elif NMV_PART == 5
NMV_VOP2("hstack", FIN(view::hstack(a, b));)
NMV_VOP2("vstack", FIN(view::vstack(a, b));)
#elif NMV_PART == 6
NMV_VOP2("dstack", FIN(view::dstack(a, b));)
NMV_VOP2("column_stack", FIN(view::column_stack(a, b));)
#elif NMV_PART == 7
// split returns a list (dynamic indices/sections) of slice views; "k" selects one
NMV_VOP1("split",
    size_t k = (size_t)A["k"].as_int();
    auto pick = [&](const auto& r) -> stage_out {
        using R = meta::remove_cvref_t<decltype(r)>;
        if constexpr (meta::is_maybe_v<R>) {
            if (!nm::has_value(r)) return fin(meta::Nothing);
            auto& l = *r;
            if (k >= (size_t)nm::len(l)) throw std::runtime_error("split: k beyond number of sections (" + std::to_string(nm::len(l)) + ")");
            return fin(nm::at(l, k));
        } else {
            if (k >= (size_t)nm::len(r)) throw std::runtime_error("split: k beyond number of sections (" + std::to_string(nm::len(r)) + ")");
            return fin(nm::at(r, k));
        }
    };
    if (A["ios"].is_int()) return pick(view::split(a, (int)A["ios"].as_int(), (int)A["axis"].as_int()));
    return pick(view::split(a, ivec(A["ios"]), (int)A["axis"].as_int()));)
#elif NMV_PART == 8
NMV_VOP1("sliding_window",
    if (A["axis"].is_null()) {
        if (A["window_shape"].is_int()) FIN(view::sliding_window(a, (int)A["window_shape"].as_int()));
        FIN(view::sliding_window(a, ivec(A["window_shape"])));
    }
    if (A["axis"].is_int()) FIN(view::sliding_window(a, (int)A["window_shape"].as_int(), (int)A["axis"].as_int()));
    FIN(view::sliding_window(a, ivec(A["window_shape"]), ivec(A["axis"])));)
#elif NMV_PART == 9
NMV_VOP1("expand",
    using T = typename meta::remove_cvref_t<decltype(a)>::value_type;
    if (A["axis"].is_int()) FIN(view::expand(a, (int)A["axis"].as_int(), (int)A["spacing"].as_int(), (T)A["fill"].as_dbl()));
    if (A["spacing"].is_int()) FIN(view::expand(a, ivec(A["axis"]), (int)A["spacing"].as_int(), (T)A["fill"].as_dbl()));
    FIN(view::expand(a, ivec(A["axis"]), ivec(A["spacing"]), (T)A["fill"].as_dbl()));)
#elif NMV_PART == 10
NMV_VOP1("diagonal", FIN(view::diagonal(a, (int)A["offset"].as_int(), (int)A["axis1"].as_int(), (int)A["axis2"].as_int()));)
NMV_VOP1("diagflat", FIN(view::diagflat(a, (int)A["k"].as_int()));)
#elif NMV_PART == 11
NMV_VOP1("tril", FIN(view::tril(a, (int)A["k"].as_int()));)
NMV_VOP1("triu", FIN(view::triu(a, (int)A["k"].as_int()));)
#elif NMV_PART == 12
NMV_VOP3("where", FIN(view::where(a, b, c));)
NMV_VOP1("full_like",
    using T = typename meta::remove_cvref_t<decltype(a)>::value_type;
    FIN(view::full_like(a, (T)A["fill"].as_dbl()));)
NMV_VOP1("zeros_like", FIN(view::zeros_like(a));)
NMV_VOP1("ones_like", FIN(view::ones_like(a));)
#elif NMV_PART == 13
// generators; "dt" selects the requested dtype
NMV_VOP0("arange",
    bool f = A["dt"].as_str() == "f64";
    if (f) {
        // start/stop must be index types (the shape resolver rejects floating bounds at compile time); step may be real
        if (A["step"].is_null() && A["start"].is_null()) FIN(view::arange((int)A["stop"].as_int(), nm::float64));
        if (A["step"].is_null()) FIN(view::arange((int)A["start"].as_int(), (int)A["stop"].as_int(), nm::float64));
        FIN(view::arange((int)A["start"].as_int(), (int)A["stop"].as_int(), A["step"].as_dbl(), nm::float64));
    }
    if (A["step"].is_null() && A["start"].is_null()) FIN(view::arange((int)A["stop"].as_int(), nm::int32));
    if (A["step"].is_null()) FIN(view::arange((int)A["start"].as_int(), (int)A["stop"].as_int(), nm::int32));
    FIN(view::arange((int)A["start"].as_int(), (int)A["stop"].as_int(), (int)A["step"].as_int(), nm::int32));)
NMV_VOP0("linspace",
    if (A["endpoint"].as_bool()) FIN(view::linspace(A["start"].as_dbl(), A["stop"].as_dbl(), (size_t)A["num"].as_int(), nm::True));
    FIN(view::linspace(A["start"].as_dbl(), A["stop"].as_dbl(), (size_t)A["num"].as_int(), nm::False));)
#elif NMV_PART == 14
NMV_VOP0("eye",
    if (A["M"].is_null()) FIN(view::eye((size_t)A["N"].as_int(), nm::None, (int)A["k"].as_int(), nm::int32));
    FIN(view::eye((size_t)A["N"].as_int(), (size_t)A["M"].as_int(), (int)A["k"].as_int(), nm::int32));)
NMV_VOP0("identity", FIN(view::identity((size_t)A["N"].as_int(), nm::int32));)
NMV_VOP0("tri",
    if (A["M"].is_null()) FIN(view::tri((size_t)A["N"].as_int(), nm::None, (int)A["k"].as_int(), nm::int32));
    FIN(view::tri((size_t)A["N"].as_int(), (size_t)A["M"].as_int(), (int)A["k"].as_int(), nm::int32));)
#elif NMV_PART == 15
NMV_VOP0("full",
    if (A["dt"].as_str() == "f64") FIN(view::full(uvec(A["shape"]), A["fill"].as_dbl()));
    FIN(view::full(uvec(A["shape"]), (int)A["fill"].as_int()));)
NMV_VOP0("zeros",
    if (A["dt"].as_str() == "f64") FIN(view::zeros(uvec(A["shape"]), nm::float64));
    FIN(view::zeros(uvec(A["shape"]), nm::int32));)
NMV_VOP0("ones",
    if (A["dt"].as_str() == "f64") FIN(view::ones(uvec(A["shape"]), nm::float64));
    FIN(view::ones(uvec(A["shape"]), nm::int32));)
#endif
