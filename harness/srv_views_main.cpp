// "pipe" op: interpret a DAG of view stages over erased lazy operands.
#include "ops.hpp"

namespace nmv {
std::map<std::string, vop_t>& vops() { static std::map<std::string, vop_t> r; return r; }
}
using namespace nmv;
#include "nmtools/utl.hpp"
template <typename T> using leaf_hb_t = na::ndarray_t<nm::utl::static_vector<T, 512>, std::vector<size_t>>;
template <typename T> using leaf_hs_t = na::ndarray_t<std::vector<T>, nm::utl::static_vector<size_t, 6>>;
template <typename T> using leaf_hb_col_t = na::column_major_ndarray_t<nm::utl::static_vector<T, 512>, std::vector<size_t>>;

static val_t promote(const val_t& v) {
    if (auto p = std::get_if<eint>(&v)) {
        eint src = *p;
        edbl e; e.shape_ = src.shape_;
        e.get_ = [src](const std::vector<size_t>& idx) -> double { return (double)src.get_(idx); };
        return val_t{e};
    }
    return v;
}

template <typename E>
static void write_val(W& w, const E& e) {
    w.key("shape").beg_arr(); for (auto d : e.shape_) w.num(d); w.end_arr();
    w.key("elems").beg_arr();
    if (safe_total(e.shape_) != SIZE_MAX)
        for (odometer o(e.shape_); !o.done; o.next()) w.num(e.get_(o.idx));
    w.end_arr();
    if (safe_total(e.shape_) == SIZE_MAX) w.key("huge").boolean(true);
}

// {"op":"pipe","arrays":[{"shape":[..],"data":[..],"dt":"i32|f64"}],"stages":[{"f":..,"in":[..],"a":{..}}],
//  "mode":"lazy|staged","eval":bool}
static void run_pipe(const J& A, W& w, bool staged, bool do_eval) {
    std::vector<std::shared_ptr<val_t>> vals;
    std::vector<std::shared_ptr<void>> keep;
    for (auto& ja : A["arrays"].a) {
        auto shp = ja["shape"].ivec<size_t>();
        std::string kind = ja.has("kind") ? ja["kind"].as_str() : "dyn";
        auto add = [&](auto tag, auto arr_tag) {
            using T = typename decltype(tag)::type;
            using Arr = typename decltype(arr_tag)::type;
            auto leaf = std::make_shared<Arr>();
            if (!do_resize(*leaf, shp)) throw std::runtime_error("leaf resize refused");
            std::vector<T> data;
            if constexpr (std::is_floating_point_v<T>) data = ja["data"].template dvec<T>(); else data = ja["data"].template ivec<T>();
            size_t k = 0;
            for (odometer o(shp); !o.done; o.next()) at_idx(*leaf, o.idx) = data[k++];
            keep.push_back(leaf);
            erased_t<T> e; e.shape_ = shp;
            e.get_ = [leaf](const std::vector<size_t>& idx) -> T { return at_idx(std::as_const(*leaf), idx); };
            vals.push_back(std::make_shared<val_t>(e));
        };
        bool f64 = ja.has("dt") && ja["dt"].as_str() == "f64";
#define NMV_LEAF(KIND, ...) if (kind == KIND) { if (f64) add(meta::as_value_v<double>, meta::as_value_v<__VA_ARGS__<double>>); else add(meta::as_value_v<int>, meta::as_value_v<__VA_ARGS__<int>>); continue; }
        NMV_LEAF("dyn", dyn_t)
        NMV_LEAF("col", dyn_col_t)
        NMV_LEAF("hb", leaf_hb_t)
        NMV_LEAF("hs", leaf_hs_t)
        NMV_LEAF("hb_col", leaf_hb_col_t)
#undef NMV_LEAF
        throw std::runtime_error("unknown leaf kind " + kind);
    }
    opts().eval = do_eval;
    opts().eval_inferred = !(A.has("no_inferred") && A["no_inferred"].as_bool());
    int failed = -1;
    std::string rt;
    std::vector<std::string> issues;
    int eval_paths = 0;
    size_t si = 0;
    for (auto& js : A["stages"].a) {
        const std::string& f = js["f"].as_str();
        auto it = vops().find(f);
        if (it == vops().end()) throw std::runtime_error("unknown view op " + f);
        ins_t in;
        std::vector<std::shared_ptr<val_t>> tmp;
        bool any_dbl = false;
        for (auto& k : js["in"].a) if (std::holds_alternative<edbl>(*vals.at((size_t)k.as_int()))) any_dbl = true;
        for (auto& k : js["in"].a) {
            auto p = vals.at((size_t)k.as_int());
            if (any_dbl && std::holds_alternative<eint>(*p) && !(js.has("nopromote"))) {
                auto q = std::make_shared<val_t>(promote(*p));
                tmp.push_back(q); keep.push_back(q);
                in.push_back(q.get());
            } else in.push_back(p.get());
        }
        stage_out so = it->second(js["a"], in);
        eval_paths += so.eval_paths;
        for (auto& s : so.eval_issues) issues.push_back("stage " + std::to_string(si) + " " + s);
        if (!so.v) { failed = (int)si; break; }
        rt = so.rt;
        if (staged) {
            // materialise through element reads only (harness code), then continue on the concrete array
            std::visit([&](const auto& e) {
                using T = typename meta::remove_cvref_t<decltype(e)>::value_type;
                if (e.shape_.empty() || safe_total(e.shape_) == SIZE_MAX) { vals.push_back(std::make_shared<val_t>(e)); return; }
                auto leaf = materialize<T>(e);
                keep.push_back(leaf);
                vals.push_back(std::make_shared<val_t>(erase_leaf(leaf)));
            }, *so.v);
        } else {
            vals.push_back(std::make_shared<val_t>(std::move(*so.v)));
        }
        si++;
    }
    if (failed >= 0) {
        w.key("hv").boolean(false);
        w.key("failed_stage").num(failed);
    } else {
        w.key("hv").boolean(true);
        w.key("rt").str(rt);
        std::visit([&](const auto& e) { write_val(w, e); }, *vals.back());
    }
    if (opts().eval) {
        w.key("eval_paths").num(eval_paths);
        w.key("eval_issues").beg_arr(); for (auto& s : issues) w.str(s); w.end_arr();
    }
    opts().eval = false;
}


NMV_OP("pipe") {
    run_pipe(A, w, A.has("mode") && A["mode"].as_str() == "staged", A.has("eval") && A["eval"].as_bool());
}

// both evaluation strategies of the same pipeline in one request (C10):
// lazy chain (with the eval differential at every stage) and staged (materialise after every stage)
NMV_OP("pipe2") {
    w.key("lazy").beg_obj(); run_pipe(A, w, false, true); w.end_obj();
    w.key("staged").beg_obj(); run_pipe(A, w, true, false); w.end_obj();
}

NMV_OP("vops") {
    w.key("ops").beg_arr();
    for (auto& kv : vops()) w.str(kv.first);
    w.end_arr();
}
