// View-op interpreter framework: run-time pipelines of lazy nmtools views over
// type-erased operands, with an in-server eval differential (C10) for every stage.
#pragma once
#include "nmv.hpp"
#include <cstring>

namespace nmv {

using eint = erased_t<int>;
using edbl = erased_t<double>;
using val_t = std::variant<eint, edbl>;
using ins_t = std::vector<const val_t*>;

struct stage_out {
    std::optional<val_t> v;   // nullopt: nmtools returned Nothing
    std::string rt;           // native element type of the nmtools result
    std::vector<std::string> eval_issues;
    int eval_paths = 0;
};

struct opts_t { bool eval = false; bool eval_inferred = true; };
inline opts_t& opts() { static opts_t o; return o; }

template <typename T> bool same_val(T a, T b) {
    if constexpr (std::is_floating_point_v<T>) { return std::memcmp(&a, &b, sizeof(T)) == 0 || (std::isnan(a) && std::isnan(b)); }
    else return a == b;
}

// compare an evaluated array against reference elements (C order)
template <typename R, typename T>
void cmp_eval(const char* path, const R& r, const std::vector<size_t>& shp, const std::vector<T>& ref, stage_out& so) {
    so.eval_paths++;
    auto rs = shape_of(r);
    if (rs != shp) {
        std::string m = std::string(path) + ": shape [";
        for (auto e : rs) m += std::to_string(e) + ",";
        m += "] != view shape [";
        for (auto e : shp) m += std::to_string(e) + ",";
        so.eval_issues.push_back(m + "]");
        return;
    }
    size_t k = 0;
    for (odometer o(shp); !o.done; o.next(), k++) {
        T got = (T)read_elem(r, o.idx);
        if (!same_val(got, ref[k])) {
            W w; w.beg_obj(); w.key("path").str(path); w.key("flat").num(k); w.key("got").num(got); w.key("want").num(ref[k]); w.end_obj();
            so.eval_issues.push_back(w.s);
            return;
        }
    }
}

template <typename V>
void eval_check(const V& v, stage_out& so) {
    using U = meta::remove_cvref_t<V>;
    using T = meta::get_element_type_t<U>;
    auto shp = shape_of(v);
    if (safe_total(shp) == SIZE_MAX) { so.eval_issues.push_back("view reports a huge shape; not evaluated"); return; }
    std::vector<T> ref;
    for (odometer o(shp); !o.done; o.next()) ref.push_back((T)read_elem(v, o.idx));
    if constexpr (meta::is_num_v<U>) {
        auto r = na::eval(v, nm::None, nm::None, na::RowMajorResolver);
        so.eval_paths++;
        if (!same_val((T)r, ref[0])) so.eval_issues.push_back("num eval differs");
    } else {
        if (opts().eval_inferred) {
            auto r1 = na::eval(v, nm::None, nm::None, na::RowMajorResolver);
            cmp_eval("inferred_row", r1, shp, ref, so);
            auto r2 = na::eval(v, nm::None, nm::None, na::ColumnMajorResolver);
            cmp_eval("inferred_col", r2, shp, ref, so);
        }
        const T sentinel = (T)77;
        {
            dyn_t<T> out; out.resize(shp);
            for (size_t k = 0; k < prod(shp); k++) out.data()[k] = sentinel;
            na::eval(v, nm::None, out);
            cmp_eval("output_row", out, shp, ref, so);
        }
        {
            dyn_col_t<T> out; out.resize(shp);
            for (size_t k = 0; k < prod(shp); k++) out.data()[k] = sentinel;
            na::eval(v, nm::None, out);
            cmp_eval("output_col", out, shp, ref, so);
        }
    }
}

// finish a stage: unwrap maybe/either, optionally eval-check, erase
template <typename R>
void fin_into(const R& r, stage_out& so) {
    using U = meta::remove_cvref_t<R>;
    if constexpr (meta::is_nothing_v<U> || meta::is_fail_v<U>) {
        so.v = std::nullopt;
    } else if constexpr (meta::is_maybe_v<U>) {
        if (!nm::has_value(r)) { so.v = std::nullopt; return; }
        fin_into(*r, so);
    } else if constexpr (meta::is_either_v<U>) {
        using L = meta::get_either_left_t<U>;
        using Rr = meta::get_either_right_t<U>;
        if (auto l = nm::get_if<L>(&r)) fin_into(*l, so);
        else if (auto rr = nm::get_if<Rr>(&r)) fin_into(*rr, so);
        else so.v = std::nullopt;
    } else {
        using T = meta::get_element_type_t<U>;
        so.rt = tname<T>();
        if (opts().eval) eval_check(r, so);
        if constexpr (std::is_floating_point_v<T>) so.v = val_t{erase_as<double>(r)};
        else so.v = val_t{erase_as<int>(r)};
    }
}

template <typename R>
stage_out fin(const R& r) { stage_out so; fin_into(r, so); return so; }

using vop_t = std::function<stage_out(const J&, const ins_t&)>;
std::map<std::string, vop_t>& vops(); // defined in srv_views_main.cpp
struct vregistrar { vregistrar(const char* n, vop_t f) { vops()[n] = std::move(f); } };

// unary op over the operand variant; body sees `a` (erased operand) and `A` (args)
#define NMV_VOP1(name, ...) \
    static ::nmv::vregistrar NMV_CAT(nmv_vreg_, __LINE__)(name, [](const ::nmv::J& A, const ::nmv::ins_t& in) -> ::nmv::stage_out { \
        return std::visit([&]([[maybe_unused]] const auto& a) -> ::nmv::stage_out { (void)A; __VA_ARGS__ }, *in.at(0)); });

// binary op, both operands of the same erased element type (the pipe op promotes)
#define NMV_VOP2(name, ...) \
    static ::nmv::vregistrar NMV_CAT(nmv_vreg_, __LINE__)(name, [](const ::nmv::J& A, const ::nmv::ins_t& in) -> ::nmv::stage_out { \
        return std::visit([&](const auto& a) -> ::nmv::stage_out { \
            using E = ::nmtools::meta::remove_cvref_t<decltype(a)>; \
            const E& b = std::get<E>(*in.at(1)); (void)A; (void)b; __VA_ARGS__ }, *in.at(0)); });

#define NMV_VOP3(name, ...) \
    static ::nmv::vregistrar NMV_CAT(nmv_vreg_, __LINE__)(name, [](const ::nmv::J& A, const ::nmv::ins_t& in) -> ::nmv::stage_out { \
        return std::visit([&](const auto& a) -> ::nmv::stage_out { \
            using E = ::nmtools::meta::remove_cvref_t<decltype(a)>; \
            const E& b = std::get<E>(*in.at(1)); const E& c = std::get<E>(*in.at(2)); (void)A; (void)b; (void)c; __VA_ARGS__ }, *in.at(0)); });

// op without array operands (generators); body sees `A`
#define NMV_VOP0(name, ...) \
    static ::nmv::vregistrar NMV_CAT(nmv_vreg_, __LINE__)(name, [](const ::nmv::J& A, const ::nmv::ins_t&) -> ::nmv::stage_out { (void)A; __VA_ARGS__ });

#define FIN(...) return ::nmv::fin(__VA_ARGS__)

// common argument accessors
inline std::vector<int> ivec(const J& j) { return j.ivec<int>(); }
inline std::vector<size_t> uvec(const J& j) { return j.ivec<size_t>(); }

} // namespace nmv
