// nmv harness core: type-erased lazy operand, normalising observer, op registry,
// event sink for the NMTOOLS_VERIF hooks. Used by every srv_*.cpp.
#pragma once
#include "json.hpp"

#include "nmtools/array/ndarray.hpp"
#include "nmtools/array/eval.hpp"
#include "nmtools/utility/unwrap.hpp"
#include "nmtools/utility/has_value.hpp"
#include "nmtools/utility/shape.hpp"
#include "nmtools/constants.hpp"

#include <functional>
#include <iostream>
#include <optional>
#include <variant>
#include <vector>
#include <type_traits>

namespace nm = nmtools;
namespace na = nmtools::array;
namespace view = nmtools::view;
namespace meta = nmtools::meta;
namespace ix = nmtools::index;

namespace nmv {

// ---------------------------------------------------------------------
// events (hooks H1..H5 call nmtools_verif_event when built with NMTOOLS_VERIF)
// ---------------------------------------------------------------------
struct event_t { int kind; long a; long b; };

// ---------------------------------------------------------------------
// type names
// ---------------------------------------------------------------------
template <typename T> constexpr const char* tname() {
    using U = std::remove_cv_t<std::remove_reference_t<T>>;
    if constexpr (std::is_same_v<U, bool>) return "bool";
    else if constexpr (std::is_same_v<U, float>) return "f32";
    else if constexpr (std::is_same_v<U, double>) return "f64";
    else if constexpr (std::is_same_v<U, long double>) return "f80";
    else if constexpr (std::is_integral_v<U>) {
        if constexpr (std::is_signed_v<U>) {
            if constexpr (sizeof(U) == 1) return "i8";
            else if constexpr (sizeof(U) == 2) return "i16";
            else if constexpr (sizeof(U) == 4) return "i32";
            else return "i64";
        } else {
            if constexpr (sizeof(U) == 1) return "u8";
            else if constexpr (sizeof(U) == 2) return "u16";
            else if constexpr (sizeof(U) == 4) return "u32";
            else return "u64";
        }
    } else return "?";
}

// ---------------------------------------------------------------------
// dynamic leaf array types
// ---------------------------------------------------------------------
template <typename T> using dyn_t = na::ndarray_t<std::vector<T>, std::vector<size_t>>;
template <typename T> using dyn_col_t = na::ndarray_t<std::vector<T>, std::vector<size_t>, na::resolve_stride_type_t, na::column_major_offset_t>;

// ---------------------------------------------------------------------
// index-like -> std::vector<long long>
// ---------------------------------------------------------------------
template <typename S>
std::vector<long long> to_vec(const S& s) {
    std::vector<long long> r;
    using U = meta::remove_cvref_t<S>;
    if constexpr (nm::is_none_v<U>) {
    } else if constexpr (meta::is_num_v<U> || meta::is_constant_index_v<U>) {
        r.push_back((long long)s);
    } else if constexpr (meta::is_tuple_v<U> || meta::is_constant_index_array_v<U> || meta::is_clipped_index_array_v<U>) {
        constexpr auto N = meta::len_v<U>;
        meta::template_for<N>([&](auto i) { r.push_back((long long)nm::at(s, i)); });
    } else {
        auto n = nm::len(s);
        for (size_t i = 0; i < (size_t)n; i++) r.push_back((long long)nm::at(s, i));
    }
    return r;
}

inline size_t prod(const std::vector<size_t>& s) { size_t p = 1; for (auto e : s) p *= e; return p; }
// element count if it is small enough to enumerate, SIZE_MAX otherwise (garbage extents such as (size_t)-1 must not be walked)
inline size_t safe_total(const std::vector<size_t>& s) {
    size_t p = 1;
    for (auto e : s) { if (e > ((size_t)1 << 22)) return SIZE_MAX; p *= e; if (p > ((size_t)1 << 22)) return SIZE_MAX; }
    return p;
}

// odometer over a shape (independent of the library's ndindex)
struct odometer {
    std::vector<size_t> shape, idx; bool done = false;
    explicit odometer(const std::vector<size_t>& s) : shape(s), idx(s.size(), 0) { for (auto e : s) if (e == 0) done = true; }
    void next() {
        for (size_t k = shape.size(); k-- > 0;) { if (++idx[k] < shape[k]) return; idx[k] = 0; }
        done = true;
    }
};

// ---------------------------------------------------------------------
// erased lazy operand
// ---------------------------------------------------------------------
template <typename T>
struct erased_t {
    using value_type = T;
    std::vector<size_t> shape_;
    std::function<T(const std::vector<size_t>&)> get_;
    const std::vector<size_t>& shape() const { return shape_; }
    size_t dim() const { return shape_.size(); }
    size_t size() const { return prod(shape_); }
    template <typename... Is>
    T operator()(const Is&... is) const {
        std::vector<size_t> idx;
        auto f = [&](const auto& a) {
            using A = meta::remove_cvref_t<decltype(a)>;
            if constexpr (meta::is_num_v<A> || meta::is_constant_index_v<A>) idx.push_back((size_t)a);
            else { for (auto v : to_vec(a)) idx.push_back((size_t)v); }
        };
        (f(is), ...);
        return get_(idx);
    }
};

} // namespace nmv

namespace nmtools::meta {
    template <typename T> struct is_ndarray<nmv::erased_t<T>> : true_type {};
    template <typename T> struct get_element_type<nmv::erased_t<T>> { using type = T; };
}

namespace nmv {

// indexed access with a run-time index vector; arrays whose operator() only
// accepts unpacked indices (legacy classes) get a fixed-size index array
template <typename V>
decltype(auto) at_idx(V& v, const std::vector<size_t>& idx) {
    using U = meta::remove_cvref_t<V>;
    constexpr auto D = meta::fixed_dim_v<U>;
    using shape_type = meta::remove_cvref_t<decltype(nm::shape<false, true>(v))>;
    constexpr auto L = meta::len_v<shape_type>;
    if constexpr (!meta::is_fail_v<decltype(D)>) {
        std::array<size_t, (size_t)D> fi{};
        for (size_t i = 0; i < (size_t)D; i++) fi[i] = idx[i];
        return nm::apply_at(v, fi);
    } else if constexpr ((L > 0)) {
        std::array<size_t, (size_t)L> fi{};
        for (size_t i = 0; i < (size_t)L; i++) fi[i] = idx[i];
        return nm::apply_at(v, fi);
    } else {
        return nm::apply_at(v, idx);
    }
}

// element reader for anything array-like
template <typename V>
auto read_elem(const V& v, const std::vector<size_t>& idx) {
    using U = meta::remove_cvref_t<V>;
    if constexpr (meta::is_num_v<U>) {
        using T = meta::get_element_type_t<U>;
        return static_cast<T>(v);
    } else {
        return at_idx(v, idx);
    }
}

template <typename Arr, typename S, typename = void> struct can_resize_with : std::false_type {};
template <typename Arr, typename S> struct can_resize_with<Arr, S, std::void_t<decltype(std::declval<Arr&>().resize(std::declval<const S&>()))>> : std::true_type {};

// flat buffer pointer of an array object
template <typename Arr, typename = void> struct has_data_fn : std::false_type {};
template <typename Arr> struct has_data_fn<Arr, std::void_t<decltype(std::declval<Arr&>().data())>> : std::true_type {};
template <typename Arr>
auto flat_ptr(Arr& a) {
    if constexpr (has_data_fn<Arr>::value) return a.data();
    else { using T = meta::get_element_type_t<meta::remove_cvref_t<Arr>>; return reinterpret_cast<std::conditional_t<std::is_const_v<Arr>, const T*, T*>>(&a.data[0]); }
}

// resize through whatever signature the array class offers; returns the
// class' own verdict (void-returning resize counts as accepted)
template <typename Arr>
bool do_resize(Arr& a, const std::vector<size_t>& shp) {
    using shape_type = meta::remove_cvref_t<decltype(a.shape())>;
    auto call = [&](const auto& s) -> bool {
        if constexpr (std::is_void_v<decltype(a.resize(s))>) { a.resize(s); return true; }
        else return (bool)a.resize(s);
    };
    if constexpr (meta::is_fixed_index_array_v<shape_type> && !meta::is_constant_index_array_v<shape_type> && !meta::is_tuple_v<shape_type>) {
        constexpr auto N = meta::len_v<shape_type>;
        if (shp.size() != (size_t)N) {
            if constexpr (can_resize_with<Arr, std::vector<size_t>>::value) return call(shp);
            else return false; // not expressible for this class
        }
        shape_type s{};
        for (size_t i = 0; i < (size_t)N; i++) nm::at(s, i) = shp[i];
        return call(s);
    } else {
        return call(shp);
    }
}

template <typename V>
std::vector<size_t> shape_of(const V& v) {
    using U = meta::remove_cvref_t<V>;
    std::vector<size_t> r;
    if constexpr (meta::is_num_v<U>) { return r; }
    else {
        auto s = nm::shape<false, true>(v);
        for (auto e : to_vec(s)) r.push_back((size_t)e);
        return r;
    }
}

// make an erased lazy operand out of any array/view (held by value: views are
// cheap handles; leaf arrays must be kept alive by the caller)
template <typename R, typename V>
erased_t<R> erase_as(const V& v) {
    erased_t<R> e;
    e.shape_ = shape_of(v);
    e.get_ = [v](const std::vector<size_t>& idx) -> R { return (R)read_elem(v, idx); };
    return e;
}

template <typename V>
auto erase(const V& v) {
    using T = meta::get_element_type_t<meta::remove_cvref_t<V>>;
    return erase_as<T>(v);
}

template <typename T>
erased_t<T> erase_leaf(const std::shared_ptr<dyn_t<T>>& p) {
    erased_t<T> e;
    e.shape_ = shape_of(*p);
    e.get_ = [p](const std::vector<size_t>& idx) -> T { return nm::apply_at(*p, idx); };
    return e;
}

// materialise anything into a row-major dynamic array of type T (element reads only)
template <typename T, typename V>
std::shared_ptr<dyn_t<T>> materialize(const V& v) {
    auto p = std::make_shared<dyn_t<T>>();
    auto shp = shape_of(v);
    if (shp.empty()) { p->resize(std::vector<size_t>{1}); p->data()[0] = (T)read_elem(v, shp); return p; }
    p->resize(shp);
    size_t k = 0;
    for (odometer o(shp); !o.done; o.next()) p->data()[k++] = (T)read_elem(v, o.idx);
    return p;
}

template <typename T>
std::shared_ptr<dyn_t<T>> make_leaf(const std::vector<size_t>& shape, const std::vector<T>& data) {
    auto p = std::make_shared<dyn_t<T>>();
    p->resize(shape);
    for (size_t k = 0; k < data.size(); k++) p->data()[k] = data[k];
    return p;
}

// ---------------------------------------------------------------------
// observation: normalised JSON of any nmtools result
// ---------------------------------------------------------------------
template <typename X> void observe(W& w, const X& x);

template <typename X>
void observe_fields(W& w, const X& x) {
    using U = meta::remove_cvref_t<X>;
    if constexpr (meta::is_nothing_v<U>) {
        w.key("hv").boolean(false);
    } else if constexpr (nm::is_none_v<U>) {
        w.key("hv").boolean(true); w.key("kind").str("none");
    } else if constexpr (meta::is_fail_v<U>) {
        w.key("hv").boolean(false); w.key("kind").str("failtype");
    } else if constexpr (meta::is_maybe_v<U>) {
        if (!nm::has_value(x)) { w.key("hv").boolean(false); }
        else { w.key("maybe").boolean(true); observe_fields(w, *x); }
    } else if constexpr (meta::is_either_v<U>) {
        using L = meta::get_either_left_t<U>;
        using R = meta::get_either_right_t<U>;
        if (auto l = nm::get_if<L>(&x)) { w.key("alt").num(0); observe_fields(w, *l); }
        else if (auto r = nm::get_if<R>(&x)) { w.key("alt").num(1); observe_fields(w, *r); }
        else { w.key("hv").boolean(false); w.key("kind").str("valueless"); }
    } else if constexpr (meta::is_num_v<U> && !meta::is_ndarray_v<U>) {
        using T = meta::get_element_type_t<U>;
        w.key("hv").boolean(true); w.key("kind").str("num"); w.key("t").str(tname<T>());
        w.key("shape").beg_arr().end_arr();
        w.key("elems").beg_arr(); w.num(static_cast<T>(x)); w.end_arr();
    } else if constexpr (meta::is_constant_index_v<U>) {
        w.key("hv").boolean(true); w.key("kind").str("ct"); w.key("shape").beg_arr().end_arr();
        w.key("elems").beg_arr(); w.num((long long)x); w.end_arr();
    } else if constexpr (meta::is_index_array_v<U> || meta::is_constant_index_array_v<U> || meta::is_clipped_index_array_v<U>) {
        w.key("hv").boolean(true); w.key("kind").str("idx");
        auto v = to_vec(x);
        w.key("shape").beg_arr(); w.num(v.size()); w.end_arr();
        w.key("elems").beg_arr(); for (auto e : v) w.num(e); w.end_arr();
    } else if constexpr (meta::is_ndarray_v<U> || meta::is_num_v<U>) {
        using T = meta::get_element_type_t<U>;
        w.key("hv").boolean(true); w.key("kind").str("nd"); w.key("t").str(tname<T>());
        auto shp = shape_of(x);
        w.key("shape").beg_arr(); for (auto e : shp) w.num(e); w.end_arr();
        w.key("elems").beg_arr();
        if (safe_total(shp) != SIZE_MAX) {
            for (odometer o(shp); !o.done; o.next()) w.num((T)read_elem(x, o.idx));
        }
        w.end_arr();
        if (safe_total(shp) == SIZE_MAX) w.key("huge").boolean(true);
    } else if constexpr (meta::is_tuple_v<U>) {
        w.key("hv").boolean(true); w.key("kind").str("tup");
        w.key("items").beg_arr();
        constexpr auto N = meta::len_v<U>;
        meta::template_for<N>([&](auto i) { observe(w, nm::get<decltype(i)::value>(x)); });
        w.end_arr();
    } else if constexpr (meta::is_list_v<U>) {
        w.key("hv").boolean(true); w.key("kind").str("list");
        w.key("items").beg_arr();
        for (size_t i = 0; i < (size_t)nm::len(x); i++) observe(w, nm::at(x, i));
        w.end_arr();
    } else {
        w.key("hv").boolean(false); w.key("kind").str("unknown");
    }
}

template <typename X>
void observe(W& w, const X& x) { w.beg_obj(); observe_fields(w, x); w.end_obj(); }

template <typename X>
std::string obs_str(const X& x) { W w; observe(w, x); return w.s; }

// ---------------------------------------------------------------------
// op registry + main loop
// ---------------------------------------------------------------------
using handler_t = std::function<void(const J&, W&)>;
std::map<std::string, handler_t>& registry(); // defined in main.cpp
struct registrar { registrar(const char* n, handler_t h) { registry()[n] = std::move(h); } };

#define NMV_CAT2(a, b) a##b
#define NMV_CAT(a, b) NMV_CAT2(a, b)
#define NMV_OP(name) \
    static void NMV_CAT(nmv_op_, __LINE__)(const ::nmv::J& A, ::nmv::W& w); \
    static ::nmv::registrar NMV_CAT(nmv_reg_, __LINE__)(name, NMV_CAT(nmv_op_, __LINE__)); \
    static void NMV_CAT(nmv_op_, __LINE__)([[maybe_unused]] const ::nmv::J& A, [[maybe_unused]] ::nmv::W& w)

int server_main();

} // namespace nmv
