// C05: packed (static) and dynamic slice encodings at view and index level
#include "ops.hpp"
#include "nmtools/array/index/slice.hpp"
#include "nmtools/array/view/slice.hpp"
using namespace nmv;

static int kind_of(const J& s) {
    if (s.is_int()) return 8;
    if (s.is_str()) return 9;
    bool a = !s[0].is_null(), b = !s[1].is_null();
    int k = (a ? 2 : 0) + (b ? 1 : 0);
    if (s.size() == 3 && !s[2].is_null()) k += 4;   // [a,b,null] == [a,b]
    return k;
}

template <int K>
static auto mk_slice(const J& s) {
    if constexpr (K == 0) return nmtools_tuple{nm::None, nm::None};
    else if constexpr (K == 1) return nmtools_tuple{nm::None, (int)s[1].as_int()};
    else if constexpr (K == 2) return nmtools_tuple{(int)s[0].as_int(), nm::None};
    else if constexpr (K == 3) return nmtools_tuple{(int)s[0].as_int(), (int)s[1].as_int()};
    else if constexpr (K == 4) return nmtools_tuple{nm::None, nm::None, (int)s[2].as_int()};
    else if constexpr (K == 5) return nmtools_tuple{nm::None, (int)s[1].as_int(), (int)s[2].as_int()};
    else if constexpr (K == 6) return nmtools_tuple{(int)s[0].as_int(), nm::None, (int)s[2].as_int()};
    else if constexpr (K == 7) return nmtools_tuple{(int)s[0].as_int(), (int)s[1].as_int(), (int)s[2].as_int()};
    else if constexpr (K == 8) return (int)s.as_int();
    else return nm::Ellipsis;
}

// dispatch over a compile-time list of allowed kinds
template <int... Ks, typename F>
static bool with_slice(std::integer_sequence<int, Ks...>, const J& s, F&& f) {
    int k = kind_of(s);
    bool done = false;
    ((k == Ks ? (f(mk_slice<Ks>(s)), done = true) : false), ...);
    return done;
}

using ALL = std::integer_sequence<int, 0, 1, 2, 3, 4, 5, 6, 7, 8, 9>;
using SUB = std::integer_sequence<int, 0, 3, 4, 7, 8, 9>;
using ALL_NE = std::integer_sequence<int, 0, 1, 2, 3, 4, 5, 6, 7, 8>;
using SUB_NE = std::integer_sequence<int, 0, 3, 4, 7, 8>;
template <typename T> constexpr bool is_ell = std::is_same_v<meta::remove_cvref_t<T>, nm::ellipsis_t>;

[[noreturn]] static void bad() { throw std::runtime_error("slice kind combination not in the pre-instantiated table"); }

// ---------------- view level, packed -----------------
#if NMV_PART == 0
NMV_VOP1("slice1",
    stage_out so; auto& S = A["slices"];
    if (!with_slice(ALL{}, S[0], [&](auto s0) { so = fin(view::apply_slice(a, nmtools_tuple<decltype(s0)>{s0})); })) bad();  /* view::slice(a, one_tuple) does not compile: CTAD copies the tuple */
    return so;)
#elif NMV_PART >= 1 && NMV_PART <= 5
// two packed slices; split by first kind over 5 parts
#define K0A ((NMV_PART - 1) * 2)
#define K0B ((NMV_PART - 1) * 2 + 1)
static ::nmv::vregistrar NMV_CAT(reg_slice2_, NMV_PART)(NMV_PART == 1 ? "slice2_01" : NMV_PART == 2 ? "slice2_23" : NMV_PART == 3 ? "slice2_45" : NMV_PART == 4 ? "slice2_67" : "slice2_89",
    [](const J& A, const ins_t& in) -> stage_out {
        const eint& a = std::get<eint>(*in.at(0));
        stage_out so; auto& S = A["slices"];
        if (!with_slice(std::integer_sequence<int, K0A, K0B>{}, S[0], [&](auto s0) {
                if (!with_slice(std::conditional_t<is_ell<decltype(s0)>, ALL_NE, ALL>{}, S[1], [&](auto s1) { so = fin(view::slice(a, s0, s1)); })) bad();
            })) bad();
        return so;
    });
#elif NMV_PART >= 6 && NMV_PART <= 11
// three packed slices over the reduced kind set; split by first kind
static constexpr int SUBK[6] = {0, 3, 4, 7, 8, 9};
static ::nmv::vregistrar NMV_CAT(reg_slice3_, NMV_PART)(NMV_PART == 6 ? "slice3_0" : NMV_PART == 7 ? "slice3_3" : NMV_PART == 8 ? "slice3_4" : NMV_PART == 9 ? "slice3_7" : NMV_PART == 10 ? "slice3_8" : "slice3_9",
    [](const J& A, const ins_t& in) -> stage_out {
        const eint& a = std::get<eint>(*in.at(0));
        stage_out so; auto& S = A["slices"];
        if (!with_slice(std::integer_sequence<int, SUBK[NMV_PART - 6]>{}, S[0], [&](auto s0) {
                if (!with_slice(std::conditional_t<is_ell<decltype(s0)>, SUB_NE, SUB>{}, S[1], [&](auto s1) {
                        if (!with_slice(std::conditional_t<is_ell<decltype(s0)> || is_ell<decltype(s1)>, SUB_NE, SUB>{}, S[2], [&](auto s2) { so = fin(view::slice(a, s0, s1, s2)); })) bad();
                    })) bad();
            })) bad();
        return so;
    });
#elif NMV_PART == 12
// ---------------- view level, dynamic encodings -----------------
using tri_t = nmtools_array<int, 3>;
using e_tri_t = nmtools_either<int, nmtools_either<nm::ellipsis_t, tri_t>>;
using nn_i_t = nmtools_tuple<nm::none_t, nm::none_t, int>;
using e_nni_t = nmtools_either<int, nmtools_either<nm::ellipsis_t, nn_i_t>>;

NMV_VOP1("dslice_tri",
    std::vector<tri_t> sl;
    for (auto& s : A["slices"].a) sl.push_back(tri_t{(int)s[0].as_int(), (int)s[1].as_int(), (int)s[2].as_int()});
    FIN(view::apply_slice(a, sl));)

NMV_VOP1("dslice_either_tri",
    std::vector<e_tri_t> sl;
    for (auto& s : A["slices"].a) {
        if (s.is_int()) sl.push_back(e_tri_t{(int)s.as_int()});
        else if (s.is_str()) sl.push_back(e_tri_t{nmtools_either<nm::ellipsis_t, tri_t>{nm::Ellipsis}});
        else sl.push_back(e_tri_t{nmtools_either<nm::ellipsis_t, tri_t>{tri_t{(int)s[0].as_int(), (int)s[1].as_int(), (int)s[2].as_int()}}});
    }
    FIN(view::apply_slice(a, sl));)
#elif NMV_PART == 13
using nn_i_t = nmtools_tuple<nm::none_t, nm::none_t, int>;
using e_nni_t = nmtools_either<int, nmtools_either<nm::ellipsis_t, nn_i_t>>;
NMV_VOP1("dslice_either_nni",
    std::vector<e_nni_t> sl;
    for (auto& s : A["slices"].a) {
        if (s.is_int()) sl.push_back(e_nni_t{(int)s.as_int()});
        else if (s.is_str()) sl.push_back(e_nni_t{nmtools_either<nm::ellipsis_t, nn_i_t>{nm::Ellipsis}});
        else sl.push_back(e_nni_t{nmtools_either<nm::ellipsis_t, nn_i_t>{nn_i_t{nm::None, nm::None, (int)s[2].as_int()}}});
    }
    FIN(view::apply_slice(a, sl));)
NMV_VOP1("dslice_ni",
    using t = nmtools_tuple<nm::none_t, int>;
    std::vector<t> sl;
    for (auto& s : A["slices"].a) sl.push_back(t{nm::None, (int)s[1].as_int()});
    FIN(view::apply_slice(a, sl));)
NMV_VOP1("dslice_ii",
    using t = nmtools_tuple<int, int>;
    std::vector<t> sl;
    for (auto& s : A["slices"].a) sl.push_back(t{(int)s[0].as_int(), (int)s[1].as_int()});
    FIN(view::apply_slice(a, sl));)
#elif NMV_PART == 14
// ---------------- index level (no storage; extents up to 2^31) -----------------
// {"op":"islice1","n":N,"slice":spec,"probe":[k...]} one axis, packed kinds + dynamic array<int,3>
NMV_OP("islice1") {
    std::vector<size_t> shape{(size_t)A["n"].as_int()};
    auto probes = A["probe"].ivec<size_t>();
    auto run = [&](const auto& sl) {
        auto shp = ix::shape_slice(shape, sl);
        w.key("shape"); observe(w, shp);
        w.key("src").beg_arr();
        for (auto k : probes) {
            std::vector<size_t> idx{k};
            auto r = ix::slice(idx, shape, sl);
            w.beg_arr(); for (auto e : to_vec(nm::unwrap(r))) w.num(e); w.end_arr();
        }
        w.end_arr();
    };
    if (A.has("dynamic") && A["dynamic"].as_bool()) {
        using tri_t = nmtools_array<int, 3>;
        auto& s = A["slice"];
        std::vector<tri_t> sl{tri_t{(int)s[0].as_int(), (int)s[1].as_int(), (int)s[2].as_int()}};
        auto shp = ix::shape_dynamic_slice(shape, sl);
        w.key("shape"); observe(w, shp);
        w.key("src").beg_arr();
        for (auto k : probes) {
            std::vector<size_t> idx{k};
            auto r = ix::dynamic_slice(idx, shape, sl);
            w.beg_arr(); for (auto e : to_vec(nm::unwrap(r))) w.num(e); w.end_arr();
        }
        w.end_arr();
        return;
    }
    if (!with_slice(std::integer_sequence<int, 0, 1, 2, 3, 4, 5, 6, 7>{}, A["slice"], run)) bad();
}
#endif
