// C01 server: index <-> offset functions over every run-time container kind,
// ndindex enumeration, array element addressing for both layouts.
#include "nmv.hpp"
#include "nmtools/array/index/compute_strides.hpp"
#include "nmtools/array/index/compute_offset.hpp"
#include "nmtools/array/index/compute_indices.hpp"
#include "nmtools/array/index/ndindex.hpp"
#include "nmtools/array/index/product.hpp"
#include "nmtools/array/ndarray.hpp"
#include "nmtools/utl.hpp"

using namespace nmv;
namespace utl = nm::utl;

template <typename S>
static void assign_elems(S& s, const std::vector<long long>& v) {
    using U = meta::remove_cvref_t<S>;
    if constexpr (meta::is_tuple_v<U>) {
        constexpr auto N = meta::len_v<U>;
        meta::template_for<N>([&](auto i) { nm::get<decltype(i)::value>(s) = (meta::remove_cvref_t<decltype(nm::get<decltype(i)::value>(s))>)v[decltype(i)::value]; });
    } else {
        if constexpr (meta::is_resizable_v<U>) s.resize(v.size());
        for (size_t i = 0; i < v.size(); i++) nm::at(s, i) = (meta::get_index_element_type_t<U>)v[i];
    }
}

template <typename S>
static void run_index(const J& A, W& w, const std::vector<long long>& dims) {
    S shape{};
    assign_elems(shape, dims);
    auto strides = ix::compute_strides(shape);
    w.key("strides").beg_arr(); for (auto e : to_vec(strides)) w.num(e); w.end_arr();
    w.key("product").num((unsigned long long)ix::product(shape));
    // offsets -> indices -> offsets
    w.key("unravel").beg_arr();
    for (auto& o : A["offsets"].a) {
        unsigned long long k = (unsigned long long)o.as_int();
        auto idx = ix::compute_indices(k, shape);
        auto back = ix::compute_offset(idx, strides);
        auto idx2 = ix::compute_indices(k, shape, strides);
        w.beg_arr();
        w.beg_arr(); for (auto e : to_vec(idx)) w.num(e); w.end_arr();
        w.num((unsigned long long)back);
        w.beg_arr(); for (auto e : to_vec(idx2)) w.num(e); w.end_arr();
        w.end_arr();
    }
    w.end_arr();
    // multi-indices -> offset -> indices
    w.key("ravel").beg_arr();
    for (auto& m : A["multi"].a) {
        S mi{};
        assign_elems(mi, m.ivec());
        auto off = ix::compute_offset(mi, strides);
        auto back = ix::compute_indices(off, shape, strides);
        w.beg_arr(); w.num((unsigned long long)off);
        w.beg_arr(); for (auto e : to_vec(back)) w.num(e); w.end_arr();
        w.end_arr();
    }
    w.end_arr();
    // ndindex enumeration
    if constexpr (meta::is_index_array_v<S>) {
        if (A.has("nd")) {
            auto nd = ix::ndindex(shape);
            w.key("nd_size").num((unsigned long long)nd.size());
            w.key("nd").beg_arr();
            if (A["nd"].is_arr()) {
                for (auto& o : A["nd"].a) { w.beg_arr(); for (auto e : to_vec(nd[(size_t)o.as_int()])) w.num(e); w.end_arr(); }
            } else {
                size_t n = (size_t)A["nd"].as_int();
                for (size_t k = 0; k < n; k++) { w.beg_arr(); for (auto e : to_vec(nd[k])) w.num(e); w.end_arr(); }
            }
            w.end_arr();
        }
    }
}

template <typename E, size_t... Is>
static auto tuple_of(std::index_sequence<Is...>) { return nmtools_tuple<std::enable_if_t<(Is >= 0), E>...>{}; }

template <typename E>
static void dispatch_kind(const J& A, W& w) {
    const std::string& kind = A["kind"].as_str();
    auto dims = A["shape"].ivec();
    size_t n = dims.size();
    if (kind == "vec") return run_index<std::vector<E>>(A, w, dims);
    if (kind == "uvec") return run_index<utl::vector<E>>(A, w, dims);
    if (kind == "sv") return run_index<utl::static_vector<E, 8>>(A, w, dims);
#define NMV_FIX(N) \
    if (n == N) { \
        if (kind == "arr") return run_index<std::array<E, N>>(A, w, dims); \
        if (kind == "uarr") return run_index<utl::array<E, N>>(A, w, dims); \
        if (kind == "tup") return run_index<decltype(tuple_of<E>(std::make_index_sequence<N>{}))>(A, w, dims); \
        if (kind == "utup") return run_index<utl::array<E, N>>(A, w, dims); \
    }
    NMV_FIX(1) NMV_FIX(2) NMV_FIX(3) NMV_FIX(4) NMV_FIX(5) NMV_FIX(6)
#undef NMV_FIX
    throw std::runtime_error("unsupported kind/dim " + kind);
}

#if NMV_PART == 0
NMV_OP("c01_index_u64") { dispatch_kind<size_t>(A, w); }
#elif NMV_PART == 1
NMV_OP("c01_index_i32") { dispatch_kind<int>(A, w); }
#elif NMV_PART == 2
NMV_OP("c01_index_i64") { dispatch_kind<int64_t>(A, w); }
#elif NMV_PART == 3
NMV_OP("c01_index_u32") { dispatch_kind<uint32_t>(A, w); }
#endif

// --------------------------------------------------------------------
// compile-time constant / clipped shapes (pre-instantiated table)
// --------------------------------------------------------------------
template <typename S>
static void run_static(const J& A, W& w) {
    S shape{};
    if constexpr (meta::is_clipped_index_array_v<S>) {
        // run-time values under the clipped bound
        auto dims = A["shape"].ivec();
        constexpr auto N = meta::len_v<S>;
        meta::template_for<N>([&](auto i) { nm::at(shape, i) = dims[decltype(i)::value]; });
    }
    auto strides = ix::compute_strides(shape);
    w.key("shape_seen").beg_arr(); for (auto e : to_vec(shape)) w.num(e); w.end_arr();
    w.key("strides").beg_arr(); for (auto e : to_vec(strides)) w.num(e); w.end_arr();
    w.key("product").num((unsigned long long)ix::product(shape));
    w.key("unravel").beg_arr();
    for (auto& o : A["offsets"].a) {
        size_t k = (size_t)o.as_int();
        auto idx = ix::compute_indices(k, shape);
        auto back = ix::compute_offset(idx, strides);
        auto idx2 = ix::compute_indices(k, shape, strides);
        w.beg_arr();
        w.beg_arr(); for (auto e : to_vec(idx)) w.num(e); w.end_arr();
        w.num((unsigned long long)back);
        w.beg_arr(); for (auto e : to_vec(idx2)) w.num(e); w.end_arr();
        w.end_arr();
    }
    w.end_arr();
}

template <size_t... Ns> using ct_shape = nmtools_tuple<meta::ct<Ns>...>;
template <size_t... Ns> using cl_shape = nmtools_tuple<nm::clipped_size_t<Ns>...>;

#define NMV_STATIC_TABLE(X) \
    X(1) X(2) X(3) X(4) X(7) \
    X(1,1) X(1,2) X(2,1) X(2,2) X(2,3) X(3,2) X(3,3) X(1,3) X(3,1) X(4,5) \
    X(1,1,1) X(2,1,2) X(2,2,2) X(2,3,2) X(3,2,1) X(1,3,3) X(3,3,3) X(2,3,4) \
    X(2,1,3,2) X(2,2,2,2) X(3,1,2,3) X(2,3,2,1,2) X(2,1,2,3,1,2) \
    X(1024,1024) X(65536,16,4)

#if NMV_PART == 4 || NMV_PART == 5
#if NMV_PART == 4
#define NMV_SK ct_shape
NMV_OP("c01_static_ct") {
#else
#define NMV_SK cl_shape
NMV_OP("c01_static_cl") {
#endif
    auto key = A["key"].ivec();
    std::string k; for (auto e : key) { k += std::to_string(e); k += ","; }
#define X(...) { std::string t; for (long long e : std::vector<long long>{__VA_ARGS__}) { t += std::to_string(e); t += ","; } \
        if (t == k) { return run_static<NMV_SK<__VA_ARGS__>>(A, w); } }
    NMV_STATIC_TABLE(X)
#undef X
    throw std::runtime_error("static shape not in table");
}
#endif

#if NMV_PART == 4
// everything known at compile time: offset, shape and strides are integral constants (the library then computes the result inside the type resolver)
template <size_t... Ns>
static void run_all_ct(W& w) {
    using S = ct_shape<Ns...>;
    S shape{};
    auto strides = ix::compute_strides(shape);
    constexpr size_t total = (Ns * ...);
    w.key("shape_seen").beg_arr(); for (auto e : to_vec(shape)) w.num(e); w.end_arr();
    w.key("strides_constant").boolean(meta::is_constant_index_array_v<decltype(strides)>);
    w.key("unravel").beg_arr();
    meta::template_for<total>([&](auto k) {
        constexpr size_t K = decltype(k)::value;
        auto idx = ix::compute_indices(meta::ct_v<K>, shape);
        auto idx2 = ix::compute_indices(meta::ct_v<K>, shape, strides);
        auto back = ix::compute_offset(idx, strides);
        w.beg_arr();
        w.beg_arr(); for (auto e : to_vec(idx)) w.num(e); w.end_arr();
        w.num((unsigned long long)back);
        w.beg_arr(); for (auto e : to_vec(idx2)) w.num(e); w.end_arr();
        w.boolean(meta::is_constant_index_array_v<decltype(idx)> && meta::is_constant_index_array_v<decltype(idx2)>);
        w.end_arr();
    });
    w.end_arr();
}
#define NMV_ALLCT_TABLE(X) X(7) X(2,3) X(3,2) X(1,3) X(4,5) X(2,3,2) X(3,2,1) X(2,1,3,2) X(2,3,4)
NMV_OP("c01_all_ct") {
    auto key = A["key"].ivec();
    std::string k; for (auto e : key) { k += std::to_string(e); k += ","; }
#define X(...) { std::string t; for (long long e : std::vector<long long>{__VA_ARGS__}) { t += std::to_string(e); t += ","; } \
        if (t == k) { return run_all_ct<__VA_ARGS__>(w); } }
    NMV_ALLCT_TABLE(X)
#undef X
    throw std::runtime_error("shape not in the all-ct table");
}

NMV_OP("c01_static_table") {
    w.key("table").beg_arr();
#define X(...) { w.beg_arr(); for (long long e : std::vector<long long>{__VA_ARGS__}) w.num(e); w.end_arr(); }
    NMV_STATIC_TABLE(X)
#undef X
    w.end_arr();
}

#endif
// --------------------------------------------------------------------
// array element addressing
// --------------------------------------------------------------------
template <typename Arr>
static void run_array(const J& A, W& w, Arr& a, const std::vector<size_t>& shp) {
    // write id(i) through a(i...), read back, dump flat buffer
    size_t total = prod(shp);
    long id = 1;
    for (odometer o(shp); !o.done; o.next()) { at_idx(a, o.idx) = (int)id++; }
    w.key("shape").beg_arr(); for (auto e : to_vec(nm::shape<false, true>(a))) w.num(e); w.end_arr();
    w.key("size").num((unsigned long long)nm::size(a));
    w.key("read").beg_arr();
    for (odometer o(shp); !o.done; o.next()) w.num((int)at_idx(std::as_const(a), o.idx));
    w.end_arr();
    w.key("flat").beg_arr();
    for (size_t k = 0; k < total; k++) w.num((int)flat_ptr(a)[k]);
    w.end_arr();
    (void)A;
}

template <typename Arr>
static void run_array_dyn(const J& A, W& w) {
    auto shp = A["shape"].ivec<size_t>();
    Arr a;
    bool ok = do_resize(a, shp);
    w.key("resized").boolean(ok);
    if (!ok) return;
    run_array(A, w, a, shp);
}

template <typename Arr>
static void run_array_fixed(const J& A, W& w) {
    Arr a{};
    auto shp = shape_of(a);
    run_array(A, w, a, shp);
}

#define NMV_ARR_TABLE(X) X(3) X(2,3) X(3,2) X(1,4) X(4,1) X(2,2,2) X(2,3,2) X(3,1,2) X(2,3,4) X(2,1,3,2) X(2,2,2,2) X(1,2,3,1,2)
#if NMV_PART == 6
NMV_OP("c01_array_dyn") {
    const std::string& kind = A["kind"].as_str();
    using T = int;
    // generic ndarray_t, dynamic shape, both layouts, buffer kinds
    if (kind == "ds_db_row") return run_array_dyn<na::ndarray_t<std::vector<T>, std::vector<size_t>>>(A, w);
    if (kind == "ds_db_col") return run_array_dyn<dyn_col_t<T>>(A, w);
    if (kind == "ds_hb_row") return run_array_dyn<na::ndarray_t<utl::static_vector<T, 4096>, std::vector<size_t>>>(A, w);
    if (kind == "ds_hb_col") return run_array_dyn<na::column_major_ndarray_t<utl::static_vector<T, 4096>, std::vector<size_t>>>(A, w);
    if (kind == "hs_db_row") return run_array_dyn<na::ndarray_t<std::vector<T>, utl::static_vector<size_t, 6>>>(A, w);
    if (kind == "hs_db_col") return run_array_dyn<na::column_major_ndarray_t<std::vector<T>, utl::static_vector<size_t, 6>>>(A, w);
    if (kind == "dynamic_ndarray") return run_array_dyn<na::dynamic_ndarray<T>>(A, w);
    auto shp = A["shape"].ivec<size_t>();
    size_t n = shp.size();
#define NMV_FS(N) \
    if (n == N && kind == "fs_db_row") return run_array_dyn<na::ndarray_t<std::vector<T>, std::array<size_t, N>>>(A, w); \
    if (n == N && kind == "fs_db_col") return run_array_dyn<na::column_major_ndarray_t<std::vector<T>, std::array<size_t, N>>>(A, w); \
    if (n == N && kind == "hybrid_ndarray") return run_array_dyn<na::hybrid_ndarray<T, 4096, N>>(A, w);
    NMV_FS(1) NMV_FS(2) NMV_FS(3) NMV_FS(4) NMV_FS(5) NMV_FS(6)
#undef NMV_FS
    throw std::runtime_error("unsupported array kind/shape");
}
#endif
#if NMV_PART == 7
NMV_OP("c01_array_fix") {
    const std::string& kind = A["kind"].as_str();
    using T = int;
    auto shp = A["shape"].ivec<size_t>();
    std::string k; for (auto e : shp) { k += std::to_string(e); k += ","; }
#define X(...) { std::string t; for (long long e : std::vector<long long>{__VA_ARGS__}) { t += std::to_string(e); t += ","; } \
        if (t == k) { \
            constexpr size_t P = (size_t)nm::index::product(std::array<size_t, std::tuple_size_v<decltype(std::make_tuple(__VA_ARGS__))>>{__VA_ARGS__}); \
            if (kind == "cs_fb_row") return run_array_fixed<na::ndarray_t<std::array<T, P>, ct_shape<__VA_ARGS__>>>(A, w); \
            if (kind == "cs_fb_col") return run_array_fixed<na::column_major_ndarray_t<std::array<T, P>, ct_shape<__VA_ARGS__>>>(A, w); \
            if (kind == "cs_db_row") return run_array_fixed<na::ndarray_t<std::vector<T>, ct_shape<__VA_ARGS__>>>(A, w); \
            if (kind == "fixed_ndarray") return run_array_fixed<na::fixed_ndarray<T, __VA_ARGS__>>(A, w); \
        } }
    NMV_ARR_TABLE(X)
#undef X
    throw std::runtime_error("unsupported array kind/shape");
}

NMV_OP("c01_array_table") {
    w.key("table").beg_arr();
#define X(...) { w.beg_arr(); for (long long e : std::vector<long long>{__VA_ARGS__}) w.num(e); w.end_arr(); }
    NMV_ARR_TABLE(X)
#undef X
    w.end_arr();
}
#endif
