// C16 ops: matmul (two implementations), dot, inner, outer, vecdot, tensordot, kron, trace, diagonal
#include "ops.hpp"
using namespace nmv;

#if NMV_PART == 0
#include "nmtools/array/view/matmul.hpp"
NMV_VOP2("matmul", FIN(view::matmul(a, b));)
#elif NMV_PART == 1
#include "nmtools/array/view/matmul.hpp"
NMV_VOP2("matmulv2", FIN(view::matmulv2(a, b));)
#elif NMV_PART == 2
#include "nmtools/array/view/dot.hpp"
NMV_VOP2("dot", FIN(view::dot(a, b));)
#elif NMV_PART == 3
#include "nmtools/array/view/inner.hpp"
NMV_VOP2("inner", FIN(view::inner(a, b));)
#elif NMV_PART == 4
#include "nmtools/array/view/outer.hpp"
#include "nmtools/array/view/vecdot.hpp"
NMV_VOP2("outer", FIN(view::outer(a, b));)
NMV_VOP2("vecdot", FIN(view::vecdot(a, b));)
#elif NMV_PART == 5
#include "nmtools/array/view/tensordot.hpp"
// integer axes given as compile-time constants (the form the library's own tests use);
// ct_v<0> does not compile (index::range(0_ct,0_ct) is an empty tuple) -> only 1..4 here
NMV_VOP2("tensordot_ct",
    switch ((int)A["axes"].as_int()) {
        case 1: FIN(view::tensordot(a, b, meta::ct_v<1>));
        case 2: FIN(view::tensordot(a, b, meta::ct_v<2>));
        case 3: FIN(view::tensordot(a, b, meta::ct_v<3>));
        default: FIN(view::tensordot(a, b, meta::ct_v<4>));
    })
#elif NMV_PART == 6
#include "nmtools/array/view/tensordot.hpp"
// run-time integer axes / explicit (lhs_axes, rhs_axes) pair of run-time lists
NMV_VOP2("tensordot",
    if (A["axes"].is_int()) FIN(view::tensordot(a, b, (int)A["axes"].as_int()));
    FIN(view::tensordot(a, b, nmtools_tuple{ivec(A["axes"].a.at(0)), ivec(A["axes"].a.at(1))}));)
#elif NMV_PART == 7
#include "nmtools/array/view/kron.hpp"
NMV_VOP2("kron", FIN(view::kron(a, b));)
#elif NMV_PART == 8
#include "nmtools/array/view/diagonal.hpp"
NMV_VOP1("diagonal", FIN(view::diagonal(a, (int)A["offset"].as_int(), (int)A["axis1"].as_int(), (int)A["axis2"].as_int()));)
#elif NMV_PART == 9
#include "nmtools/array/view/trace.hpp"
NMV_VOP1("trace", FIN(view::trace(a, (int)A["offset"].as_int(), (int)A["axis1"].as_int(), (int)A["axis2"].as_int()));)
#endif
