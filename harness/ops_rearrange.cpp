// C03 ops: reshape, flatten, transpose, moveaxis, swapaxes, expand_dims, squeeze, atleast_*, flip
#include "ops.hpp"
#include "nmtools/array/view/reshape.hpp"
#include "nmtools/array/view/flatten.hpp"
#include "nmtools/array/view/transpose.hpp"
#include "nmtools/array/view/moveaxis.hpp"
#include "nmtools/array/view/swapaxes.hpp"
#include "nmtools/array/view/expand_dims.hpp"
#include "nmtools/array/view/squeeze.hpp"
#include "nmtools/array/view/atleast_nd.hpp"
#include "nmtools/array/view/flip.hpp"
using namespace nmv;

#if NMV_PART == 0
NMV_VOP1("reshape", FIN(view::reshape(a, ivec(A["shape"])));)
NMV_VOP1("flatten", FIN(view::flatten(a));)
NMV_VOP1("squeeze", FIN(view::squeeze(a));)
#elif NMV_PART == 1
NMV_VOP1("transpose",
    if (A["axes"].is_null()) FIN(view::transpose(a));
    FIN(view::transpose(a, ivec(A["axes"])));)
NMV_VOP1("swapaxes", FIN(view::swapaxes(a, (int)A["axis1"].as_int(), (int)A["axis2"].as_int()));)
#elif NMV_PART == 2
NMV_VOP1("moveaxis",
    if (A["source"].is_int()) FIN(view::moveaxis(a, (int)A["source"].as_int(), (int)A["destination"].as_int()));
    FIN(view::moveaxis(a, ivec(A["source"]), ivec(A["destination"])));)
#elif NMV_PART == 3
NMV_VOP1("expand_dims",
    if (A["axis"].is_int()) FIN(view::expand_dims(a, (int)A["axis"].as_int()));
    FIN(view::expand_dims(a, ivec(A["axis"])));)
NMV_VOP1("atleast_1d", FIN(view::atleast_1d(a));)
NMV_VOP1("atleast_2d", FIN(view::atleast_2d(a));)
NMV_VOP1("atleast_nd", FIN(view::atleast_nd(a, (size_t)A["nd"].as_int()));)
#elif NMV_PART == 4
NMV_VOP1("flip",
    if (A["axis"].is_null()) FIN(view::flip(a, nm::None));
    if (A["axis"].is_int()) FIN(view::flip(a, (int)A["axis"].as_int()));
    FIN(view::flip(a, ivec(A["axis"])));)
#endif
