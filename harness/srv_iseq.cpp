// C18: utils::isequal / utils::isclose over operand-form pairs. Built twice: with asserts (default) and with -DNDEBUG.
#include "nmv.hpp"
#include "nmtools/utility/isequal.hpp"
#include "nmtools/utility/isclose.hpp"
#include "nmtools/utility/apply_isequal.hpp"
#include "nmtools/utility/apply_isclose.hpp"
#include "nmtools/array/view/reshape.hpp"
#include "nmtools/array/view/flatten.hpp"
using namespace nmv;

// operand: {"form": F, "shape": [...], "data": [...]} ; data are integers (isequal) or doubles (isclose)
// forms: num, vec, arr (std::array by length 1..4), nd, view, maybe_nd, maybe_none, either_l (int), either_r (vector), maybe_vec
template <typename T>
struct holder {
    std::shared_ptr<dyn_t<T>> flat, nd;
};

template <typename T, typename F>
static void with_operand(const J& o, std::vector<std::shared_ptr<void>>& keep, F&& f) {
    const std::string& form = o["form"].as_str();
    std::vector<T> data;
    if constexpr (std::is_floating_point_v<T>) data = o["data"].template dvec<T>(); else data = o["data"].template ivec<T>();
    auto shp = o.has("shape") ? o["shape"].ivec<size_t>() : std::vector<size_t>{data.size()};
    if (form == "num") return f(data.at(0));
    if constexpr (std::is_integral_v<T>) {
        if (form == "vec") return f(data);
        if (form == "arr") {
            switch (data.size()) {
                case 1: return f(std::array<T, 1>{data[0]});
                case 2: return f(std::array<T, 2>{data[0], data[1]});
                case 3: return f(std::array<T, 3>{data[0], data[1], data[2]});
                case 4: return f(std::array<T, 4>{data[0], data[1], data[2], data[3]});
            }
            throw std::runtime_error("arr length");
        }
        if (form == "maybe_vec") return f(nmtools_maybe<std::vector<T>>{data});
        if (form == "either_l") return f(nmtools_either<T, std::vector<T>>{data.at(0)});
        if (form == "either_r") return f(nmtools_either<T, std::vector<T>>{data});
    }
    auto nd = make_leaf<T>(shp, data);
    keep.push_back(nd);
    if (form == "nd") return f(*nd);
    if (form == "view") {
        // a lazy view with the same logical content: reshape of the flat buffer
        auto flat = make_leaf<T>({data.size()}, data);
        keep.push_back(flat);
        std::vector<int> s(shp.begin(), shp.end());
        auto v = view::reshape(*flat, s);
        return f(nm::unwrap(v));
    }
    if (form == "maybe_nd") return f(nmtools_maybe<dyn_t<T>>{*nd});
    if (form == "maybe_none") return f(nmtools_maybe<dyn_t<T>>{meta::Nothing});
    if (form == "nothing") return f(meta::Nothing);
    throw std::runtime_error("unknown form " + form);
}

// concept class of an operand type: 0 number, 1 array-like (index array / ndarray / view), 2 either<num, index array>, 3 Nothing
template <typename X> constexpr int cid() {
    if constexpr (meta::is_nothing_v<X>) return 3;
    else if constexpr (meta::is_maybe_v<X>) return cid<meta::get_maybe_type_t<X>>();
    else if constexpr (meta::is_either_v<X>) return 2;
    else if constexpr (meta::is_num_v<X>) return 0;
    else return 1;
}
// pairings the API is meant to accept (everything else is rejected at compile time by static_assert / fail types)
template <typename A, typename B> constexpr bool pair_supported() {
    constexpr int a = cid<A>(), b = cid<B>();
    if constexpr (a == 3 || b == 3) return (a == 3) != (b == 3) && (meta::is_maybe_v<A> || meta::is_maybe_v<B>);
    else if constexpr (a == 2 || b == 2) return !(meta::is_maybe_v<A> || meta::is_maybe_v<B>);
    else return a == b;
}

template <typename A, typename B> constexpr bool both_fixed_mismatch() {
    if constexpr (meta::has_tuple_size_v<A> && meta::has_tuple_size_v<B>) return meta::len_v<A> != meta::len_v<B>;
    else return false;
}

#if NMV_PART == 0
NMV_OP("isequal") {
    std::vector<std::shared_ptr<void>> keep;
    with_operand<int>(A["a"], keep, [&](const auto& a) {
        with_operand<int>(A["b"], keep, [&](const auto& b) {
            using TA = meta::remove_cvref_t<decltype(a)>;
            using TB = meta::remove_cvref_t<decltype(b)>;
            if constexpr (both_fixed_mismatch<TA, TB>()) {
                w.key("unsupported").str("static_assert: packed sizes differ");
            } else if constexpr (!pair_supported<TA, TB>()) {
                w.key("unsupported").str("pairing rejected at compile time");
            } else {
                using R = decltype(nm::utils::isequal(a, b));
                if constexpr (std::is_convertible_v<R, bool> && !meta::is_fail_v<R>) {
                    w.key("r").boolean((bool)nm::utils::isequal(a, b));
                } else {
                    w.key("unsupported").str("fail type");
                }
            }
        });
    });
}
#elif NMV_PART == 1
NMV_OP("isclose") {
    std::vector<std::shared_ptr<void>> keep;
    double eps = A["eps"].as_dbl();
    with_operand<double>(A["a"], keep, [&](const auto& a) {
        with_operand<double>(A["b"], keep, [&](const auto& b) {
            using TA = meta::remove_cvref_t<decltype(a)>;
            using TB = meta::remove_cvref_t<decltype(b)>;
            if constexpr (!pair_supported<TA, TB>() || cid<TA>() == 3 || cid<TB>() == 3) {
                w.key("unsupported").str("pairing rejected at compile time");
            } else {
                using R = decltype(nm::utils::isclose(a, b, eps));
                if constexpr (std::is_convertible_v<R, bool> && !meta::is_fail_v<R>) {
                    w.key("r").boolean((bool)nm::utils::isclose(a, b, eps));
                } else {
                    w.key("unsupported").str("fail type");
                }
            }
        });
    });
}
#elif NMV_PART == 2
// ---- applicative comparison (apply_isequal / apply_isclose): nested lists, fixed arrays, tuples, optionals ----
// operand: {"form": F, "v": value}; forms: num, vec, vecvec, vecarr2, arr (len 1..3), tup (len 2..3), maybe_num, maybe_vec, maybe_vecvec (v may be null), nothing
template <typename T> static T jnum(const J& j) { if constexpr (std::is_floating_point_v<T>) return (T)j.as_dbl(); else return (T)j.as_int(); }
template <typename T> static std::vector<T> jvec(const J& j) { std::vector<T> v; for (auto& e : j.a) v.push_back(jnum<T>(e)); return v; }
template <typename T> static std::vector<std::vector<T>> jvecvec(const J& j) { std::vector<std::vector<T>> v; for (auto& e : j.a) v.push_back(jvec<T>(e)); return v; }

template <typename T, typename F>
static void with_apply_operand(const J& o, F&& f) {
    const std::string& form = o["form"].as_str();
    const J& v = o["v"];
    if (form == "num") return f(jnum<T>(v));
    if (form == "vec") return f(jvec<T>(v));
    if (form == "vecvec") return f(jvecvec<T>(v));
    if (form == "vecarr2") { std::vector<std::array<T, 2>> r; for (auto& e : v.a) r.push_back({jnum<T>(e[0]), jnum<T>(e[1])}); return f(r); }
    if (form == "arr") {
        auto d = jvec<T>(v);
        switch (d.size()) {
            case 1: return f(std::array<T, 1>{d[0]});
            case 2: return f(std::array<T, 2>{d[0], d[1]});
            case 3: return f(std::array<T, 3>{d[0], d[1], d[2]});
        }
        throw std::runtime_error("arr length");
    }
    if (form == "tup") {
        auto d = jvec<T>(v);
        switch (d.size()) {
            case 2: return f(std::tuple<T, T>{d[0], d[1]});
            case 3: return f(std::tuple<T, T, T>{d[0], d[1], d[2]});
        }
        throw std::runtime_error("tup length");
    }
    if (form == "maybe_num") { if (v.is_null()) return f(nmtools_maybe<T>{}); return f(nmtools_maybe<T>{jnum<T>(v)}); }
    if (form == "maybe_vec") { if (v.is_null()) return f(nmtools_maybe<std::vector<T>>{}); return f(nmtools_maybe<std::vector<T>>{jvec<T>(v)}); }
    if (form == "maybe_vecvec") { if (v.is_null()) return f(nmtools_maybe<std::vector<std::vector<T>>>{}); return f(nmtools_maybe<std::vector<std::vector<T>>>{jvecvec<T>(v)}); }
    if (form == "nothing") return f(meta::Nothing);
    throw std::runtime_error("unknown form " + form);
}

template <typename X> struct is_std_vector : std::false_type {};
template <typename E, typename A> struct is_std_vector<std::vector<E, A>> : std::true_type { using elem = E; };
template <typename X> struct is_std_array : std::false_type {};
template <typename E, size_t N> struct is_std_array<std::array<E, N>> : std::true_type { static constexpr size_t n = N; };
template <typename X> struct is_std_tuple : std::false_type {};
template <typename... E> struct is_std_tuple<std::tuple<E...>> : std::true_type { static constexpr size_t n = sizeof...(E); };

// pairings the applicative comparison accepts (mirrored by apply_supported in nmv/props/c18.py)
template <typename A, typename B> constexpr bool ap_supported() {
    constexpr bool na = meta::is_nothing_v<A>, nb = meta::is_nothing_v<B>, ma = meta::is_maybe_v<A>, mb = meta::is_maybe_v<B>;
    if constexpr (na && nb) return false;
    else if constexpr (ma && mb) return ap_supported<meta::get_maybe_type_t<A>, meta::get_maybe_type_t<B>>();
    else if constexpr ((ma && nb) || (na && mb)) return true;
    else if constexpr (na || nb) return false;
    else if constexpr (ma) return ap_supported<meta::get_maybe_type_t<A>, B>();
    else if constexpr (mb) return ap_supported<A, meta::get_maybe_type_t<B>>();
    else if constexpr (std::is_arithmetic_v<A> || std::is_arithmetic_v<B>) return std::is_arithmetic_v<A> && std::is_arithmetic_v<B>;
    else if constexpr (is_std_vector<A>::value && is_std_vector<B>::value) return ap_supported<typename is_std_vector<A>::elem, typename is_std_vector<B>::elem>();
    else if constexpr (is_std_vector<A>::value) return std::is_arithmetic_v<typename is_std_vector<A>::elem>;       // fixed array / tuple of numbers vs list of numbers
    else if constexpr (is_std_vector<B>::value) return std::is_arithmetic_v<typename is_std_vector<B>::elem>;
    else {
        return std::tuple_size_v<A> == std::tuple_size_v<B>;
    }
}

#define NMV_APPLY_OP(NAME, T, FN) \
NMV_OP(NAME) { \
    with_apply_operand<T>(A["a"], [&](const auto& a) { \
        with_apply_operand<T>(A["b"], [&](const auto& b) { \
            using TA = meta::remove_cvref_t<decltype(a)>; using TB = meta::remove_cvref_t<decltype(b)>; \
            if constexpr (!ap_supported<TA, TB>()) w.key("unsupported").str("pairing rejected at compile time"); \
            else w.key("r").boolean((bool)nm::utils::FN(a, b)); \
        }); \
    }); \
}
NMV_APPLY_OP("apply_isequal", int, apply_isequal)
NMV_APPLY_OP("apply_isclose", double, apply_isclose)
#endif
