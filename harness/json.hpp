// Minimal JSON value / parser / writer for the nmv harness servers.
// Not part of nmtools; deliberately independent of it.
#pragma once
#include <cstdint>
#include <cstdio>
#include <cstdlib>
#include <cstring>
#include <cmath>
#include <map>
#include <memory>
#include <sstream>
#include <stdexcept>
#include <string>
#include <vector>

namespace nmv {

struct J {
    enum kind_t { NUL, BOOL, INT, DBL, STR, ARR, OBJ } kind = NUL;
    bool b = false;
    long long i = 0;
    double d = 0;
    std::string s;
    std::vector<J> a;
    std::vector<std::pair<std::string, J>> o;

    bool is_null() const { return kind == NUL; }
    bool is_int() const { return kind == INT; }
    bool is_num() const { return kind == INT || kind == DBL; }
    bool is_arr() const { return kind == ARR; }
    bool is_str() const { return kind == STR; }
    bool is_bool() const { return kind == BOOL; }
    bool is_obj() const { return kind == OBJ; }

    const J* find(const std::string& k) const {
        for (auto& kv : o) if (kv.first == k) return &kv.second;
        return nullptr;
    }
    bool has(const std::string& k) const { auto p = find(k); return p && !p->is_null(); }
    const J& operator[](const std::string& k) const {
        auto p = find(k);
        if (!p) { static J nul; return nul; }
        return *p;
    }
    const J& operator[](size_t k) const { return a.at(k); }
    size_t size() const { return kind == ARR ? a.size() : o.size(); }

    long long as_int() const {
        if (kind == INT) return i;
        if (kind == DBL) return (long long)d;
        if (kind == BOOL) return b;
        throw std::runtime_error("json: not an int");
    }
    double as_dbl() const {
        if (kind == INT) return (double)i;
        if (kind == DBL) return d;
        if (kind == BOOL) return b;
        throw std::runtime_error("json: not a number");
    }
    bool as_bool() const {
        if (kind == BOOL) return b;
        if (kind == INT) return i != 0;
        throw std::runtime_error("json: not a bool");
    }
    const std::string& as_str() const {
        if (kind != STR) throw std::runtime_error("json: not a string");
        return s;
    }
    template <typename T = long long>
    std::vector<T> ivec() const {
        if (kind != ARR) throw std::runtime_error("json: not an array");
        std::vector<T> r; r.reserve(a.size());
        for (auto& e : a) r.push_back((T)e.as_int());
        return r;
    }
    template <typename T = double>
    std::vector<T> dvec() const {
        if (kind != ARR) throw std::runtime_error("json: not an array");
        std::vector<T> r; r.reserve(a.size());
        for (auto& e : a) r.push_back((T)e.as_dbl());
        return r;
    }
};

struct parser {
    const char* p; const char* e;
    void ws() { while (p < e && (*p == ' ' || *p == '\t' || *p == '\n' || *p == '\r')) ++p; }
    [[noreturn]] void fail(const char* m) { throw std::runtime_error(std::string("json parse: ") + m); }
    J parse() {
        ws();
        if (p >= e) fail("eof");
        J j;
        char c = *p;
        if (c == '{') {
            j.kind = J::OBJ; ++p; ws();
            if (*p == '}') { ++p; return j; }
            while (true) {
                ws(); J k = parse(); if (k.kind != J::STR) fail("key");
                ws(); if (*p != ':') fail("colon"); ++p;
                J v = parse(); j.o.emplace_back(k.s, std::move(v));
                ws(); if (*p == ',') { ++p; continue; }
                if (*p == '}') { ++p; break; }
                fail("obj");
            }
        } else if (c == '[') {
            j.kind = J::ARR; ++p; ws();
            if (*p == ']') { ++p; return j; }
            while (true) {
                j.a.push_back(parse());
                ws(); if (*p == ',') { ++p; continue; }
                if (*p == ']') { ++p; break; }
                fail("arr");
            }
        } else if (c == '"') {
            j.kind = J::STR; ++p;
            while (p < e && *p != '"') {
                if (*p == '\\') { ++p; char x = *p++; switch (x) { case 'n': j.s += '\n'; break; case 't': j.s += '\t'; break; default: j.s += x; } }
                else j.s += *p++;
            }
            ++p;
        } else if (c == 't') { j.kind = J::BOOL; j.b = true; p += 4; }
        else if (c == 'f') { j.kind = J::BOOL; j.b = false; p += 5; }
        else if (c == 'n') { j.kind = J::NUL; p += 4; }
        else if (c == 'N') { j.kind = J::DBL; j.d = NAN; p += 3; }
        else if (c == 'I') { j.kind = J::DBL; j.d = INFINITY; p += 8; }
        else {
            const char* q = p; bool isd = false;
            if (*q == '-') { ++q; if (*q == 'I') { j.kind = J::DBL; j.d = -INFINITY; p = q + 8; return j; } }
            while (q < e && (isdigit((unsigned char)*q) || *q == '.' || *q == 'e' || *q == 'E' || *q == '+' || *q == '-')) {
                if (*q == '.' || *q == 'e' || *q == 'E') isd = true;
                ++q;
            }
            if (q == p) fail("value");
            std::string t(p, q);
            if (isd) { j.kind = J::DBL; j.d = strtod(t.c_str(), nullptr); }
            else {
                errno = 0;
                j.kind = J::INT; j.i = strtoll(t.c_str(), nullptr, 10);
                if (errno == ERANGE) { j.kind = J::DBL; j.d = strtod(t.c_str(), nullptr); }
            }
            p = q;
        }
        return j;
    }
};

inline J parse_json(const std::string& s) {
    parser P{s.data(), s.data() + s.size()};
    return P.parse();
}

// ---- writer -----------------------------------------------------------
struct W {
    std::string s;
    bool first = true;
    std::vector<bool> stack;
    void sep() { if (!first) s += ','; first = false; }
    W& key(const char* k) { sep(); s += '"'; s += k; s += "\":"; first = true; return *this; }
    W& beg_obj() { sep(); s += '{'; first = true; return *this; }
    W& end_obj() { s += '}'; first = false; return *this; }
    W& beg_arr() { sep(); s += '['; first = true; return *this; }
    W& end_arr() { s += ']'; first = false; return *this; }
    W& raw(const std::string& r) { sep(); s += r; return *this; }
    W& str(const std::string& v) {
        sep(); s += '"';
        for (char c : v) { if (c == '"' || c == '\\') { s += '\\'; s += c; } else if (c == '\n') s += "\\n"; else if ((unsigned char)c < 0x20) s += ' '; else s += c; }
        s += '"'; return *this;
    }
    W& boolean(bool v) { sep(); s += v ? "true" : "false"; return *this; }
    W& null() { sep(); s += "null"; return *this; }
    template <typename T>
    W& num(T v) {
        sep();
        if constexpr (std::is_same_v<T, bool>) { s += v ? "1" : "0"; }
        else if constexpr (std::is_floating_point_v<T>) {
            if (std::isnan(v)) s += "NaN";
            else if (std::isinf(v)) s += (v > 0 ? "Infinity" : "-Infinity");
            else { char buf[40]; snprintf(buf, sizeof buf, "%.17g", (double)v); s += buf; }
        } else if constexpr (std::is_signed_v<T>) { s += std::to_string((long long)v); }
        else { s += std::to_string((unsigned long long)v); }
        return *this;
    }
};

} // namespace nmv
