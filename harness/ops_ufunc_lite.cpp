// a few element-wise ops on erased operands, for pipeline composition (C02/C10/C15); C07 has its own typed server
#include "ops.hpp"
#include "nmtools/array/view/ufuncs/add.hpp"
#include "nmtools/array/view/ufuncs/subtract.hpp"
#include "nmtools/array/view/ufuncs/multiply.hpp"
#include "nmtools/array/view/ufuncs/maximum.hpp"
#include "nmtools/array/view/ufuncs/minimum.hpp"
#include "nmtools/array/view/ufuncs/negative.hpp"
#include "nmtools/array/view/ufuncs/square.hpp"
#include "nmtools/array/view/ufuncs/fabs.hpp"
using namespace nmv;
#if NMV_PART == 0
NMV_VOP2("add", FIN(view::add(a, b));)
NMV_VOP2("subtract", FIN(view::subtract(a, b));)
NMV_VOP2("multiply", FIN(view::multiply(a, b));)
#elif NMV_PART == 1
NMV_VOP2("maximum", FIN(view::maximum(a, b));)
NMV_VOP2("minimum", FIN(view::minimum(a, b));)
NMV_VOP1("negative", FIN(view::negative(a));)
NMV_VOP1("square", FIN(view::square(a));)
#elif NMV_PART == 2
NMV_VOP1("add_scalar",
    using T = typename meta::remove_cvref_t<decltype(a)>::value_type;
    FIN(view::add(a, (T)A["s"].as_dbl()));)
NMV_VOP1("rsub_scalar",
    using T = typename meta::remove_cvref_t<decltype(a)>::value_type;
    FIN(view::subtract((T)A["s"].as_dbl(), a));)
NMV_VOP1("mul_scalar",
    using T = typename meta::remove_cvref_t<decltype(a)>::value_type;
    FIN(view::multiply(a, (T)A["s"].as_dbl()));)
#endif
