// C14 prelude (functors / composition / extraction / compute graph). The text of this file is inlined into every generated
// translation unit by nmv/props/c14.py (so the content-addressed cache sees it); standalone reproducers may #include it after pg.hpp.
#include "nmtools/array/functional/functor.hpp"
#include "nmtools/array/functional/combinator.hpp"
namespace fn = nmtools::functional;
namespace cb = nmtools::combinator;
namespace c14 {

template <typename T> const void* addr_of(const T& x) {
    using U = meta::remove_cvref_t<T>;
    if constexpr (meta::is_pointer_v<U>) return (const void*)x; else return (const void*)&x;
}

template <typename T> constexpr bool is_buffered() {
    using node_t = meta::remove_cvref_pointer_t<T>;
    return (meta::is_ndarray_v<node_t> || meta::is_num_v<node_t>) && !meta::is_view_v<node_t>;
}

inline int which(const void* p, std::initializer_list<const void*> leaves) { int i = 0; for (auto l : leaves) { if (l == p) return i; i++; } return -1; }

// extracted operand tuple -> list of leaf indices (identity by address; -1 = not one of the known leaves)
template <typename Ops> std::string operands_json(const Ops& ops, std::initializer_list<const void*> leaves) {
    if constexpr (meta::is_maybe_v<Ops>) { if (!nm::has_value(ops)) return "null"; return operands_json(*ops, leaves); }
    else {
        std::string s = "[";
        constexpr auto N = meta::len_v<Ops>;
        meta::template_for<N>([&](auto i) {
            constexpr auto I = decltype(i)::value;
            if (I) s += ",";
            s += std::to_string(which(addr_of(nm::get<I>(ops)), leaves));
        });
        return s + "]";
    }
}

// compute graph -> {"nodes":[[id, is_operand, leaf index by address]...], "edges":[[from,to]...]}
template <typename G> std::string graph_json(const G& g, std::initializer_list<const void*> leaves) {
    if constexpr (meta::is_maybe_v<G>) { if (!nm::has_value(g)) return "null"; return graph_json(*g, leaves); }
    else {
        std::string s = "{\"nodes\":[";
        auto keys = g.nodes();
        constexpr auto N = meta::len_v<decltype(keys)>;
        meta::template_for<N>([&](auto i) {
            constexpr auto I = decltype(i)::value;
            auto k = nm::get<I>(keys);
            auto node = g.nodes(k);
            constexpr bool buffered = is_buffered<decltype(node)>();
            if (I) s += ",";
            int leaf = -1;
            if constexpr (buffered) leaf = which(addr_of(node), leaves);
            s += "[" + std::to_string((long long)k) + "," + (buffered ? "1" : "0") + "," + std::to_string(leaf) + "]";
        });
        s += "],\"edges\":[";
        auto es = g.out_edges();
        constexpr auto M = meta::len_v<decltype(es)>;
        meta::template_for<M>([&](auto i) {
            constexpr auto I = decltype(i)::value;
            auto e = nm::get<I>(es);
            if (I) s += ",";
            s += "[" + std::to_string((long long)nm::get<0>(e)) + "," + std::to_string((long long)nm::get<1>(e)) + "]";
        });
        return s + "]}";
    }
}

template <typename V> long long view_id(const V& v) {
    using U = meta::remove_cvref_t<decltype(nm::unwrap(v))>;
    return (long long)U::id_type::value;
}

// what a functor call returned: an evaluated value, a pack of operands (tuple), or a still partially applied functor / composition
template <typename T, typename = void> struct has_arity : std::false_type {};
template <typename T> struct has_arity<T, std::void_t<decltype(T::arity)>> : std::true_type {};
template <typename R> const char* result_kind(const R&) {
    using U = meta::remove_cvref_t<R>;
    if constexpr (meta::is_maybe_v<U>) {
        using V = meta::get_maybe_type_t<U>;
        if constexpr (has_arity<V>::value && !meta::is_ndarray_v<V>) return "maybe-functor";
        else if constexpr (meta::is_tuple_v<V>) return "maybe-tuple";
        else return "value";
    } else if constexpr (meta::is_ndarray_v<U> || meta::is_num_v<U>) return "value";
    else if constexpr (has_arity<U>::value) return "functor";
    else if constexpr (meta::is_tuple_v<U>) return "tuple";
    else return "value";
}

template <typename F> long long arity_of(const F&) {
    if constexpr (meta::is_maybe_v<F>) return (long long)meta::get_maybe_type_t<F>::arity; else return (long long)F::arity;
}

} // namespace c14
