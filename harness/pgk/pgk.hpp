// kernel-simulation prelude (C13): the per-thread body of the CUDA / HIP / SYCL kernels of nmtools, executed on the host
// under a schedule that the HARNESS owns. Nothing here re-implements nmtools: every step is the library's own code,
//   host side  (cuda/evaluator.hpp:33-36, cuda/context.hpp run/run_/create_array):
//       f        = functional::get_function_composition(view)
//       operands = functional::get_function_operands(view)            (tuple of pointers to leaves / numbers)
//       every array leaf -> device_array<T, static_vector<size_t,8>, dim_t>{device ptr, shape, dim}  (a COPY of the buffer)
//   device side (cuda/context.hpp:16-30, identical in hip/ and sycl/), once per thread:
//       auto output = na::create_mutable_array<0>(out, out_shape_ptr, out_dim);
//       auto result = fn::apply(fun, operands);
//       na::assign_result(output, result, thread_id, block_id, block_size);
// (lives in harness/pgk/ and not in harness/ so that nmv.build.harness_hdr_hash(), which keys every SERVER object on all
//  harness/*.hpp, is not changed by a header that only generated C13 programs include; nmv/props/c13.py puts the hash of
//  this file into every generated program so that the progen cache follows it)
#pragma once
#include "pg.hpp"
#include "nmtools/array/eval/kernel_helper.hpp"
#include "nmtools/array/functional/functor.hpp"
#include "nmtools/utility/tuple_cat.hpp"
#include "nmtools/utility/data.hpp"

#include <cstring>
#include <memory>

namespace fn = nmtools::functional;

namespace pgk {

constexpr size_t G = 8; // guard elements before and after the output

// "device memory": separately allocated host blocks of exactly the copied size (ASan sees every byte outside)
struct arena {
    std::vector<std::unique_ptr<char[]>> blocks;
    template <typename T> T* copy(const T* src, size_t n) {
        blocks.emplace_back(new char[n * sizeof(T)]);
        T* p = reinterpret_cast<T*>(blocks.back().get());
        std::memcpy(p, src, n * sizeof(T));
        return p;
    }
};

// context_t::create_array (cuda/context.hpp:158-201) with cudaMalloc+cudaMemcpy replaced by arena::copy
template <typename array_t> auto make_device_array(const array_t& array, arena& mem) {
    static_assert(meta::is_ndarray_v<array_t> && !meta::is_view_v<array_t>, "unsupported array type for create_array");
    const auto buffer = nm::data(array);
    const auto numel = nm::size(array);
    const auto shape = nm::shape(array);
    const auto dim = nm::dim(array);
    using element_t = meta::get_element_type_t<array_t>;
    using dim_t = meta::remove_cvref_t<decltype(dim)>;
    element_t* device_raw_ptr = mem.copy<element_t>(buffer, (size_t)numel);
    using device_shape_t = nmtools_static_vector<size_t, 8>;
    auto device_shape = device_shape_t{};
    device_shape.resize(dim);
    for (size_t i = 0; i < (size_t)dim; i++) nm::at(device_shape, i) = nm::at(shape, i);
    using device_array_t = na::device_array<element_t, device_shape_t, dim_t>;
    return device_array_t{device_raw_ptr, device_shape, dim};
}

// context_t::run: numbers are passed through, pointers to leaves are dereferenced and converted
template <typename arg_t> auto device_operand(const arg_t& arg, arena& mem) {
    using U = meta::remove_cvref_t<arg_t>;
    if constexpr (meta::is_num_v<U>) return arg;
    else if constexpr (meta::is_pointer_v<U>) return make_device_array(*arg, mem);
    else return make_device_array(arg, mem);
}

template <typename operands_t, size_t... Is> auto device_operands_impl(const operands_t& ops, arena& mem, std::index_sequence<Is...>) {
    return nm::utl::tuple{device_operand(nm::get<Is>(ops), mem)...};
}
// the tuple handed to the kernel (context_t::run_: utl::tuple{get_(get<Is>(args_pack))...})
template <typename operands_t> auto device_operands(const operands_t& ops, arena& mem) {
    return device_operands_impl(ops, mem, std::make_index_sequence<meta::len_v<operands_t>>{});
}

// the kernel entry for ONE thread (cuda/context.hpp:16-30): output and result are re-created by every thread
template <typename function_t, typename out_t, typename out_shape_t, typename out_dim_t, typename operands_t>
void kernel_body(const function_t fun, out_t* out, const out_shape_t* out_shape_ptr, const out_dim_t out_dim, const operands_t operands,
                 size_t tid, size_t bid, size_t bs) {
    auto output = na::create_mutable_array<0>(out, out_shape_ptr, out_dim);
    auto result = fn::apply(fun, operands);
    auto thread_id = na::kernel_size<size_t>{tid, 0, 0};
    auto block_id = na::kernel_size<size_t>{bid, 0, 0};
    auto block_size = na::kernel_size<size_t>{bs, 1, 1};
    na::assign_result(output, result, thread_id, block_id, block_size);
}

// whole launch preparation + one thread (convenience form; run() below hoists the host part out of the thread loop)
template <typename view_t, typename out_t>
void simulate(const view_t& view, out_t* out_ptr, const std::vector<size_t>& out_shape, size_t tid, size_t bid, size_t bs) {
    arena mem;
    auto f = fn::get_function_composition(view);
    const auto& operands = fn::get_function_operands(view);
    auto dev = device_operands(operands, mem);
    kernel_body(f, out_ptr, out_shape.data(), out_shape.size(), dev, tid, bid, bs);
}

// all lines of stdin as integer lists (no line-length limit)
inline std::vector<std::vector<long long>> read_schedules() {
    std::vector<std::vector<long long>> out;
    std::string line; int c;
    auto flush = [&]() {
        std::vector<long long> v; const char* p = line.c_str();
        while (*p) { while (*p == ' ' || *p == ',') p++; if (!*p) break; char* e; long long x = strtoll(p, &e, 10); if (e == p) break; v.push_back(x); p = e; }
        if (!v.empty()) out.push_back(v);
        line.clear();
    };
    while ((c = getchar()) != EOF) { if (c == '\n') flush(); else line.push_back((char)c); }
    flush();
    return out;
}

template <typename T> T sentinel() {
    if constexpr (std::is_floating_point_v<T>) return (T)-9.87654321e+30;
    else if constexpr (std::is_same_v<T, bool>) return true;
    else return (T)-987654321;
}

// header record: host reference; prep record: the launch was prepared; then one record per schedule: the whole buffer including guards.
// schedule line = block_size n t0 b0 t1 b1 ...
template <typename view_t> void run(const std::string& id, const view_t& view, const std::vector<std::vector<long long>>& schedules) {
    if constexpr (meta::is_maybe_v<view_t>) {
        if (!nm::has_value(view)) { pg::emit(id, "\"hdr\":true,\"hv\":false"); return; }
        run(id, *view, schedules);
    } else {
        auto ref_ = na::eval(view, nm::None, nm::None, na::RowMajorResolver);
        if (!nm::has_value(ref_)) { pg::emit(id, "\"hdr\":true,\"hv\":false"); return; }
        const auto& ref = nm::unwrap(ref_);
        using ref_t = meta::remove_cvref_t<decltype(ref)>;
        if constexpr (meta::is_num_v<ref_t> && !meta::is_ndarray_v<ref_t>) {
            pg::emit(id, "\"hdr\":true,\"hv\":true,\"num\":true"); // evaluator_t: numbers never reach the kernel
        } else {
            using T = meta::get_element_type_t<ref_t>;
            auto shp = pg::shape_of(ref);
            std::vector<size_t> out_shape(shp.begin(), shp.end());
            size_t N = (size_t)nm::size(ref);
            const T S = sentinel<T>();
            pg::emit(id, "\"hdr\":true,\"ref\":" + pg::obs(ref) + ",\"N\":" + std::to_string(N) + ",\"G\":" + std::to_string(G) + ",\"sentinel\":" + pg::num(S));
            // host side of the launch (cuda/evaluator.hpp:33-36, context_t::run)
            arena mem;
            auto f = fn::get_function_composition(view);
            const auto& operands = fn::get_function_operands(view);
            auto dev = device_operands(operands, mem);
            pg::emit(id, "\"prep\":true,\"n_operands\":" + std::to_string((long long)meta::len_v<meta::remove_cvref_t<decltype(dev)>>));
            size_t k = 0;
            for (auto& s : schedules) {
                if (s.size() < 2 || (long long)s.size() != 2 + 2 * s[1]) { k++; continue; }
                size_t bs = (size_t)s[0], n = (size_t)s[1];
                const size_t L = N + 2 * G;
                std::unique_ptr<T[]> buf(new T[L]);
                for (size_t i = 0; i < L; i++) buf[i] = S;
                for (size_t i = 0; i < n; i++)
                    kernel_body(f, buf.get() + G, out_shape.data(), out_shape.size(), dev, (size_t)s[2 + 2 * i], (size_t)s[3 + 2 * i], bs);
                std::string b = "[";
                for (size_t i = 0; i < L; i++) { if (i) b += ","; b += pg::num((T)buf[i]); }
                printf("{\"id\":\"%s\",\"k\":%zu,\"buf\":%s]}\n", id.c_str(), k, b.c_str());
                fflush(stdout); // a sanitizer abort in a later schedule must not lose this record
                k++;
            }
            fflush(stdout);
        }
    }
}

} // namespace pgk
