// E3: coverage-guided fuzzing (libFuzzer) of the index math behind C01 (offset <-> indices), C05 (slice) and C06 (broadcast_shape).
// The bytes are decoded into structured arguments (FuzzedDataProvider); the semantic oracle lives inside the target:
//   C01: compute_offset(compute_indices(k, shape), compute_strides(shape)) == k, every index inside its extent, and both equal an
//        independent mixed-radix decomposition (128-bit arithmetic); extents up to 2^40, total size < 2^62
//   C05: index::shape_slice / index::slice of one axis (extent up to 2^31) equal Python's slice.indices rule (re-implemented here)
//   C06: index::broadcast_shape(a, b) succeeds exactly when NumPy's rule says so and gives that shape; symmetric in its operands;
//        (a,b),c and a,(b,c) agree (including agreement of failure)
// A failed oracle writes the decoded case to $NMV_FUZZ_REPORT (if set) and traps: libFuzzer saves the input as crash-<hash>.
// build: clang++ -std=gnu++17 -g -O1 -fsanitize=fuzzer,address,undefined -fno-sanitize-recover=undefined -DNMTOOLS_VERIF -DNMV_TARGET=<1|5|6>
#include <fuzzer/FuzzedDataProvider.h>
#include <cstdint>
#include <cstdio>
#include <cstdlib>
#include <string>
#include <vector>
#include <array>
#include <optional>

#include "nmtools/array/ndarray.hpp"
#include "nmtools/array/index/compute_strides.hpp"
#include "nmtools/array/index/compute_offset.hpp"
#include "nmtools/array/index/compute_indices.hpp"
#include "nmtools/array/index/product.hpp"
#include "nmtools/array/index/broadcast_shape.hpp"
#include "nmtools/array/index/slice.hpp"
#include "nmtools/utl/static_vector.hpp"

namespace nm = nmtools;
namespace ix = nmtools::index;
namespace meta = nmtools::meta;

extern "C" void nmtools_verif_event(int, long, long) {}

#ifndef NMV_TARGET
#define NMV_TARGET 1
#endif

static unsigned long long g_cases = 0, g_nontrivial = 0, g_rejected = 0;
static void dump_counters() {
    if (const char* p = getenv("NMV_FUZZ_COUNTERS")) {
        if (FILE* f = fopen(p, "a")) { fprintf(f, "{\"cases\":%llu,\"nontrivial\":%llu,\"rejected\":%llu}\n", g_cases, g_nontrivial, g_rejected); fclose(f); }
    }
}
struct at_exit_t { at_exit_t() { atexit(dump_counters); } } at_exit_instance;

[[noreturn]] static void fail(const std::string& what) {
    fprintf(stderr, "ORACLE-FAIL %s\n", what.c_str());
    if (const char* p = getenv("NMV_FUZZ_REPORT")) { if (FILE* f = fopen(p, "a")) { fprintf(f, "%s\n", what.c_str()); fclose(f); } }
    dump_counters();
    __builtin_trap();
}

template <typename V> static std::string list(const V& v) {
    std::string s = "[";
    bool first = true;
    for (auto e : v) { if (!first) s += ","; first = false; s += std::to_string((long long)e); }
    return s + "]";
}

// extent alphabet: small values and values around the places where 32-bit / float arithmetic would break
static unsigned long long pick_extent(FuzzedDataProvider& fdp, bool allow_big) {
    static const unsigned long long big[] = {255, 256, 65535, 65536, (1ull << 24) - 1, 1ull << 24, (1ull << 24) + 1, (1ull << 31) - 1, 1ull << 31,
                                             (1ull << 32) - 1, 1ull << 32, (1ull << 32) + 1, 1ull << 40};
    int k = fdp.ConsumeIntegralInRange<int>(0, allow_big ? 9 : 6);
    if (k <= 6) return (unsigned long long)fdp.ConsumeIntegralInRange<int>(1, 7);
    if (k == 7) return (unsigned long long)fdp.ConsumeIntegralInRange<int>(8, 1000);
    return big[fdp.ConsumeIntegralInRange<int>(0, (int)(sizeof(big) / sizeof(big[0])) - 1)];
}

// ------------------------------------------------------------------------------------------------ C01
template <typename S>
static void c01_run(const std::vector<unsigned long long>& dims, unsigned long long k, const char* kind) {
    S shape{};
    if constexpr (meta::is_resizable_v<S>) shape.resize(dims.size());
    for (size_t i = 0; i < dims.size(); i++) nm::at(shape, i) = dims[i];
    auto strides = ix::compute_strides(shape);
    // reference: mixed radix, last axis fastest
    std::vector<unsigned long long> ref(dims.size());
    unsigned long long r = k;
    for (size_t i = dims.size(); i-- > 0;) { ref[i] = r % dims[i]; r /= dims[i]; }
    std::vector<unsigned long long> rstr(dims.size());
    unsigned __int128 p = 1;
    for (size_t i = dims.size(); i-- > 0;) { rstr[i] = (unsigned long long)p; p *= dims[i]; }
    auto where = [&]() { return std::string("C01 kind=") + kind + " shape=" + list(dims) + " offset=" + std::to_string(k); };
    for (size_t i = 0; i < dims.size(); i++)
        if ((unsigned long long)nm::at(strides, i) != rstr[i]) fail(where() + " stride[" + std::to_string(i) + "]=" + std::to_string((unsigned long long)nm::at(strides, i)) + " reference " + std::to_string(rstr[i]));
    auto idx = ix::compute_indices(k, shape);
    auto idx2 = ix::compute_indices(k, shape, strides);
    for (size_t i = 0; i < dims.size(); i++) {
        unsigned long long a = (unsigned long long)nm::at(idx, i), b = (unsigned long long)nm::at(idx2, i);
        if (a >= dims[i]) fail(where() + " index[" + std::to_string(i) + "]=" + std::to_string(a) + " outside its extent");
        if (a != ref[i]) fail(where() + " index[" + std::to_string(i) + "]=" + std::to_string(a) + " reference " + std::to_string(ref[i]));
        if (b != ref[i]) fail(where() + " (with strides) index[" + std::to_string(i) + "]=" + std::to_string(b) + " reference " + std::to_string(ref[i]));
    }
    auto back = (unsigned long long)ix::compute_offset(idx, strides);
    if (back != k) fail(where() + " round trip gives " + std::to_string(back));
}

static void c01(FuzzedDataProvider& fdp) {
    int d = fdp.ConsumeIntegralInRange<int>(1, 6);
    std::vector<unsigned long long> dims;
    unsigned __int128 total = 1;
    bool big = false;
    for (int i = 0; i < d; i++) {
        auto e = pick_extent(fdp, true);
        if (total * e >= ((unsigned __int128)1 << 62)) e = 1;      // keep the element count addressable
        big = big || e > 1000;
        total *= e;
        dims.push_back(e);
    }
    unsigned long long tot = (unsigned long long)total;
    unsigned long long k;
    switch (fdp.ConsumeIntegralInRange<int>(0, 3)) {
        case 0: k = 0; break;
        case 1: k = tot - 1; break;
        case 2: k = tot / 2; break;
        default: k = fdp.ConsumeIntegralInRange<unsigned long long>(0, tot - 1);
    }
    int kind = fdp.ConsumeIntegralInRange<int>(0, 2);
    g_cases++;
    if (d >= 2 && tot > 1) g_nontrivial++;
    (void)big;
    if (kind == 0) c01_run<std::vector<size_t>>(dims, k, "vector");
    else if (kind == 1) c01_run<nm::utl::static_vector<size_t, 6>>(dims, k, "static_vector");
    else {
        switch (d) {
            case 1: c01_run<std::array<size_t, 1>>(dims, k, "array"); break;
            case 2: c01_run<std::array<size_t, 2>>(dims, k, "array"); break;
            case 3: c01_run<std::array<size_t, 3>>(dims, k, "array"); break;
            case 4: c01_run<std::array<size_t, 4>>(dims, k, "array"); break;
            case 5: c01_run<std::array<size_t, 5>>(dims, k, "array"); break;
            default: c01_run<std::array<size_t, 6>>(dims, k, "array"); break;
        }
    }
}

// ------------------------------------------------------------------------------------------------ C05
// (not built by default: clang 14 rejects the packed form of index::shape_slice / index::slice - 'variable has incomplete type const void'
//  in the nested generic lambda `decompose` - and libFuzzer needs clang; C05 stays with E1, which reaches 2^31 extents by construction)
#if NMV_TARGET == 5
struct pyrange { long long start, stop, step, len; };
// Python's PySlice_AdjustIndices / slice.indices
static pyrange py_slice_indices(std::optional<long long> a, std::optional<long long> b, std::optional<long long> c, long long n) {
    long long step = c ? *c : 1;
    long long start, stop;
    if (step > 0) {
        start = a ? *a : 0; stop = b ? *b : n;
        if (start < 0) { start += n; if (start < 0) start = 0; } else if (start > n) start = n;
        if (stop < 0) { stop += n; if (stop < 0) stop = 0; } else if (stop > n) stop = n;
    } else {
        start = a ? *a : n - 1; stop = b ? *b : -1;
        if (a) { if (start < 0) { start += n; if (start < 0) start = -1; } else if (start >= n) start = n - 1; }
        if (b) { if (stop < 0) { stop += n; if (stop < 0) stop = -1; } else if (stop >= n) stop = n - 1; }
    }
    long long len = 0;
    if (step > 0 && start < stop) len = (stop - start - 1) / step + 1;
    else if (step < 0 && stop < start) len = (start - stop - 1) / (-step) + 1;
    return {start, stop, step, len};
}

template <typename SL>
static void c05_run(long long n, const SL& sl, const pyrange& r, const std::string& spec, FuzzedDataProvider& fdp) {
    std::vector<size_t> shape{(size_t)n};
    auto packed = nmtools_tuple<SL>{sl};
    auto shp = ix::shape_slice(shape, packed);
    auto where = [&]() { return "C05 n=" + std::to_string(n) + " slice=" + spec; };
    auto got = [&]() {
        if constexpr (meta::is_maybe_v<decltype(shp)>) { if (!nm::has_value(shp)) fail(where() + " shape_slice returned Nothing"); return (long long)nm::at(*shp, 0); }
        else return (long long)nm::at(shp, 0);
    }();
    if (got != r.len) fail(where() + " length " + std::to_string(got) + " Python " + std::to_string(r.len));
    if (r.len == 0) return;
    long long ks[3] = {0, r.len - 1, fdp.ConsumeIntegralInRange<long long>(0, r.len - 1)};
    for (long long k : ks) {
        std::vector<size_t> idx{(size_t)k};
        auto src = ix::slice(idx, shape, packed);
        long long s = (long long)nm::at(nm::unwrap(src), 0);
        long long want = r.start + k * r.step;
        if (s != want) fail(where() + " element " + std::to_string(k) + " -> source " + std::to_string(s) + " Python " + std::to_string(want));
    }
}

static void c05(FuzzedDataProvider& fdp) {
    long long n;
    switch (fdp.ConsumeIntegralInRange<int>(0, 4)) {
        case 0: case 1: case 2: n = fdp.ConsumeIntegralInRange<int>(1, 9); break;
        case 3: n = fdp.ConsumeIntegralInRange<int>(10, 100000); break;
        default: { static const long long big[] = {(1ll << 24) - 1, 1ll << 24, (1ll << 24) + 1, (1ll << 24) + 3, (1ll << 31) - 2, (1ll << 31) - 1, 1000000007ll};
                   n = big[fdp.ConsumeIntegralInRange<int>(0, 6)]; }
    }
    auto bound = [&](bool& has) -> int {
        int m = fdp.ConsumeIntegralInRange<int>(0, 5);
        has = m != 0;
        if (!has) return 0;
        long long lim = n < (1ll << 31) - 3 ? n + 2 : n;
        long long v;
        if (m <= 2) v = fdp.ConsumeIntegralInRange<long long>(-lim, lim);
        else if (m == 3) v = fdp.ConsumeIntegralInRange<int>(-4, 4);
        else if (m == 4) v = n - fdp.ConsumeIntegralInRange<int>(0, 3);
        else v = -n + fdp.ConsumeIntegralInRange<int>(-2, 3);
        if (v > 2147483647ll) v = 2147483647ll;
        if (v < -2147483647ll) v = -2147483647ll;
        return (int)v;
    };
    bool ha, hb;
    int a = bound(ha), b = bound(hb);
    int sm = fdp.ConsumeIntegralInRange<int>(0, 8);
    bool hc = sm != 0;
    static const int steps[] = {0, 1, 2, 3, 7, -1, -2, -3, -7};
    int c = steps[sm];
    auto r = py_slice_indices(ha ? std::optional<long long>(a) : std::nullopt, hb ? std::optional<long long>(b) : std::nullopt, hc ? std::optional<long long>(c) : std::nullopt, n);
    std::string spec = "[" + (ha ? std::to_string(a) : std::string("None")) + "," + (hb ? std::to_string(b) : std::string("None")) + "," + (hc ? std::to_string(c) : std::string("None")) + "]";
    g_cases++;
    if ((ha || hb || hc) && !(r.len == n && r.step == 1)) g_nontrivial++;
    int kind = (ha ? 2 : 0) + (hb ? 1 : 0) + (hc ? 4 : 0);
    switch (kind) {
        case 0: c05_run(n, nmtools_tuple{nm::None, nm::None}, r, spec, fdp); break;
        case 1: c05_run(n, nmtools_tuple{nm::None, b}, r, spec, fdp); break;
        case 2: c05_run(n, nmtools_tuple{a, nm::None}, r, spec, fdp); break;
        case 3: c05_run(n, nmtools_tuple{a, b}, r, spec, fdp); break;
        case 4: c05_run(n, nmtools_tuple{nm::None, nm::None, c}, r, spec, fdp); break;
        case 5: c05_run(n, nmtools_tuple{nm::None, b, c}, r, spec, fdp); break;
        case 6: c05_run(n, nmtools_tuple{a, nm::None, c}, r, spec, fdp); break;
        default: c05_run(n, nmtools_tuple{a, b, c}, r, spec, fdp); break;
    }
}

#endif
// ------------------------------------------------------------------------------------------------ C06
using shape_v = std::vector<size_t>;
static std::optional<shape_v> ref_broadcast(const shape_v& a, const shape_v& b) {
    size_t d = std::max(a.size(), b.size());
    shape_v out(d);
    for (size_t i = 0; i < d; i++) {
        size_t x = i < a.size() ? a[a.size() - 1 - i] : 1, y = i < b.size() ? b[b.size() - 1 - i] : 1;
        if (x != y && x != 1 && y != 1) return std::nullopt;
        out[d - 1 - i] = x == 1 ? y : x;
    }
    return out;
}
template <typename R> static std::optional<shape_v> to_opt(const R& r) {
    if constexpr (meta::is_maybe_v<R>) {
        if (!nm::has_value(r)) return std::nullopt;
        shape_v v; for (size_t i = 0; i < (size_t)nm::len(*r); i++) v.push_back((size_t)nm::at(*r, i)); return v;
    } else { shape_v v; for (size_t i = 0; i < (size_t)nm::len(r); i++) v.push_back((size_t)nm::at(r, i)); return v; }
}
static std::string show(const std::optional<shape_v>& o) { return o ? list(*o) : std::string("Nothing"); }

static void c06(FuzzedDataProvider& fdp) {
    auto mk = [&](const shape_v* like) {
        int d = fdp.ConsumeIntegralInRange<int>(0, 6);
        shape_v s;
        for (int i = 0; i < d; i++) {
            int m = fdp.ConsumeIntegralInRange<int>(0, 3);
            size_t e;
            if (m == 0) e = 1;
            else if (m == 1 && like && (size_t)i < like->size()) e = (*like)[like->size() - 1 - i];       // aligned with the other operand
            else e = (size_t)pick_extent(fdp, true);
            s.insert(s.begin(), e);
        }
        return s;
    };
    shape_v a = mk(nullptr), b = mk(&a), c = mk(&b);
    g_cases++;
    auto rab = ref_broadcast(a, b);
    if (a != b && (a.size() != b.size() || rab)) g_nontrivial++;
    auto where = [&]() { return "C06 a=" + list(a) + " b=" + list(b) + " c=" + list(c); };
    auto ab = to_opt(ix::broadcast_shape(a, b));
    auto ba = to_opt(ix::broadcast_shape(b, a));
    if (ab != rab) fail(where() + " broadcast_shape(a,b)=" + show(ab) + " reference " + show(rab));
    if (ba != rab) fail(where() + " broadcast_shape(b,a)=" + show(ba) + " reference " + show(rab));
    // associativity, including agreement of failure
    std::optional<shape_v> ab_c, a_bc;
    if (ab) ab_c = to_opt(ix::broadcast_shape(*ab, c));
    auto bc = to_opt(ix::broadcast_shape(b, c));
    if (bc) a_bc = to_opt(ix::broadcast_shape(a, *bc));
    std::optional<shape_v> rabc;
    if (rab) rabc = ref_broadcast(*rab, c);
    if (ab_c != rabc) fail(where() + " (a,b),c=" + show(ab_c) + " reference " + show(rabc));
    if (a_bc != rabc) fail(where() + " a,(b,c)=" + show(a_bc) + " reference " + show(rabc));
    auto abc = to_opt(ix::broadcast_shape(a, b, c));
    if (abc != rabc) fail(where() + " broadcast_shape(a,b,c)=" + show(abc) + " reference " + show(rabc));
    // static_vector operands agree with vector operands
    nm::utl::static_vector<size_t, 6> sa, sb;
    sa.resize(a.size()); sb.resize(b.size());
    for (size_t i = 0; i < a.size(); i++) nm::at(sa, i) = a[i];
    for (size_t i = 0; i < b.size(); i++) nm::at(sb, i) = b[i];
    auto sab = to_opt(ix::broadcast_shape(sa, sb));
    if (sab != rab) fail(where() + " static_vector operands: " + show(sab) + " reference " + show(rab));
    // fixed-size operands (std::array, dims 1..4): the unrolled loop of the fixed-length result
    if (a.size() >= 1 && a.size() <= 4 && b.size() >= 1 && b.size() <= 4) {
        auto with_arr = [&](const shape_v& v, auto&& f) {
            switch (v.size()) {
                case 1: return f(std::array<size_t, 1>{v[0]});
                case 2: return f(std::array<size_t, 2>{v[0], v[1]});
                case 3: return f(std::array<size_t, 3>{v[0], v[1], v[2]});
                default: return f(std::array<size_t, 4>{v[0], v[1], v[2], v[3]});
            }
        };
        with_arr(a, [&](const auto& fa) {
            with_arr(b, [&](const auto& fb) {
                auto fab = to_opt(ix::broadcast_shape(fa, fb));
                if (fab != rab) fail(where() + " std::array operands: " + show(fab) + " reference " + show(rab));
            });
        });
    }
}

extern "C" int LLVMFuzzerTestOneInput(const uint8_t* data, size_t size) {
    FuzzedDataProvider fdp(data, size);
    if (size < 2) { g_rejected++; return 0; }
#if NMV_TARGET == 1
    c01(fdp);
#elif NMV_TARGET == 5
    c05(fdp);
#else
    c06(fdp);
#endif
    return 0;
}
