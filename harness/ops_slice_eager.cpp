// C05: the eager entry point array::slice (= eval of view::slice) with packed slice kinds; same kind table as ops_slice.cpp
#include "ops.hpp"
#include "nmtools/array/array/slice.hpp"
using namespace nmv;

static int kind_of(const J& s) {
    if (s.is_int()) return 8;
    if (s.is_str()) return 9;
    bool a = !s[0].is_null(), b = !s[1].is_null();
    int k = (a ? 2 : 0) + (b ? 1 : 0);
    if (s.size() == 3 && !s[2].is_null()) k += 4;   // [a,b,null] == [a,b]
    return k;
}

template <int K>
static auto mk_slice(const J& s) {
    if constexpr (K == 0) return nmtools_tuple{nm::None, nm::None};
    else if constexpr (K == 1) return nmtools_tuple{nm::None, (int)s[1].as_int()};
    else if constexpr (K == 2) return nmtools_tuple{(int)s[0].as_int(), nm::None};
    else if constexpr (K == 3) return nmtools_tuple{(int)s[0].as_int(), (int)s[1].as_int()};
    else if constexpr (K == 4) return nmtools_tuple{nm::None, nm::None, (int)s[2].as_int()};
    else if constexpr (K == 5) return nmtools_tuple{nm::None, (int)s[1].as_int(), (int)s[2].as_int()};
    else if constexpr (K == 6) return nmtools_tuple{(int)s[0].as_int(), nm::None, (int)s[2].as_int()};
    else if constexpr (K == 7) return nmtools_tuple{(int)s[0].as_int(), (int)s[1].as_int(), (int)s[2].as_int()};
    else if constexpr (K == 8) return (int)s.as_int();
    else return nm::Ellipsis;
}

template <int... Ks, typename F>
static bool with_slice(std::integer_sequence<int, Ks...>, const J& s, F&& f) {
    int k = kind_of(s);
    bool done = false;
    ((k == Ks ? (f(mk_slice<Ks>(s)), done = true) : false), ...);
    return done;
}

using ALL = std::integer_sequence<int, 0, 1, 2, 3, 4, 5, 6, 7, 8, 9>;
using ALL_NE = std::integer_sequence<int, 0, 1, 2, 3, 4, 5, 6, 7, 8>;
using SUB = std::integer_sequence<int, 0, 7, 8, 9>;
using SUB_NE = std::integer_sequence<int, 0, 7, 8>;
template <typename T> constexpr bool is_ell = std::is_same_v<meta::remove_cvref_t<T>, nm::ellipsis_t>;
template <typename... T> constexpr bool all_int_v = (std::is_same_v<meta::remove_cvref_t<T>, int> && ...);

[[noreturn]] static void bad() { throw std::runtime_error("slice kind combination not in the pre-instantiated table"); }

#if NMV_PART == 0
NMV_VOP1("aslice1",
    stage_out so; auto& S = A["slices"];
    if (!with_slice(ALL_NE{}, S[0], [&](auto s0) {
            if constexpr (!all_int_v<decltype(s0)>) so = fin(na::apply_slice(a, nmtools_tuple<decltype(s0)>{s0})); else bad(); })) bad();
    return so;)
#define K0S 0, 1, 2, 3, 4
#define ANAME "aslice2_a"
#elif NMV_PART == 1
#define K0S 5, 6, 7, 8, 9
#define ANAME "aslice2_b"
#endif
#if NMV_PART <= 1
static ::nmv::vregistrar reg_aslice2(ANAME,
    [](const J& A, const ins_t& in) -> stage_out {
        const eint& a = std::get<eint>(*in.at(0));
        stage_out so; auto& S = A["slices"];
        if (!with_slice(std::integer_sequence<int, K0S>{}, S[0], [&](auto s0) {
                if (!with_slice(std::conditional_t<is_ell<decltype(s0)>, ALL_NE, ALL>{}, S[1], [&](auto s1) {
                        if constexpr (!all_int_v<decltype(s0), decltype(s1)>) so = fin(na::slice(a, s0, s1)); else bad(); })) bad();
            })) bad();
        return so;
    });
#elif NMV_PART == 2
static ::nmv::vregistrar reg_aslice3("aslice3",
    [](const J& A, const ins_t& in) -> stage_out {
        const eint& a = std::get<eint>(*in.at(0));
        stage_out so; auto& S = A["slices"];
        if (!with_slice(SUB{}, S[0], [&](auto s0) {
                if (!with_slice(std::conditional_t<is_ell<decltype(s0)>, SUB_NE, SUB>{}, S[1], [&](auto s1) {
                        if (!with_slice(std::conditional_t<is_ell<decltype(s0)> || is_ell<decltype(s1)>, SUB_NE, SUB>{}, S[2], [&](auto s2) {
                                if constexpr (!all_int_v<decltype(s0), decltype(s1), decltype(s2)>) so = fin(na::slice(a, s0, s1, s2)); else bad(); })) bad();
                    })) bad();
            })) bad();
        return so;
    });
#endif
