// E3: coverage-guided fuzzing (libFuzzer) of operation histories on the STL-free sequence containers (C19).
// Bytes are decoded into a history over two slots {default / sized / copy construct, assign (other | self), push_back, resize, write, destroy};
// after every step both slots are compared with a model (std::vector<std::optional<int>>: an empty optional is an element whose value the
// container does not specify - utl::vector and utl::static_vector do not value-initialise grown elements, documented as not STL compatible);
// at the end everything is destroyed and the counting allocator must be balanced. Container under test by -DNMV_TARGET:
//   191 utl::vector<int>   192 utl::static_vector<int,4> (capacity: refused operations leave the contents unchanged)
//   193 nmtools::small_vector<int,6,std::variant,utl::static_vector,std::vector> (model tracks which buffer is active)
// The utl-backed small_vector / maybe<vector> / either<..vector..> are not fuzzed: their histories lie in the known finding
// C19-nontrivial-either-lifetime.
#include <fuzzer/FuzzedDataProvider.h>
#include <cstdint>
#include <cstdio>
#include <cstdlib>
#include <map>
#include <optional>
#include <string>
#include <variant>
#include <vector>

namespace nmv_alloc {
    inline long allocs = 0, frees = 0, bad_free = 0;
    inline std::map<void*, size_t>& live() { static std::map<void*, size_t> m; return m; }
    inline void* counted_malloc(size_t n) { void* p = ::malloc(n ? n : 1); allocs++; live()[p] = n; return p; }
    inline void counted_free(void* p) {
        if (!p) return;
        auto it = live().find(p);
        if (it == live().end()) { bad_free++; return; }
        live().erase(it); frees++; ::free(p);
    }
}
#define nmtools_malloc ::nmv_alloc::counted_malloc
#define nmtools_free ::nmv_alloc::counted_free

#include "nmtools/utl.hpp"
#include "nmtools/utility/small_vector.hpp"

namespace nm = nmtools;
namespace utl = nmtools::utl;

extern "C" void nmtools_verif_event(int, long, long) {}

#ifndef NMV_TARGET
#define NMV_TARGET 191
#endif

static unsigned long long g_cases = 0, g_nontrivial = 0, g_rejected = 0;
static void dump_counters() {
    if (const char* p = getenv("NMV_FUZZ_COUNTERS")) {
        if (FILE* f = fopen(p, "a")) { fprintf(f, "{\"cases\":%llu,\"nontrivial\":%llu,\"rejected\":%llu}\n", g_cases, g_nontrivial, g_rejected); fclose(f); }
    }
}
struct at_exit_t { at_exit_t() { atexit(dump_counters); } } at_exit_instance;

[[noreturn]] static void fail(const std::string& what) {
    fprintf(stderr, "ORACLE-FAIL %s\n", what.c_str());
    if (const char* p = getenv("NMV_FUZZ_REPORT")) { if (FILE* f = fopen(p, "a")) { fprintf(f, "%s\n", what.c_str()); fclose(f); } }
    dump_counters();
    __builtin_trap();
}

using elem_t = std::optional<int>;
struct model_t { std::vector<elem_t> v; bool heap = false; };

#if NMV_TARGET == 191
using C = utl::vector<int>;
static const char* NAME = "utl::vector<int>";
constexpr size_t CAP = 0;            // unbounded
constexpr size_t DIM = 0;
#elif NMV_TARGET == 192
using C = utl::static_vector<int, 4>;
static const char* NAME = "utl::static_vector<int,4>";
constexpr size_t CAP = 4;
constexpr size_t DIM = 0;
#else
using C = nm::small_vector<int, 6, std::variant, utl::static_vector, std::vector>;
static const char* NAME = "small_vector<int,6,std::variant,static_vector,std::vector>";
constexpr size_t CAP = 0;
constexpr size_t DIM = 6;
#endif

// ---- model transitions (mirror nmv/props/c19.py) ----
static model_t m_sized(size_t n) {
    model_t m;
    if (DIM) { m.heap = n >= DIM; m.v.assign(n, m.heap ? elem_t{0} : elem_t{}); }
    else m.v.assign(n, elem_t{});
    return m;
}
static void m_grow(model_t& m, size_t n) {
    if (n <= m.v.size()) { m.v.resize(n); return; }
    if (DIM && !m.heap && n > DIM) m.heap = true;
    m.v.resize(n, (DIM && m.heap) ? elem_t{0} : elem_t{});
}
static void m_push(model_t& m, int x) {
    if (CAP && m.v.size() + 1 > CAP) return;                       // refused
    if (DIM && m.v.size() == DIM) { m_grow(m, DIM + 1); m.v[DIM] = x; return; }
    m.v.push_back(x);
}
static void m_resize(model_t& m, size_t n) {
    if (CAP && n > CAP) return;                                    // refused
    m_grow(m, n);
}

static std::string show(const model_t& m) {
    std::string s = "[";
    for (size_t i = 0; i < m.v.size(); i++) { if (i) s += ","; s += m.v[i] ? std::to_string(*m.v[i]) : std::string("?"); }
    return s + (DIM ? (m.heap ? "] heap" : "] static") : "]");
}

extern "C" int LLVMFuzzerTestOneInput(const uint8_t* data, size_t size) {
    if (size < 3) { g_rejected++; return 0; }
    FuzzedDataProvider fdp(data, size);
    nmv_alloc::allocs = nmv_alloc::frees = nmv_alloc::bad_free = 0;
    nmv_alloc::live().clear();
    std::string hist;
    {
        std::optional<C> slot[2];
        std::optional<model_t> mod[2];
        bool shrink_grow = false, copied_then_mutated = false, crossed = false, refused = false;
        bool was_copied[2] = {false, false}, shrunk[2] = {false, false};
        int steps = fdp.ConsumeIntegralInRange<int>(1, 24);
        for (int st = 0; st < steps && fdp.remaining_bytes() > 0; st++) {
            int k = fdp.ConsumeIntegralInRange<int>(0, 1);
            int op = fdp.ConsumeIntegralInRange<int>(0, 9);
            if (!slot[k]) {
                // construct
                int how = op % 3;
                if (how == 0) { slot[k].emplace(); mod[k] = model_t{}; hist += " new" + std::to_string(k); }
                else if (how == 1) {
                    size_t n = fdp.ConsumeIntegralInRange<size_t>(0, CAP ? CAP : 9);
                    slot[k].emplace(n); mod[k] = m_sized(n); hist += " sized" + std::to_string(k) + "(" + std::to_string(n) + ")";
                } else if (slot[1 - k]) { slot[k].emplace(*slot[1 - k]); mod[k] = *mod[1 - k]; was_copied[k] = was_copied[1 - k] = true; hist += " copy" + std::to_string(k); }
                else { slot[k].emplace(); mod[k] = model_t{}; hist += " new" + std::to_string(k); }
            } else {
                size_t n = mod[k]->v.size();
                switch (op) {
                    case 0: case 1: case 2: {
                        int x = fdp.ConsumeIntegralInRange<int>(1, 99);
                        if (CAP && n + 1 > CAP) refused = true;
                        if (DIM && n == DIM && !mod[k]->heap) crossed = true;
                        slot[k]->push_back(x); m_push(*mod[k], x); hist += " push" + std::to_string(k) + "(" + std::to_string(x) + ")";
                        if (was_copied[k]) copied_then_mutated = true;
                    } break;
                    case 3: case 4: {
                        size_t m = fdp.ConsumeIntegralInRange<size_t>(0, (CAP ? CAP : 9) + 2);
                        if (CAP && m > CAP) refused = true;
                        if (DIM && !mod[k]->heap && m > DIM) crossed = true;
                        if (m < n) shrunk[k] = true; else if (m > n && shrunk[k]) shrink_grow = true;
                        slot[k]->resize(m); m_resize(*mod[k], m); hist += " resize" + std::to_string(k) + "(" + std::to_string(m) + ")";
                        if (was_copied[k]) copied_then_mutated = true;
                    } break;
                    case 5: case 6: {
                        if (n) {
                            size_t i = fdp.ConsumeIntegralInRange<size_t>(0, n - 1);
                            int x = fdp.ConsumeIntegralInRange<int>(100, 199);
                            (*slot[k])[i] = x; mod[k]->v[i] = x; hist += " write" + std::to_string(k) + "[" + std::to_string(i) + "]";
                            if (was_copied[k]) copied_then_mutated = true;
                        }
                    } break;
                    case 7: {
                        int j = fdp.ConsumeBool() ? k : 1 - k;
                        if (slot[j]) { *slot[k] = *slot[j]; mod[k] = *mod[j]; was_copied[k] = was_copied[j] = true; hist += " assign" + std::to_string(k) + "<-" + std::to_string(j); }
                    } break;
                    case 8: { slot[k].reset(); mod[k].reset(); was_copied[k] = false; shrunk[k] = false; hist += " destroy" + std::to_string(k); } break;
                    default: break;
                }
            }
            // compare both slots with the model
            for (int s = 0; s < 2; s++) {
                if (!slot[s]) continue;
                const C& c = *slot[s];
                const model_t& m = *mod[s];
                if ((size_t)c.size() != m.v.size())
                    fail(std::string("C19 ") + NAME + " after" + hist + ": slot " + std::to_string(s) + " size " + std::to_string((size_t)c.size()) + ", model " + show(m));
                for (size_t i = 0; i < m.v.size(); i++)
                    if (m.v[i] && c[i] != *m.v[i])
                        fail(std::string("C19 ") + NAME + " after" + hist + ": slot " + std::to_string(s) + " element " + std::to_string(i) + " is " + std::to_string(c[i]) + ", model " + show(m));
            }
        }
        g_cases++;
        if (shrink_grow || copied_then_mutated || crossed || refused) g_nontrivial++;
    }
    if (nmv_alloc::bad_free) fail(std::string("C19 ") + NAME + " after" + hist + ": free of a pointer the allocator never returned (or double free)");
    if (!nmv_alloc::live().empty()) {
        size_t n = nmv_alloc::live().size();
        for (auto& kv : nmv_alloc::live()) ::free(kv.first);
        nmv_alloc::live().clear();
        fail(std::string("C19 ") + NAME + " after" + hist + " and destruction: " + std::to_string(n) + " allocation(s) not freed");
    }
    return 0;
}
