// C06: index::broadcast_shape over container kinds + laws, view::broadcast_to / broadcast_arrays
#include "ops.hpp"
#include "nmtools/array/index/broadcast_shape.hpp"
#include "nmtools/array/index/broadcast_to.hpp"
#include "nmtools/array/view/broadcast_to.hpp"
#include "nmtools/array/view/broadcast_arrays.hpp"
#include "nmtools/utl.hpp"
using namespace nmv;
namespace utl = nm::utl;

template <typename S>
static S mk(const std::vector<long long>& v) {
    S s{};
    if constexpr (meta::is_resizable_v<S>) s.resize(v.size());
    for (size_t i = 0; i < v.size(); i++) nm::at(s, i) = (meta::get_index_element_type_t<S>)v[i];
    return s;
}

// call f with the shape built in the requested container kind (none = scalar operand)
template <typename F>
static void with_kind(const std::string& kind, const J& js, F&& f) {
    if (js.is_null() || kind == "none") return f(nm::None);
    auto v = js.ivec();
    if (kind == "vec") return f(mk<std::vector<size_t>>(v));
    if (kind == "veci") return f(mk<std::vector<int>>(v));
    if (kind == "sv") return f(mk<utl::static_vector<size_t, 8>>(v));
    if (kind == "uvec") return f(mk<utl::vector<size_t>>(v));
    if (kind == "arr" || kind == "uarr") {
        bool u = kind == "uarr";
        switch (v.size()) {
#define CASE(N) case N: if (u) return f(mk<utl::array<size_t, N>>(v)); else return f(mk<std::array<size_t, N>>(v));
            CASE(1) CASE(2) CASE(3) CASE(4)
#undef CASE
        }
    }
    throw std::runtime_error("bad kind " + kind);
}

#if NMV_PART == 0
// two operands, any kind pair
NMV_OP("bshape2") {
    auto& ks = A["kinds"];
    with_kind(ks[0].as_str(), A["shapes"][0], [&](const auto& a) {
        with_kind(ks[1].as_str(), A["shapes"][1], [&](const auto& b) {
            if constexpr (nm::is_none_v<meta::remove_cvref_t<decltype(a)>> && nm::is_none_v<meta::remove_cvref_t<decltype(b)>>) {
                observe_fields(w, ix::broadcast_shape(a, b));
            } else {
                observe_fields(w, ix::broadcast_shape(a, b));
            }
        });
    });
}
#elif NMV_PART == 1
// n operands (3..5), homogeneous kinds vec / sv, plus mixed vec/sv/vec
NMV_OP("bshapeN") {
    const std::string kind = A["kind"].as_str();
    auto& S = A["shapes"];
    size_t n = S.size();
    auto run = [&](auto tag) {
        using C = typename decltype(tag)::type;
        std::vector<C> s;
        for (size_t i = 0; i < n; i++) s.push_back(mk<C>(S[i].ivec()));
        if (n == 3) observe_fields(w, ix::broadcast_shape(s[0], s[1], s[2]));
        else if (n == 4) observe_fields(w, ix::broadcast_shape(s[0], s[1], s[2], s[3]));
        else if (n == 5) observe_fields(w, ix::broadcast_shape(s[0], s[1], s[2], s[3], s[4]));
        else throw std::runtime_error("n");
    };
    if (kind == "vec") run(meta::as_value_v<std::vector<size_t>>);
    else if (kind == "sv") run(meta::as_value_v<utl::static_vector<size_t, 8>>);
    else if (kind == "mixed") {
        auto a = mk<std::vector<size_t>>(S[0].ivec());
        auto b = mk<utl::static_vector<size_t, 8>>(S[1].ivec());
        auto c = mk<std::vector<int>>(S[2].ivec());
        observe_fields(w, ix::broadcast_shape(a, b, c));
    } else throw std::runtime_error("kind");
}
#elif NMV_PART == 2
// laws evaluated on the library's own answers (maybe-typed intermediates are fed back unchanged)
NMV_OP("blaw") {
    auto a = mk<std::vector<size_t>>(A["a"].ivec());
    auto b = mk<std::vector<size_t>>(A["b"].ivec());
    auto c = mk<std::vector<size_t>>(A["c"].ivec());
    auto ab = ix::broadcast_shape(a, b);
    auto ba = ix::broadcast_shape(b, a);
    auto bc = ix::broadcast_shape(b, c);
    w.key("ab"); observe(w, ab);
    w.key("ba"); observe(w, ba);
    w.key("ab_c"); observe(w, ix::broadcast_shape(ab, c));
    w.key("a_bc"); observe(w, ix::broadcast_shape(a, bc));
    w.key("abc"); observe(w, ix::broadcast_shape(a, b, c));
    w.key("aa"); observe(w, ix::broadcast_shape(a, a));
    w.key("a_ab"); observe(w, ix::broadcast_shape(a, ab));
    w.key("a_none"); observe(w, ix::broadcast_shape(a, nm::None));
    w.key("none_a"); observe(w, ix::broadcast_shape(nm::None, a));
}
#elif NMV_PART == 3
NMV_VOP1("broadcast_to", FIN(view::broadcast_to(a, uvec(A["shape"])));)
NMV_VOP1("broadcast_to_i", FIN(view::broadcast_to(a, ivec(A["shape"])));)
#elif NMV_PART == 4
NMV_VOP2("broadcast_arrays2",
    auto r = view::broadcast_arrays(a, b);
    int k = (int)A["k"].as_int();
    if (!nm::has_value(r)) FIN(meta::Nothing);
    if (k == 0) FIN(nm::get<0>(nm::unwrap(r)));
    FIN(nm::get<1>(nm::unwrap(r)));)
#elif NMV_PART == 5
NMV_VOP3("broadcast_arrays3",
    auto r = view::broadcast_arrays(a, b, c);
    int k = (int)A["k"].as_int();
    if (!nm::has_value(r)) FIN(meta::Nothing);
    if (k == 0) FIN(nm::get<0>(nm::unwrap(r)));
    if (k == 1) FIN(nm::get<1>(nm::unwrap(r)));
    FIN(nm::get<2>(nm::unwrap(r)));)
#endif
