// C20 server: operation histories on array objects (generic ndarray_t of every shape/buffer kind and layout,
// legacy fixed/hybrid/dynamic classes) with the full state reported after every step, and writes through mutable views.
//
// {"op":"hist","kind":K,"layout":"row"|"col","steps":[...]}
//   K in {cs,fs,hs,ds,ls}_{fb,hb,db} (nmtools::cast(raw[3][4], kind::ndarray_K); "col" = column_major_ndarray_t with the same
//   buffer/shape types), "fixed_ndarray", "hybrid_ndarray", "dynamic_ndarray" (layout "row" only)
//   slot 0 starts as the cast of int raw[3][4] = arange(12); slot 1 starts empty
//   steps: ["resize",s,[shape]] (packed: a.resize(shape)) ["resize_v",s,[shape]] (variadic: a.resize(n0,n1,..)) ["write",s,[index],v] ["fill_ids",s,base] ["copy",dst,src] ["assign",dst,src]
//          ["cast_kind",src,"ds_db"|...] ["cast_dtype",src,"f64"|"i64"|"i8"] ["default",s] (default-construct)
//   response: "trace":[entry...] entry 0 = state after construction, entry k = state after step k-1;
//   entry = {"r":true|false|"inexpressible" (resize only), "slots":[state|null, state|null], "cast":state (cast steps), "nev":events so far}
//   state = {"shape","strides"?,"dim","size","msize"?,"buflen"?,"elems" (through a(i...), const overload),"flat","overrun"?}
//   "stopped":k  the history was abandoned after entry k because an object reported a shape that its buffer cannot hold
// {"op":"mview","view":"mutable_slice"|"mutable_reshape"|"mutable_flatten"|"mutable_ref","shape":[..],"src_layout":"row"|"col","args":{..},"index":[..],"value":v}
//   args: mutable_reshape {"enc":"vec"|"arr","newshape":[..]}; mutable_slice {"enc":"either_tri"|"tri","slices":[int|[a,b,s]...]} (dynamic encodings) or
//   ops mview_packed12[_col] / mview_packed3[_col] with {"slices":[int|[a|null,b|null(,s)]...]} (packed tuples with None/int parts)
//   response: "vshape","vdim","written","flat_changed" (# flat buffer entries that differ afterwards),"view" (read back),"sshape","src" (logical order)
#include "nmv.hpp"
#include "nmtools/array/ndarray.hpp"
#include "nmtools/utility/cast.hpp"
#include "nmtools/array/view/mutable_slice.hpp"
#include "nmtools/array/view/mutable_reshape.hpp"
#include "nmtools/array/view/mutable_flatten.hpp"
#include "nmtools/array/view/mutable_ref.hpp"
#include "nmtools/utl.hpp"

using namespace nmv;
namespace utl = nm::utl;

namespace nmv { extern long g_event_total; }

using hist_fn = std::function<void(const J&, W&)>;
std::map<std::string, hist_fn>& hist_registry();
struct hist_registrar { hist_registrar(const std::string& n, hist_fn f) { hist_registry()[n] = std::move(f); } };

// ---------------------------------------------------------------------------------------------------
// detection helpers
// ---------------------------------------------------------------------------------------------------
template <typename A, typename = void> struct has_strides_fn : std::false_type {};
template <typename A> struct has_strides_fn<A, std::void_t<decltype(std::declval<const A&>().strides())>> : std::true_type {};
template <typename A, typename = void> struct has_size_fn : std::false_type {};
template <typename A> struct has_size_fn<A, std::void_t<decltype(std::declval<const A&>().size())>> : std::true_type {};
template <typename A, typename = void> struct has_data_member : std::false_type {};
template <typename A> struct has_data_member<A, std::void_t<decltype(std::declval<const A&>().data_)>> : std::true_type {};
template <typename A, typename = void> struct has_shape_type : std::false_type {};
template <typename A> struct has_shape_type<A, std::void_t<typename A::shape_type>> : std::true_type {};
template <typename A> struct is_legacy_dynamic : std::false_type {};
template <typename T> struct is_legacy_dynamic<na::dynamic_ndarray<T>> : std::true_type {};
template <typename A> struct is_legacy_hybrid : std::false_type {};
template <typename T, size_t N, size_t D> struct is_legacy_hybrid<na::hybrid_ndarray<T, N, D>> : std::true_type {};

template <typename S>
static std::vector<size_t> uvec_of(const S& s) { std::vector<size_t> r; for (auto e : to_vec(s)) r.push_back((size_t)e); return r; }

// element access with a run-time index vector (nmv::at_idx needs nm::shape<false,true>, which does not compile for
// std::array<clipped_size_t,N> shapes)
template <typename V>
static decltype(auto) elem_at(V& v, const std::vector<size_t>& idx) {
    using U = meta::remove_cvref_t<V>;
    constexpr auto D = meta::fixed_dim_v<U>;
    if constexpr (!meta::is_fail_v<decltype(D)>) {
        std::array<size_t, (size_t)D> fi{};
        for (size_t i = 0; i < (size_t)D; i++) fi[i] = idx[i];
        return nm::apply_at(v, fi);
    } else return nm::apply_at(v, idx);
}

// length of the underlying buffer, -1 when the class has no notion of it
template <typename Arr>
static long buflen_of(const Arr& a) {
    if constexpr (has_data_member<Arr>::value) return (long)nm::len(a.data_);
    else if constexpr (is_legacy_dynamic<Arr>::value) return (long)a.data.size();
    else if constexpr (is_legacy_hybrid<Arr>::value) return (long)a.buffer_.size();
    else return -1;
}

// full state of one array object; returns false when the reported shape cannot be walked safely
template <typename Arr>
static bool dump_state(W& w, Arr& a) {
    using T = meta::get_element_type_t<Arr>;
    bool ok = true;
    w.beg_obj();
    auto shp = uvec_of(a.shape());
    w.key("shape").beg_arr(); for (auto e : shp) w.num(e); w.end_arr();
    if constexpr (has_strides_fn<Arr>::value) { w.key("strides").beg_arr(); for (auto e : to_vec(a.strides())) w.num(e); w.end_arr(); }
    size_t dim = (size_t)a.dim();
    w.key("dim").num(dim);
    size_t size = (size_t)nm::size(a);
    w.key("size").num(size);
    if constexpr (has_size_fn<Arr>::value) w.key("msize").num((size_t)a.size());
    long bl = buflen_of(a);
    if (bl >= 0) w.key("buflen").num(bl);
    size_t total = safe_total(shp);
    bool walk = total != SIZE_MAX && total <= 4096 && dim == shp.size() && (bl < 0 || total <= (size_t)bl);
    if (walk) {
        w.key("elems").beg_arr();
        for (odometer o(shp); !o.done; o.next()) w.num((T)elem_at(std::as_const(a), o.idx));
        w.end_arr();
    } else { w.key("overrun").boolean(true); ok = false; }
    size_t nflat = size;
    if (bl >= 0 && nflat > (size_t)bl) nflat = (size_t)bl;
    if (nflat > 4096) nflat = 0;
    w.key("flat").beg_arr();
    if (nflat) { auto p = flat_ptr(a); for (size_t k = 0; k < nflat; k++) w.num((T)p[k]); }
    w.end_arr();
    w.end_obj();
    return ok;
}

// state of a cast result (any array class)
template <typename R>
static void dump_cast(W& w, const R& r) {
    using T = meta::get_element_type_t<R>;
    w.beg_obj();
    auto shp = uvec_of(r.shape());
    w.key("shape").beg_arr(); for (auto e : shp) w.num(e); w.end_arr();
    w.key("t").str(tname<T>());
    w.key("size").num((size_t)nm::size(r));
    size_t total = safe_total(shp);
    long bl = buflen_of(r);
    if (bl >= 0) w.key("buflen").num(bl);
    if (total != SIZE_MAX && total <= 4096 && (bl < 0 || total <= (size_t)bl)) {
        w.key("elems").beg_arr();
        for (odometer o(shp); !o.done; o.next()) w.num((T)elem_at(r, o.idx));
        w.end_arr();
    } else w.key("overrun").boolean(true);
    w.end_obj();
}

// 1 accepted, 0 refused, -1 the class offers no resize signature able to express the request
template <typename Arr>
static int try_resize(Arr& a, const std::vector<size_t>& shp) {
    if constexpr (can_resize_with<Arr, std::vector<size_t>>::value) {
        if constexpr (std::is_void_v<decltype(a.resize(shp))>) { a.resize(shp); return 1; }
        else return (bool)a.resize(shp) ? 1 : 0;
    } else if constexpr (has_shape_type<Arr>::value) {
        using S = typename Arr::shape_type;
        if constexpr (can_resize_with<Arr, S>::value && meta::is_fixed_index_array_v<S> && !meta::is_tuple_v<S>) {
            constexpr size_t N = (size_t)meta::len_v<S>;
            if (shp.size() != N) return -1;
            S s{};
            for (size_t i = 0; i < N; i++) nm::at(s, i) = shp[i];
            return (bool)a.resize(s) ? 1 : 0;
        } else return -1;
    } else return -1;
}

// the variadic form a.resize(n0, n1, ...) (the form the committed tests use); hybrid_ndarray only with exactly dim arguments
template <typename Arr, typename... Ns>
using resize_v_t = decltype(std::declval<Arr&>().resize(std::declval<Ns>()...));
template <typename Arr, typename = void, typename... Ns> struct can_resize_v : std::false_type {};
template <typename Arr, typename... Ns> struct can_resize_v<Arr, std::void_t<resize_v_t<Arr, Ns...>>, Ns...> : std::true_type {};
template <typename Arr, typename... Ns>
static int call_resize_v(Arr& a, Ns... ns) {
    if constexpr (is_legacy_hybrid<Arr>::value) {
        if constexpr (sizeof...(Ns) != (size_t)Arr::dim_) return -1;
        else return (bool)a.resize(ns...) ? 1 : 0;
    } else if constexpr (can_resize_v<Arr, void, Ns...>::value) {
        if constexpr (std::is_void_v<resize_v_t<Arr, Ns...>>) { a.resize(ns...); return 1; }
        else if constexpr (has_shape_type<Arr>::value) {
            // tuple (clipped) shapes: a different number of arguments does not compile (static index into the packed sizes)
            using S = typename Arr::shape_type;
            if constexpr (meta::is_tuple_v<S>) {
                if constexpr (sizeof...(Ns) != (size_t)meta::len_v<S>) return -1;
                else return (bool)a.resize(ns...) ? 1 : 0;
            } else return (bool)a.resize(ns...) ? 1 : 0;
        } else return (bool)a.resize(ns...) ? 1 : 0;
    } else return -1;
}
template <typename Arr>
static int try_resize_v(Arr& a, const std::vector<size_t>& s) {
    if (s.size() == 1) return call_resize_v(a, s[0]);
    if (s.size() == 2) return call_resize_v(a, s[0], s[1]);
    if (s.size() == 3) return call_resize_v(a, s[0], s[1], s[2]);
    throw std::runtime_error("resize_v arity not in the table");
}

template <typename Arr, typename K>
static void do_cast_kind(W& w, const Arr& a, const K& kind) {
    using R = meta::resolve_optype_t<nm::cast_kind_t, Arr, K>;
    if constexpr (meta::is_fail_v<R>) { w.key("cast").str("inexpressible"); (void)a; (void)kind; }
    else { auto r = nm::cast(a, kind); w.key("cast"); dump_cast(w, r); }
}

template <typename D, typename Arr>
static void do_cast_dtype(W& w, const Arr& a) {
    auto r = nm::cast<D>(a);
    w.key("cast"); dump_cast(w, r);
}

// cast targets. nmtools::cast(src, kind) with a non-clipped target kind does not compile for a source type that has a fixed
// dimension but no constant shape (ndarray.hpp:700-705 reads the clipped maximum from an empty argument pack), so such
// sources (fs_*, hs_*, ls_*, hybrid_ndarray) only get the clipped targets: TS == 1
#define NMV_CAST_TARGETS_FULL(X) X(ds_db) X(fs_hb) X(hs_db) X(cs_fb) X(ds_hb)
#define NMV_CAST_TARGETS_CLIPPED(X) X(ls_fb) X(ls_hb) X(ls_db)

template <typename Arr, int TS, typename Make>
static void run_hist(const J& A, W& w, Make make) {
    std::optional<Arr> slot[2];
    slot[0].emplace(make());
    bool ok = true;
    auto dump = [&]() {
        w.key("slots").beg_arr();
        for (int s = 0; s < 2; s++) { if (slot[s]) { if (!dump_state(w, *slot[s])) ok = false; } else w.null(); }
        w.end_arr();
        w.key("nev").num(nmv::g_event_total);
    };
    long stopped = -1;
    w.key("trace").beg_arr();
    w.beg_obj(); dump(); w.end_obj();
    long k = 0;
    for (auto& st : A["steps"].a) {
        if (!ok) { stopped = k; break; }
        k++;
        const std::string& op = st[0].as_str();
        int s = (int)st[1].as_int();
        if (s < 0 || s > 1) throw std::runtime_error("bad slot");
        w.beg_obj();
        if (op == "default") {
            if constexpr (is_legacy_dynamic<Arr>::value) throw std::runtime_error("default-constructed dynamic_ndarray has no dimension: outside the domain");
            else { slot[s].reset(); slot[s].emplace(); }
        } else if (op == "copy" || op == "assign") {
            int src = (int)st[2].as_int();
            if (!slot[src] || (op == "assign" && !slot[s])) throw std::runtime_error("dead slot");
            if (op == "copy") { Arr tmp(*slot[src]); slot[s].reset(); slot[s].emplace(tmp); }
            else *slot[s] = *slot[src];
        } else {
            if (!slot[s]) throw std::runtime_error("dead slot");
            Arr& a = *slot[s];
            if (op == "resize" || op == "resize_v") {
                int r = op == "resize" ? try_resize(a, st[2].ivec<size_t>()) : try_resize_v(a, st[2].ivec<size_t>());
                w.key("r"); if (r < 0) w.str("inexpressible"); else w.boolean(r == 1);
            } else if (op == "write") {
                auto idx = st[2].ivec<size_t>();
                auto shp = uvec_of(a.shape());
                bool inside = idx.size() == shp.size() && (size_t)a.dim() == shp.size();
                for (size_t i = 0; inside && i < idx.size(); i++) inside = idx[i] < shp[i];
                if (inside) elem_at(a, idx) = (int)st[3].as_int();
                else w.key("skipped").str("index outside the reported shape");
            } else if (op == "fill_ids") {
                auto shp = uvec_of(a.shape());
                int id = (int)st[2].as_int();
                if (safe_total(shp) != SIZE_MAX && safe_total(shp) <= 4096)
                    for (odometer o(shp); !o.done; o.next()) elem_at(a, o.idx) = id++;
            } else if (op == "cast_kind") {
                const std::string& kn = st[2].as_str();
                bool done = false;
#define X(kk) if (!done && kn == #kk) { do_cast_kind(w, std::as_const(a), na::kind::ndarray_##kk); done = true; }
                if constexpr (TS == 0) { NMV_CAST_TARGETS_FULL(X) }
                NMV_CAST_TARGETS_CLIPPED(X)
#undef X
                if (!done && kn == "dynamic") { do_cast_kind(w, std::as_const(a), na::kind::dynamic); done = true; }
                if (!done && TS == 1) { w.key("cast").str("inexpressible"); done = true; }
                if (!done) throw std::runtime_error("cast target not in the table: " + kn);
            } else if (op == "cast_dtype") {
                const std::string& dn = st[2].as_str();
                if (dn == "f64") do_cast_dtype<double>(w, std::as_const(a));
                else if (dn == "i64") do_cast_dtype<int64_t>(w, std::as_const(a));
                else if (dn == "i8") do_cast_dtype<int8_t>(w, std::as_const(a));
                else throw std::runtime_error("dtype not in the table: " + dn);
            } else throw std::runtime_error("unknown step " + op);
        }
        dump();
        w.end_obj();
    }
    w.end_arr();
    if (stopped >= 0) w.key("stopped").num(stopped);
}

static inline void fill_raw(int (&raw)[3][4]) { for (int i = 0; i < 3; i++) for (int j = 0; j < 4; j++) raw[i][j] = i * 4 + j; }

// one generic kind, both layouts
#define NMV_KIND(kk, TS) \
    static hist_registrar NMV_CAT(reg_row_, kk)(#kk ":row", [](const J& A, W& w) { \
        int raw[3][4]; fill_raw(raw); \
        using Arr = decltype(nm::cast(raw, na::kind::ndarray_##kk)); \
        run_hist<Arr, TS>(A, w, [&]() { return nm::cast(raw, na::kind::ndarray_##kk); }); }); \
    static hist_registrar NMV_CAT(reg_col_, kk)(#kk ":col", [](const J& A, W& w) { \
        int raw[3][4]; fill_raw(raw); \
        using Row = decltype(nm::cast(raw, na::kind::ndarray_##kk)); \
        using Arr = na::column_major_ndarray_t<typename Row::buffer_type, typename Row::shape_type>; \
        run_hist<Arr, TS>(A, w, [&]() { return nm::cast(raw, meta::as_value_v<Arr>); }); });

#if NMV_PART == 0
std::map<std::string, hist_fn>& hist_registry() { static std::map<std::string, hist_fn> r; return r; }
NMV_OP("hist") {
    std::string key = A["kind"].as_str() + ":" + (A.has("layout") ? A["layout"].as_str() : std::string("row"));
    auto& reg = hist_registry();
    auto it = reg.find(key);
    if (it == reg.end()) throw std::runtime_error("unknown kind/layout " + key);
    it->second(A, w);
}
NMV_OP("hist_kinds") {
    w.key("kinds").beg_arr(); for (auto& kv : hist_registry()) w.str(kv.first); w.end_arr();
}
static hist_registrar reg_fixed("fixed_ndarray:row", [](const J& A, W& w) {
    int raw[3][4]; fill_raw(raw);
    using Arr = na::fixed_ndarray<int, 3, 4>;
    static_assert(std::is_same_v<Arr, decltype(nm::cast(raw, na::kind::fixed))>);
    run_hist<Arr, 0>(A, w, [&]() { return nm::cast(raw, na::kind::fixed); }); });
#elif NMV_PART == 1
static hist_registrar reg_hybrid("hybrid_ndarray:row", [](const J& A, W& w) {
    int raw[3][4]; fill_raw(raw);
    using Arr = na::hybrid_ndarray<int, 12, 2>;
    static_assert(std::is_same_v<Arr, decltype(nm::cast(raw, na::kind::hybrid))>);
    run_hist<Arr, 1>(A, w, [&]() { return nm::cast(raw, na::kind::hybrid); }); });
static hist_registrar reg_dynamic("dynamic_ndarray:row", [](const J& A, W& w) {
    int raw[3][4]; fill_raw(raw);
    using Arr = na::dynamic_ndarray<int>;
    run_hist<Arr, 0>(A, w, [&]() { return nm::cast(raw, na::kind::dynamic); }); });
#elif NMV_PART == 2
NMV_KIND(cs_fb, 0)
#elif NMV_PART == 3
NMV_KIND(cs_hb, 0)
#elif NMV_PART == 4
NMV_KIND(cs_db, 0)
#elif NMV_PART == 5
NMV_KIND(fs_fb, 1)
#elif NMV_PART == 6
NMV_KIND(fs_hb, 1)
#elif NMV_PART == 7
NMV_KIND(fs_db, 1)
#elif NMV_PART == 8
NMV_KIND(hs_fb, 1)
#elif NMV_PART == 9
NMV_KIND(hs_hb, 1)
#elif NMV_PART == 10
NMV_KIND(hs_db, 1)
#elif NMV_PART == 11
NMV_KIND(ds_fb, 0)
#elif NMV_PART == 12
NMV_KIND(ds_hb, 0)
#elif NMV_PART == 13
NMV_KIND(ds_db, 0)
#elif NMV_PART == 14
NMV_KIND(ls_fb, 1)
#elif NMV_PART == 15
NMV_KIND(ls_hb, 1)
#elif NMV_PART == 16
NMV_KIND(ls_db, 1)
#elif NMV_PART >= 17 && NMV_PART <= 21
// ---------------------------------------------------------------------------------------------------
// mutable views: build the view on a dynamic int array (row- or column-major) holding arange in logical
// C order, assign view(index...) = value, report the view's shape, the view read back, the whole source
// (logical order) and the number of flat buffer entries that changed
// ---------------------------------------------------------------------------------------------------
// view(i...) with the indices unpacked (the spelling the property names); more than 3 indices go packed
template <bool AllowPacked = true, typename MV>
static decltype(auto) call_variadic(MV& mv, const std::vector<size_t>& idx) {
    constexpr auto D = meta::fixed_dim_v<meta::remove_cvref_t<MV>>;
    if constexpr (!meta::is_fail_v<decltype(D)>) {
        if constexpr (D == 1) return mv(idx[0]);
        else if constexpr (D == 2) return mv(idx[0], idx[1]);
        else if constexpr (D == 3) return mv(idx[0], idx[1], idx[2]);
        else if constexpr (AllowPacked) return mv(idx);
        else throw std::runtime_error("more than 3 indices");
    } else {
        switch (idx.size()) {
            case 1: return mv(idx[0]);
            case 2: return mv(idx[0], idx[1]);
            case 3: return mv(idx[0], idx[1], idx[2]);
        }
        if constexpr (AllowPacked) return mv(idx);
        else throw std::runtime_error("more than 3 indices");
    }
}

// PackedRead: read the view back through view(packed_index) (default) or through view(i...) as well
template <bool PackedRead = true, typename Src, typename MV>
static void run_mview(const J& A, W& w, Src& src, MV&& mv) {
    using U = meta::remove_cvref_t<MV>;
    if constexpr (meta::is_maybe_v<U>) {
        if (!nm::has_value(mv)) { w.key("hv").boolean(false); return; }
        auto v = *mv;
        return run_mview<PackedRead>(A, w, src, v);
    } else {
        auto idx = A["index"].ivec<size_t>();
        int value = (int)A["value"].as_int();
        auto vshape = shape_of(mv);
        w.key("hv").boolean(true);
        w.key("vshape").beg_arr(); for (auto e : vshape) w.num(e); w.end_arr();
        w.key("vdim").num((size_t)nm::dim(mv));
        std::vector<int> before(src.data_.begin(), src.data_.end());
        bool inside = idx.size() == vshape.size();
        for (size_t i = 0; inside && i < idx.size(); i++) inside = idx[i] < vshape[i];
        if (inside) { call_variadic<PackedRead>(mv, idx) = value; w.key("written").boolean(true); }
        else w.key("written").boolean(false);
        size_t changed = before.size() == src.data_.size() ? 0 : SIZE_MAX;
        for (size_t k = 0; changed != SIZE_MAX && k < before.size(); k++) changed += before[k] != src.data_[k];
        w.key("flat_changed").num(changed);
        w.key("view").beg_arr();
        if (safe_total(vshape) != SIZE_MAX && safe_total(vshape) <= 4096)
            for (odometer o(vshape); !o.done; o.next()) {
                if constexpr (PackedRead) w.num((int)std::as_const(mv)(o.idx));
                else w.num((int)call_variadic<false>(std::as_const(mv), o.idx));
            }
        w.end_arr();
        auto sshape = shape_of(src);
        w.key("sshape").beg_arr(); for (auto e : sshape) w.num(e); w.end_arr();
        w.key("src").beg_arr();
        for (odometer o(sshape); !o.done; o.next()) w.num((int)nm::apply_at(std::as_const(src), o.idx));
        w.end_arr();
    }
}

template <typename Src>
static void make_src(const J& A, Src& a) {
    auto shp = A["shape"].ivec<size_t>();
    if (!a.resize(shp)) throw std::runtime_error("source resize refused");
    int k = 0;
    for (odometer o(shp); !o.done; o.next()) nm::apply_at(a, o.idx) = k++;
}

// packed (static) slice kinds, as in ops_slice.cpp: 0 (None,None) 1 (None,b) 2 (a,None) 3 (a,b) 4 (None,None,s) 7 (a,b,s) 8 int
static int kind_of(const J& s) {
    if (s.is_int()) return 8;
    bool a = !s[0].is_null(), b = !s[1].is_null();
    int k = (a ? 2 : 0) + (b ? 1 : 0);
    if (s.size() == 3 && !s[2].is_null()) k += 4;
    return k;
}
template <int K>
static auto mk_slice(const J& s) {
    if constexpr (K == 0) return nmtools_tuple{nm::None, nm::None};
    else if constexpr (K == 1) return nmtools_tuple{nm::None, (int)s[1].as_int()};
    else if constexpr (K == 2) return nmtools_tuple{(int)s[0].as_int(), nm::None};
    else if constexpr (K == 3) return nmtools_tuple{(int)s[0].as_int(), (int)s[1].as_int()};
    else if constexpr (K == 4) return nmtools_tuple{nm::None, nm::None, (int)s[2].as_int()};
    else if constexpr (K == 7) return nmtools_tuple{(int)s[0].as_int(), (int)s[1].as_int(), (int)s[2].as_int()};
    else return (int)s.as_int();
}
template <int... Ks, typename F>
static bool with_slice(std::integer_sequence<int, Ks...>, const J& s, F&& f) {
    int k = kind_of(s);
    bool done = false;
    ((k == Ks ? (f(mk_slice<Ks>(s)), done = true) : false), ...);
    return done;
}
using K_ALL = std::integer_sequence<int, 0, 1, 2, 3, 4, 7, 8>;
using K_SUB = std::integer_sequence<int, 0, 3, 8>;
[[noreturn]] static void bad_kind() { throw std::runtime_error("slice kind combination not in the pre-instantiated table"); }
template <typename... Ss> constexpr bool all_int_v = (std::is_same_v<Ss, int> && ...);

template <typename Src>
static void mview_packed12(const J& A, W& w) {
    Src a; make_src(A, a);
    auto& S = A["args"]["slices"];
    if (S.size() == 1) {
        if (!with_slice(K_ALL{}, S[0], [&](auto s0) {
                /* mutable_slice(a, one_tuple) does not compile: CTAD copies the tuple */
                if constexpr (!all_int_v<decltype(s0)>) run_mview(A, w, a, view::apply_mutable_slice(a, nmtools_tuple<decltype(s0)>{s0})); else bad_kind(); })) bad_kind();
    } else if (S.size() == 2) {
        if (!with_slice(K_ALL{}, S[0], [&](auto s0) {
                if (!with_slice(K_ALL{}, S[1], [&](auto s1) {
                        if constexpr (!all_int_v<decltype(s0), decltype(s1)>) run_mview(A, w, a, view::mutable_slice(a, s0, s1)); else bad_kind(); })) bad_kind(); })) bad_kind();
    } else bad_kind();
}
template <typename Src>
static void mview_packed3(const J& A, W& w) {
    Src a; make_src(A, a);
    auto& S = A["args"]["slices"];
    if (S.size() != 3) bad_kind();
    if (!with_slice(K_SUB{}, S[0], [&](auto s0) {
            if (!with_slice(K_SUB{}, S[1], [&](auto s1) {
                    if (!with_slice(K_SUB{}, S[2], [&](auto s2) {
                            if constexpr (!all_int_v<decltype(s0), decltype(s1), decltype(s2)>) run_mview(A, w, a, view::mutable_slice(a, s0, s1, s2)); else bad_kind(); })) bad_kind(); })) bad_kind(); })) bad_kind();
}

template <typename Src>
static void mview_dynamic(const J& A, W& w) {
    Src a; make_src(A, a);
    const std::string& v = A["view"].as_str();
    const J& args = A["args"];
    if (v == "mutable_ref") return run_mview<false>(A, w, a, view::mutable_ref(a));
    if (v == "mutable_flatten") return run_mview(A, w, a, view::mutable_flatten(a));
    if (v == "mutable_reshape") {
        const std::string enc = args.has("enc") ? args["enc"].as_str() : std::string("vec");
        auto ns = args["newshape"].ivec<int>();
        if (enc == "vec") return run_mview(A, w, a, view::mutable_reshape(a, ns));
        if (enc == "arr") {
            if (ns.size() == 1) return run_mview(A, w, a, view::mutable_reshape(a, std::array<int, 1>{ns[0]}));
            if (ns.size() == 2) return run_mview(A, w, a, view::mutable_reshape(a, std::array<int, 2>{ns[0], ns[1]}));
            if (ns.size() == 3) return run_mview(A, w, a, view::mutable_reshape(a, std::array<int, 3>{ns[0], ns[1], ns[2]}));
        }
        throw std::runtime_error("mutable_reshape encoding not in the table");
    }
    if (v == "mutable_slice") {
        using tri_t = nmtools_array<int, 3>;
        using e_tri_t = nmtools_either<int, nmtools_either<nm::ellipsis_t, tri_t>>;
        const std::string enc = args.has("enc") ? args["enc"].as_str() : std::string("either_tri");
        if (enc == "either_tri") {
            std::vector<e_tri_t> sl;
            for (auto& s : args["slices"].a) {
                if (s.is_int()) sl.push_back(e_tri_t{(int)s.as_int()});
                else if (s.is_str()) sl.push_back(e_tri_t{nmtools_either<nm::ellipsis_t, tri_t>{nm::Ellipsis}});
                else sl.push_back(e_tri_t{nmtools_either<nm::ellipsis_t, tri_t>{tri_t{(int)s[0].as_int(), (int)s[1].as_int(), (int)s[2].as_int()}}});
            }
            return run_mview(A, w, a, view::apply_mutable_slice(a, sl));
        }
        if (enc == "tri") {
            std::vector<tri_t> sl;
            for (auto& s : args["slices"].a) sl.push_back(tri_t{(int)s[0].as_int(), (int)s[1].as_int(), (int)s[2].as_int()});
            return run_mview(A, w, a, view::apply_mutable_slice(a, sl));
        }
        throw std::runtime_error("mutable_slice encoding not in this op");
    }
    throw std::runtime_error("unknown view " + v);
}

static bool src_is_col(const J& A) { return A.has("src_layout") && A["src_layout"].as_str() == "col"; }
#if NMV_PART == 17
NMV_OP("mview") { if (src_is_col(A)) mview_dynamic<dyn_col_t<int>>(A, w); else mview_dynamic<dyn_t<int>>(A, w); }
#elif NMV_PART == 18
NMV_OP("mview_packed12") { mview_packed12<dyn_t<int>>(A, w); }
#elif NMV_PART == 19
NMV_OP("mview_packed3") { mview_packed3<dyn_t<int>>(A, w); }
#elif NMV_PART == 20
NMV_OP("mview_packed12_col") { mview_packed12<dyn_col_t<int>>(A, w); }
#elif NMV_PART == 21
NMV_OP("mview_packed3_col") { mview_packed3<dyn_col_t<int>>(A, w); }
#endif
#endif
