// C08 ops: reductions, accumulations and their named compositions
#include "ops.hpp"
#include "nmtools/array/view/ufuncs/add.hpp"
#include "nmtools/array/view/ufuncs/multiply.hpp"
#include "nmtools/array/view/ufuncs/subtract.hpp"
#include "nmtools/array/view/ufuncs/maximum.hpp"
#include "nmtools/array/view/ufuncs/minimum.hpp"
#include "nmtools/array/view/ufuncs/fmax.hpp"
#include "nmtools/array/view/ufuncs/fmin.hpp"
#include "nmtools/array/view/ufuncs/amax.hpp"
#include "nmtools/array/view/ufuncs/amin.hpp"
#include "nmtools/array/view/ufuncs/left_shift.hpp"
#include "nmtools/array/view/ufuncs/right_shift.hpp"
#include "nmtools/array/view/ufuncs/logical_and.hpp"
#include "nmtools/array/view/ufuncs/logical_or.hpp"
#include "nmtools/array/view/ufuncs/logical_xor.hpp"
#include "nmtools/array/view/sum.hpp"
#include "nmtools/array/view/prod.hpp"
#include "nmtools/array/view/mean.hpp"
#include "nmtools/array/view/var.hpp"
#include "nmtools/array/view/stddev.hpp"
#include "nmtools/array/view/cumsum.hpp"
#include "nmtools/array/view/cumprod.hpp"
#include "nmtools/array/view/vector_norm.hpp"
#include "nmtools/array/view/trace.hpp"
using namespace nmv;

// ---- argument-kind dispatchers (each alternative is a distinct static type) ----
// AX: bit0 None, bit1 int, bit2 vector<int>
template <int AX, typename F>
static void with_axis(const J& j, F&& f) {
    if (j.is_null()) { if constexpr (AX & 1) return f(nm::None); }
    else if (j.is_int()) { if constexpr (AX & 2) return f((int)j.as_int()); }
    else { if constexpr (AX & 4) return f(j.ivec<int>()); }
    throw std::runtime_error("axis kind not instantiated for this op");
}
// DT: bit0 None, bit1 int64, bit2 float64, bit3 int32, bit4 float32
template <int DT, typename F>
static void with_dtype(const J& j, F&& f) {
    if (j.is_null()) { if constexpr (DT & 1) return f(nm::None); }
    else {
        const std::string& s = j.as_str();
        if (s == "i64") { if constexpr (DT & 2) return f(nm::int64); }
        else if (s == "f64") { if constexpr (DT & 4) return f(nm::float64); }
        else if (s == "i32") { if constexpr (DT & 8) return f(nm::int32); }
        else if (s == "f32") { if constexpr (DT & 16) return f(nm::float32); }
    }
    throw std::runtime_error("dtype kind not instantiated for this op");
}
template <typename T, typename F>
static void with_initial(const J& j, F&& f) {
    if (j.is_null()) return f(nm::None);
    return f((T)j.as_dbl());
}
// KD: bit0 ct False, bit1 ct True, bit2 run-time bool
template <int KD, typename F>
static void with_keepdims(const J& j, F&& f) {
    if (j.is_str()) {
        if (j.as_str() == "ct_false") { if constexpr (KD & 1) return f(nm::False); }
        else if (j.as_str() == "ct_true") { if constexpr (KD & 2) return f(nm::True); }
    } else if (j.is_bool()) { if constexpr (KD & 4) return f(j.as_bool()); }
    throw std::runtime_error("keepdims kind not instantiated for this op");
}

// full 5-argument reduce: fn(a, axis, dtype, initial, keepdims); "keepdims": null selects the 4-argument overload
#define NMV_REDUCE(NAME, FN, AX, DT, KD) \
    NMV_VOP1(NAME, \
        using T = typename meta::remove_cvref_t<decltype(a)>::value_type; \
        stage_out so; \
        with_axis<AX>(A["axis"], [&](auto axis) { \
            with_dtype<DT>(A["dtype"], [&](auto dtype) { \
                with_initial<T>(A["initial"], [&](auto initial) { \
                    if (A["keepdims"].is_null()) { so = fin(FN(a, axis, dtype, initial)); return; } \
                    with_keepdims<KD>(A["keepdims"], [&](auto kd) { so = fin(FN(a, axis, dtype, initial, kd)); }); \
                }); \
            }); \
        }); \
        return so;)

#define NMV_ACCUMULATE(NAME, FN) \
    NMV_VOP1(NAME, \
        if (A["dtype"].is_null()) FIN(FN(a, (int)A["axis"].as_int())); \
        if (A["dtype"].as_str() == "i64") FIN(FN(a, (int)A["axis"].as_int(), nm::int64)); \
        FIN(FN(a, (int)A["axis"].as_int(), nm::float64));)

#if NMV_PART == 0
NMV_REDUCE("reduce_add", view::reduce_add, 7, 7, 7)
#elif NMV_PART == 1
NMV_REDUCE("reduce_multiply", view::reduce_multiply, 7, 7, 7)
#elif NMV_PART == 2
NMV_REDUCE("reduce_subtract", view::reduce_subtract, 2, 3, 7)
NMV_ACCUMULATE("accumulate_subtract", view::accumulate_subtract)
#elif NMV_PART == 3
NMV_REDUCE("reduce_maximum", view::reduce_maximum, 7, 1, 7)
NMV_REDUCE("reduce_minimum", view::reduce_minimum, 7, 1, 7)
#elif NMV_PART == 4
NMV_REDUCE("reduce_fmax", view::reduce_fmax, 7, 1, 5)
NMV_REDUCE("reduce_fmin", view::reduce_fmin, 7, 1, 5)
#elif NMV_PART == 5
NMV_REDUCE("amax", view::amax, 7, 1, 5)
NMV_REDUCE("amin", view::amin, 7, 1, 5)
#elif NMV_PART == 6
// integer-only operations: instantiate for the int operand only
#define NMV_REDUCE_INT(NAME, FN, AX, KD) \
    static ::nmv::vregistrar NMV_CAT(nmv_vreg_, __LINE__)(NAME, [](const J& A, const ins_t& in) -> stage_out { \
        const eint& a = std::get<eint>(*in.at(0)); \
        stage_out so; \
        with_axis<AX>(A["axis"], [&](auto axis) { \
            with_initial<int>(A["initial"], [&](auto initial) { \
                if (A["keepdims"].is_null()) { so = fin(FN(a, axis, nm::None, initial)); return; } \
                with_keepdims<KD>(A["keepdims"], [&](auto kd) { so = fin(FN(a, axis, nm::None, initial, kd)); }); \
            }); \
        }); \
        return so; });
NMV_REDUCE_INT("reduce_left_shift", view::reduce_left_shift, 2, 5)
NMV_REDUCE_INT("reduce_right_shift", view::reduce_right_shift, 2, 5)
#elif NMV_PART == 7
// logical reductions only offer the (a, axis) form
#define NMV_REDUCE_AX(NAME, FN) \
    static ::nmv::vregistrar NMV_CAT(nmv_vreg_, __LINE__)(NAME, [](const J& A, const ins_t& in) -> stage_out { \
        const eint& a = std::get<eint>(*in.at(0)); \
        stage_out so; \
        with_axis<7>(A["axis"], [&](auto axis) { so = fin(FN(a, axis)); }); \
        return so; });
NMV_REDUCE_AX("reduce_logical_and", view::reduce_logical_and)
NMV_REDUCE_AX("reduce_logical_or", view::reduce_logical_or)
NMV_REDUCE_AX("reduce_logical_xor", view::reduce_logical_xor)
#elif NMV_PART == 8
NMV_ACCUMULATE("accumulate_add", view::accumulate_add)
NMV_ACCUMULATE("accumulate_multiply", view::accumulate_multiply)
NMV_ACCUMULATE("cumsum", view::cumsum)
NMV_ACCUMULATE("cumprod", view::cumprod)
NMV_VOP1("accumulate_maximum", FIN(view::accumulate_maximum(a, (int)A["axis"].as_int()));)
NMV_VOP1("accumulate_minimum", FIN(view::accumulate_minimum(a, (int)A["axis"].as_int()));)
#elif NMV_PART == 9
NMV_REDUCE("sum", view::sum, 7, 7, 7)
#elif NMV_PART == 10
NMV_REDUCE("prod", view::prod, 7, 7, 7)
#elif NMV_PART == 11
NMV_VOP1("mean",
    stage_out so;
    with_axis<7>(A["axis"], [&](auto axis) {
        with_dtype<5>(A["dtype"], [&](auto dtype) {
            if (A["keepdims"].is_null()) { so = fin(view::mean(a, axis, dtype)); return; }
            with_keepdims<7>(A["keepdims"], [&](auto kd) { so = fin(view::mean(a, axis, dtype, kd)); });
        });
    });
    return so;)
#elif NMV_PART == 12
NMV_VOP1("var",
    stage_out so;
    with_axis<7>(A["axis"], [&](auto axis) {
        with_dtype<5>(A["dtype"], [&](auto dtype) {
            int ddof = (int)A["ddof"].as_int();
            if (A["keepdims"].is_null()) { so = fin(view::var(a, axis, dtype, ddof)); return; }
            with_keepdims<7>(A["keepdims"], [&](auto kd) { so = fin(view::var(a, axis, dtype, ddof, kd)); });
        });
    });
    return so;)
#elif NMV_PART == 13
NMV_VOP1("stddev",
    stage_out so;
    with_axis<7>(A["axis"], [&](auto axis) {
        with_dtype<5>(A["dtype"], [&](auto dtype) {
            int ddof = (int)A["ddof"].as_int();
            if (A["keepdims"].is_null()) { so = fin(view::stddev(a, axis, dtype, ddof)); return; }
            with_keepdims<7>(A["keepdims"], [&](auto kd) { so = fin(view::stddev(a, axis, dtype, ddof, kd)); });
        });
    });
    return so;)
#elif NMV_PART == 14
NMV_VOP1("vector_norm",
    stage_out so;
    with_axis<7>(A["axis"], [&](auto axis) {
        with_keepdims<7>(A["keepdims"], [&](auto kd) { so = fin(view::vector_norm(a, axis, kd, (int)A["ord"].as_int())); });
    });
    return so;)
#elif NMV_PART == 15
NMV_VOP1("trace",
    if (A["dtype"].is_null()) FIN(view::trace(a, (int)A["offset"].as_int(), (int)A["axis1"].as_int(), (int)A["axis2"].as_int()));
    FIN(view::trace(a, (int)A["offset"].as_int(), (int)A["axis1"].as_int(), (int)A["axis2"].as_int(), nm::int64));)
#endif
