// Server main loop shared by all nmv servers: one JSON case per input line,
// one JSON observation per output line.
#include "json.hpp"
#include <functional>
#include <iostream>
#include <map>
#include <string>
#include <stdexcept>
#include <vector>
#include <csignal>
#include <unistd.h>

namespace nmv {
struct event_t { int kind; long a; long b; };
std::vector<event_t>& events_store() { static std::vector<event_t> ev; return ev; }
long g_event_total = 0;
using handler_t = std::function<void(const J&, W&)>;
std::map<std::string, handler_t>& registry() { static std::map<std::string, handler_t> r; return r; }
}

extern "C" void nmtools_verif_event(int kind, long a, long b) {
    nmv::g_event_total++;
    auto& ev = nmv::events_store();
    if (ev.size() < 64) ev.push_back({kind, a, b});
}

extern "C" const char* __asan_default_options() { return "detect_leaks=0:abort_on_error=0:exitcode=99:allocator_may_return_null=1:max_allocation_size_mb=2048:quarantine_size_mb=16:malloc_context_size=5"; }
extern "C" const char* __ubsan_default_options() { return "print_stacktrace=1:halt_on_error=1:exitcode=98"; }


int main() {
    std::ios::sync_with_stdio(false);
    std::string line;
    auto& reg = nmv::registry();
    while (std::getline(std::cin, line)) {
        if (line.empty()) continue;
        nmv::W w;
        w.beg_obj();
        nmv::events_store().clear();
        nmv::g_event_total = 0;
        try {
            nmv::J j = nmv::parse_json(line);
            if (j.has("id")) w.key("id").num(j["id"].as_int());
            const std::string& op = j["op"].as_str();
            if (op == "__ops__") {
                w.key("ops").beg_arr();
                for (auto& kv : reg) w.str(kv.first);
                w.end_arr();
            } else {
                auto it = reg.find(op);
                if (it == reg.end()) { w.key("error").str("unknown op " + op); }
                else it->second(j, w);
            }
        } catch (const std::out_of_range& e) {
            // a checked container access (std::vector::at, ...) inside nmtools went out of range
            nmv::W w2; w2.beg_obj(); w2.key("oob").str(e.what()); w2.end_obj();
            std::cout << w2.s << "\n" << std::flush;
            continue;
        } catch (const std::exception& e) {
            // close any structure the handler left open is impossible; emit a fresh object
            nmv::W w2; w2.beg_obj(); w2.key("error").str(e.what()); w2.end_obj();
            std::cout << w2.s << "\n" << std::flush;
            continue;
        }
        if (nmv::g_event_total) {
            w.key("events").beg_arr();
            for (auto& e : nmv::events_store()) { w.beg_arr(); w.num(e.kind); w.num(e.a); w.num(e.b); w.end_arr(); }
            w.end_arr();
            w.key("nevents").num(nmv::g_event_total);
        }
        w.end_obj();
        std::cout << w.s << "\n" << std::flush;
    }
    return 0;
}
