// C17 ops: conv1d, conv2d, max_pool2d, avg_pool2d, softmax, softmin, batch_norm, layer_norm,
// instance_norm, group_norm, linear, bilinear, pairwise_distance, cosine_similarity.
//
// Float ops take "dt":"f64" operands only (NMV_DOP: every operand is an erased_t<double>; an i32 operand
// makes the op answer a harness error). Pooling / softmax also accept i32 operands (NMV_VOP1).
// Optional arguments: JSON null -> nm::None (or the C++ default argument), int -> run-time int,
// [a,b] -> std::array<int,2> (the `int x[2]` form used by the repository's own tests).
#include "ops.hpp"
#include <array>

#if NMV_PART <= 1
#include "nmtools/array/view/conv1d.hpp"
#elif NMV_PART <= 7
#include "nmtools/array/view/conv2d.hpp"
#elif NMV_PART == 8
#include "nmtools/array/view/pooling.hpp"
#elif NMV_PART == 9
#include "nmtools/array/view/softmax.hpp"
#include "nmtools/array/view/softmin.hpp"
#elif NMV_PART == 10
#include "nmtools/array/view/batch_norm.hpp"
#include "nmtools/array/view/layer_norm.hpp"
#elif NMV_PART == 11
#include "nmtools/array/view/instance_norm.hpp"
#elif NMV_PART == 14
#include "nmtools/array/view/group_norm.hpp"
#elif NMV_PART == 12
#include "nmtools/array/view/linear.hpp"
#include "nmtools/array/view/bilinear.hpp"
#elif NMV_PART == 13
#include "nmtools/array/view/pairwise_distance.hpp"
#include "nmtools/array/view/cosine_similarity.hpp"
#endif
using namespace nmv;

// op over double operands only; body sees D(k) (k-th operand), `in`, `A`
#define NMV_DOP(name, ...) \
    static ::nmv::vregistrar NMV_CAT(nmv_vreg_, __LINE__)(name, [](const ::nmv::J& A, const ::nmv::ins_t& in) -> ::nmv::stage_out { \
        auto D = [&](size_t k) -> const ::nmv::edbl& { \
            if (!std::holds_alternative<::nmv::edbl>(*in.at(k))) throw std::runtime_error("operand must be f64"); \
            return std::get<::nmv::edbl>(*in.at(k)); }; \
        (void)A; (void)D; __VA_ARGS__ });

namespace {
[[maybe_unused]] std::array<int, 2> arr2(const J& j) { auto v = ivec(j); if (v.size() != 2) throw std::runtime_error("expected 2 ints"); return {v[0], v[1]}; }

// null -> None, int -> int
template <typename F> stage_out opt_i(const J& j, F&& f) {
    if (j.is_null()) return f(nm::None);
    return f((int)j.as_int());
}
// null -> None, int -> int, [a,b] -> std::array<int,2>
template <typename F> stage_out opt_ia(const J& j, F&& f) {
    if (j.is_null()) return f(nm::None);
    if (j.is_int()) return f((int)j.as_int());
    return f(arr2(j));
}
template <typename F> stage_out only_none(const J& j, F&& f) { if (!j.is_null()) throw std::runtime_error("wrong part"); return f(nm::None); }
template <typename F> stage_out only_int(const J& j, F&& f) { if (!j.is_int()) throw std::runtime_error("wrong part"); return f((int)j.as_int()); }
template <typename F> stage_out only_arr(const J& j, F&& f) { if (!j.is_arr()) throw std::runtime_error("wrong part"); return f(arr2(j)); }
} // namespace

// ---------------------------------------------------------------------------------------------------
// conv1d: operands input (N,Cin,L), weight (Cout,Cin/groups,K), optional bias (Cout)
// args: stride|padding|dilation: null|int, groups: null (default ct<1>, only with all-null args) | int
// registered as "conv1d" (no bias, 2 operands) and "conv1d_bias" (3 operands)
// ---------------------------------------------------------------------------------------------------
#if NMV_PART == 0
NMV_DOP("conv1d",
    if (A["groups"].is_null()) FIN(view::conv1d(D(0), D(1)));
    int g = (int)A["groups"].as_int();
    return opt_i(A["stride"], [&](auto s) { return opt_i(A["padding"], [&](auto p) { return opt_i(A["dilation"], [&](auto d) {
        FIN(view::conv1d(D(0), D(1), nm::None, s, p, d, g)); }); }); });)
#elif NMV_PART == 1
NMV_DOP("conv1d_bias",
    if (A["groups"].is_null()) FIN(view::conv1d(D(0), D(1), D(2)));
    int g = (int)A["groups"].as_int();
    return opt_i(A["stride"], [&](auto s) { return opt_i(A["padding"], [&](auto p) { return opt_i(A["dilation"], [&](auto d) {
        FIN(view::conv1d(D(0), D(1), D(2), s, p, d, g)); }); }); });)

// ---------------------------------------------------------------------------------------------------
// conv2d: input (N,Cin,H,W), weight (Cout,Cin/groups,KH,KW), optional bias (Cout)
// stride|padding|dilation: null|int|[a,b]; the stride kind selects the registration (one TU per kind)
// ---------------------------------------------------------------------------------------------------
#elif NMV_PART >= 2 && NMV_PART <= 7
#if NMV_PART == 2
#define C2_NAME "conv2d_sn"
#define C2_BIAS nm::None
#define C2_STRIDE only_none
#elif NMV_PART == 3
#define C2_NAME "conv2d_si"
#define C2_BIAS nm::None
#define C2_STRIDE only_int
#elif NMV_PART == 4
#define C2_NAME "conv2d_sa"
#define C2_BIAS nm::None
#define C2_STRIDE only_arr
#elif NMV_PART == 5
#define C2_NAME "conv2d_bias_sn"
#define C2_BIAS D(2)
#define C2_STRIDE only_none
#elif NMV_PART == 6
#define C2_NAME "conv2d_bias_si"
#define C2_BIAS D(2)
#define C2_STRIDE only_int
#elif NMV_PART == 7
#define C2_NAME "conv2d_bias_sa"
#define C2_BIAS D(2)
#define C2_STRIDE only_arr
#endif
NMV_DOP(C2_NAME,
    int g = (int)A["groups"].as_int();
    return C2_STRIDE(A["stride"], [&](auto s) { return opt_ia(A["padding"], [&](auto p) { return opt_ia(A["dilation"], [&](auto d) {
        FIN(view::conv2d(D(0), D(1), C2_BIAS, s, p, d, g)); }); }); });)

// ---------------------------------------------------------------------------------------------------
// pooling: array (...,H,W); kernel_size [kh,kw], stride [sh,sw], ceil_mode bool (passed as int like the tests)
// ---------------------------------------------------------------------------------------------------
#elif NMV_PART == 8
NMV_VOP1("max_pool2d", FIN(view::max_pool2d(a, arr2(A["kernel_size"]), arr2(A["stride"]), (int)A["ceil_mode"].as_bool()));)
NMV_VOP1("avg_pool2d", FIN(view::avg_pool2d(a, arr2(A["kernel_size"]), arr2(A["stride"]), (int)A["ceil_mode"].as_bool()));)

#elif NMV_PART == 9
NMV_VOP1("softmax", FIN(view::softmax(a, (int)A["axis"].as_int()));)
NMV_VOP1("softmin", FIN(view::softmin(a, (int)A["axis"].as_int()));)

// ---------------------------------------------------------------------------------------------------
// norms; eps: null -> default argument (float 1e-5), number -> double
// ---------------------------------------------------------------------------------------------------
#elif NMV_PART == 10
NMV_DOP("batch_norm",
    if (A["eps"].is_null()) FIN(view::batch_norm(D(0), D(1), D(2), D(3), D(4)));
    FIN(view::batch_norm(D(0), D(1), D(2), D(3), D(4), A["eps"].as_dbl()));)
NMV_DOP("layer_norm",
    if (A["eps"].is_null()) FIN(view::layer_norm(D(0), D(1), D(2)));
    FIN(view::layer_norm(D(0), D(1), D(2), A["eps"].as_dbl()));)
#elif NMV_PART == 11
NMV_DOP("instance_norm",
    int nd = (int)A["nd"].as_int();
    double eps = A["eps"].is_null() ? 0.0 : A["eps"].as_dbl();
    if (A["eps"].is_null()) {
        if (nd == 1) FIN(view::instance_norm_1d(D(0), D(1), D(2)));
        if (nd == 2) FIN(view::instance_norm_2d(D(0), D(1), D(2)));
    } else {
        if (nd == 1) FIN(view::instance_norm(D(0), D(1), D(2), meta::ct_v<1>, eps));
        if (nd == 2) FIN(view::instance_norm(D(0), D(1), D(2), meta::ct_v<2>, eps));
    }
    throw std::runtime_error("instance_norm: nd must be 1 or 2");)
#elif NMV_PART == 14
NMV_DOP("group_norm",
    int g = (int)A["num_groups"].as_int();
    if (A["eps"].is_null()) FIN(view::group_norm(D(0), g, D(1), D(2)));
    FIN(view::group_norm(D(0), g, D(1), D(2), A["eps"].as_dbl()));)

#elif NMV_PART == 12
NMV_DOP("linear",
    if (in.size() == 2) FIN(view::linear(D(0), D(1)));
    FIN(view::linear(D(0), D(1), D(2)));)
NMV_DOP("bilinear",
    if (in.size() == 3) FIN(view::bilinear(D(0), D(1), D(2)));
    FIN(view::bilinear(D(0), D(1), D(2), D(3)));)

#elif NMV_PART == 13
// pairwise_distance: "ord": null -> all defaults (ord 2, eps 1e-6f, keepdims False); else int ord, double eps,
// keepdims bool -> default (False) or nm::True
NMV_DOP("pairwise_distance",
    if (A["ord"].is_null()) FIN(view::pairwise_distance(D(0), D(1)));
    int ord = (int)A["ord"].as_int();
    double eps = A["eps"].as_dbl();
    if (A["keepdims"].as_bool()) FIN(view::pairwise_distance(D(0), D(1), ord, eps, nm::True));
    FIN(view::pairwise_distance(D(0), D(1), ord, eps));)
// cosine_similarity: "axis": null -> default (ct<1>); else run-time int; "eps": null -> default (1e-8f)
NMV_DOP("cosine_similarity",
    if (A["axis"].is_null()) FIN(view::cosine_similarity(D(0), D(1)));
    int axis = (int)A["axis"].as_int();
    if (A["eps"].is_null()) FIN(view::cosine_similarity(D(0), D(1), axis));
    FIN(view::cosine_similarity(D(0), D(1), axis, A["eps"].as_dbl()));)
#endif
