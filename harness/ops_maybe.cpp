// C15: genuinely nested (statically typed) pipelines whose intermediates are maybe-typed, over real dynamic arrays.
// Every op takes {"arrays":[{shape,data}...], "s1":{...}, "s2":{...}, ...} and reports the final (maybe) result.
#include "ops.hpp"
#include "nmtools/array/view/reshape.hpp"
#include "nmtools/array/view/transpose.hpp"
#include "nmtools/array/view/moveaxis.hpp"
#include "nmtools/array/view/expand_dims.hpp"
#include "nmtools/array/view/flatten.hpp"
#include "nmtools/array/view/flip.hpp"
#include "nmtools/array/view/tile.hpp"
#include "nmtools/array/view/broadcast_to.hpp"
#include "nmtools/array/view/sum.hpp"
#include "nmtools/array/view/ufuncs/add.hpp"
#include "nmtools/array/view/ufuncs/multiply.hpp"
#include "nmtools/array/view/concatenate.hpp"
#include "nmtools/array/view/matmul.hpp"
#include "nmtools/array/view/pad.hpp"
#include "nmtools/array/view/roll.hpp"
#include "nmtools/array/eval.hpp"
#include "nmtools/array/functional/functor.hpp"
using namespace nmv;

static std::shared_ptr<dyn_t<int>> leaf(const J& ja) {
    return make_leaf<int>(ja["shape"].ivec<size_t>(), ja["data"].ivec<int>());
}

template <typename R>
static void emit(W& w, const R& r) {
    using U = meta::remove_cvref_t<R>;
    w.key("static_maybe").boolean(meta::is_maybe_v<U>);
    observe_fields(w, r);
}

#if NMV_PART == 0
// transpose(reshape(a, shape), axes)
NMV_OP("mp_reshape_transpose") {
    auto a = leaf(A["arrays"][0]);
    auto v1 = view::reshape(*a, ivec(A["s1"]["shape"]));
    auto v2 = view::transpose(v1, ivec(A["s2"]["axes"]));
    emit(w, v2);
}
// sum(broadcast_to(a, shape), axis)
NMV_OP("mp_broadcast_sum") {
    auto a = leaf(A["arrays"][0]);
    auto v1 = view::broadcast_to(*a, uvec(A["s1"]["shape"]));
    auto v2 = view::sum(v1, (int)A["s2"]["axis"].as_int());
    emit(w, v2);
}
#elif NMV_PART == 1
// add(reshape(a, s1), reshape(b, s2)) : both operands maybe-typed, then broadcasting may fail as well
NMV_OP("mp_reshape_add") {
    auto a = leaf(A["arrays"][0]);
    auto b = leaf(A["arrays"][1]);
    auto v1 = view::reshape(*a, ivec(A["s1"]["shape"]));
    auto v2 = view::reshape(*b, ivec(A["s2"]["shape"]));
    auto v3 = view::add(v1, v2);
    emit(w, v3);
}
#elif NMV_PART == 2
// flatten(tile(moveaxis(a, src, dst), reps))
NMV_OP("mp_moveaxis_tile_flatten") {
    auto a = leaf(A["arrays"][0]);
    auto v1 = view::moveaxis(*a, (int)A["s1"]["source"].as_int(), (int)A["s1"]["destination"].as_int());
    auto v2 = view::tile(v1, ivec(A["s2"]["reps"]));
    auto v3 = view::flatten(v2);
    emit(w, v3);
}
#elif NMV_PART == 3
// eval(transpose(reshape(a, shape), axes)) : evaluation of an empty optional must stay empty
NMV_OP("mp_eval_reshape_transpose") {
    auto a = leaf(A["arrays"][0]);
    auto v1 = view::reshape(*a, ivec(A["s1"]["shape"]));
    auto v2 = view::transpose(v1, ivec(A["s2"]["axes"]));
    auto r = na::eval(v2, nm::None, nm::None, na::RowMajorResolver);
    emit(w, r);
}
// eval(moveaxis(expand_dims(a, axis), src, dst))   (view::flip does not accept a maybe operand: compile-time rejection)
NMV_OP("mp_eval_expand_moveaxis") {
    auto a = leaf(A["arrays"][0]);
    auto v1 = view::expand_dims(*a, ivec(A["s1"]["axis"]));
    auto v2 = view::moveaxis(v1, (int)A["s2"]["source"].as_int(), (int)A["s2"]["destination"].as_int());
    auto r = na::eval(v2, nm::None, nm::None, na::RowMajorResolver);
    emit(w, r);
}
#elif NMV_PART == 4
// matmul(reshape(a, s1), reshape(b, s2))
NMV_OP("mp_reshape_matmul") {
    auto a = leaf(A["arrays"][0]);
    auto b = leaf(A["arrays"][1]);
    auto v1 = view::reshape(*a, ivec(A["s1"]["shape"]));
    auto v2 = view::reshape(*b, ivec(A["s2"]["shape"]));
    auto v3 = view::matmulv2(v1, v2);
    emit(w, v3);
}
#elif NMV_PART == 5
// concatenate(transpose(a, axes), b, axis)
NMV_OP("mp_transpose_concatenate") {
    auto a = leaf(A["arrays"][0]);
    auto b = leaf(A["arrays"][1]);
    auto v1 = view::transpose(*a, ivec(A["s1"]["axes"]));
    auto v2 = view::concatenate(v1, *b, (int)A["s2"]["axis"].as_int());
    emit(w, v2);
}
#elif NMV_PART == 6
// roll(pad(reshape(a, shape), pad_width, 0), shift, axis)
NMV_OP("mp_reshape_pad_roll") {
    auto a = leaf(A["arrays"][0]);
    auto v1 = view::reshape(*a, ivec(A["s1"]["shape"]));
    auto v2 = view::pad(v1, ivec(A["s2"]["pad_width"]), 0);
    auto v3 = view::roll(v2, (int)A["s3"]["shift"].as_int(), (int)A["s3"]["axis"].as_int());
    emit(w, v3);
}
#elif NMV_PART == 7
// multiply(broadcast_to(a, s1), transpose(b, axes))
NMV_OP("mp_broadcast_multiply_transpose") {
    auto a = leaf(A["arrays"][0]);
    auto b = leaf(A["arrays"][1]);
    auto v1 = view::broadcast_to(*a, uvec(A["s1"]["shape"]));
    auto v2 = view::transpose(*b, ivec(A["s2"]["axes"]));
    auto v3 = view::multiply(v1, v2);
    emit(w, v3);
}
#endif
